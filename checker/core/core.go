// Package core holds the plumbing shared by all rules: loading /repo into a
// type-checked SSA program, obligations, known findings and evidence files.
package core

import (
	"encoding/json"
	"fmt"
	"go/ast"
	"go/token"
	"go/types"
	"os"
	"path/filepath"
	"sort"
	"strings"
	"time"

	"verif/checker/inl"

	"golang.org/x/tools/go/packages"
	"golang.org/x/tools/go/ssa"
	"golang.org/x/tools/go/ssa/ssautil"
)

const ModPath = "github.com/rogpeppe/go-internal"

// Config is one build configuration.
type Config struct {
	GOOS, GOARCH string
}

func (c Config) String() string { return c.GOOS + "/" + c.GOARCH }

// Prog is the loaded, type-checked program in SSA form.
type Prog struct {
	Dir      string
	Cfg      Config
	Fset     *token.FileSet
	Pkgs     map[string]*packages.Package // by import path
	Initial  []*packages.Package
	SSA      *ssa.Program
	SSAPkgs  map[string]*ssa.Package
	Files    []string // Go files of the module that were parsed
	TypeErrs map[string][]string
	funcs    map[*ssa.Function]bool
	// NormNotes describes what package inl did to the source before analysis.
	NormNotes []string
}

// Load loads dir/... (the module under verification) for one configuration.
func Load(dir string, cfg Config) (*Prog, error) {
	env := []string{}
	for _, kv := range os.Environ() {
		if strings.HasPrefix(kv, "GOWORK=") || strings.HasPrefix(kv, "GOFLAGS=") || strings.HasPrefix(kv, "GOOS=") || strings.HasPrefix(kv, "GOARCH=") {
			continue
		}
		env = append(env, kv)
	}
	env = append(env, "GOFLAGS=-mod=mod", "GOPROXY=off", "GOSUMDB=off", "GOWORK=off", "CGO_ENABLED=0", "GOTOOLCHAIN=local")
	if cfg.GOOS != "" {
		env = append(env, "GOOS="+cfg.GOOS, "GOARCH="+cfg.GOARCH)
	}
	pc := &packages.Config{Mode: packages.LoadAllSyntax, Dir: dir, Env: env, Tests: false}
	pkgs, err := packages.Load(pc, "./...")
	if err != nil {
		return nil, err
	}
	if len(pkgs) == 0 {
		return nil, fmt.Errorf("no packages loaded from %s", dir)
	}
	// Normalise to the reference decomposition: functions the pinned tree does
	// not have are inlined into their callers (package inl). Nothing happens,
	// and nothing is loaded twice, when the tree declares no such function.
	var normNotes, inlined []string
	if abs, aerr := filepath.Abs(dir); aerr == nil && os.Getenv("VERIF_NOINLINE") == "" && inl.HasUnknown(abs) {
		var overlay map[string][]byte
		cur := pkgs
		for round := 0; round < 6; round++ {
			next, notes, gone := inl.Normalize(cur, abs, ModPath, overlay)
			for _, nt := range notes {
				dup := false
				for _, o := range normNotes {
					if o == nt {
						dup = true
					}
				}
				if !dup {
					normNotes = append(normNotes, nt)
				}
			}
			if next == nil {
				inlined = gone
				break
			}
			if d := os.Getenv("VERIF_DUMP_OVERLAY"); d != "" {
				for name, b := range next {
					os.WriteFile(filepath.Join(d, fmt.Sprintf("round%d__", round+1)+strings.ReplaceAll(strings.TrimPrefix(name, abs+"/"), "/", "__")), b, 0o644)
				}
			}
			pc2 := &packages.Config{Mode: packages.LoadAllSyntax, Dir: dir, Env: env, Tests: false, Overlay: next}
			np, lerr := packages.Load(pc2, "./...")
			if lerr != nil || moduleErrors(np) > moduleErrors(pkgs) {
				normNotes = append(normNotes, fmt.Sprintf("inlining round %d discarded: the rewritten source does not type-check%s", round+1, firstModuleError(np)))
				break
			}
			overlay, cur = next, np
			inlined = gone
		}
		if d := os.Getenv("VERIF_DUMP_OVERLAY"); d != "" {
			for name, b := range overlay {
				os.WriteFile(filepath.Join(d, strings.ReplaceAll(strings.TrimPrefix(name, abs+"/"), "/", "__")), b, 0o644)
			}
		}
		if overlay != nil {
			pkgs = cur
			normNotes = append(normNotes, fmt.Sprintf("%d file(s) analysed in normalised form", len(overlay)))
		} else {
			inlined = nil
		}
	}
	p := &Prog{Dir: dir, Cfg: cfg, Pkgs: map[string]*packages.Package{}, SSAPkgs: map[string]*ssa.Package{}, Initial: pkgs, NormNotes: normNotes}
	var errs []string
	p.TypeErrs = map[string][]string{}
	packages.Visit(pkgs, nil, func(pk *packages.Package) {
		p.Pkgs[pk.PkgPath] = pk
		if strings.HasPrefix(pk.PkgPath, ModPath) {
			for _, e := range pk.Errors {
				errs = append(errs, e.Error())
				p.TypeErrs[pk.PkgPath] = append(p.TypeErrs[pk.PkgPath], e.Error())
			}
			p.Files = append(p.Files, pk.CompiledGoFiles...)
		}
	})
	sort.Strings(p.Files)
	p.Fset = pkgs[0].Fset
	var loadErr error
	if len(errs) > 0 {
		loadErr = fmt.Errorf("type errors in module packages (%s): %s", cfg, strings.Join(errs, "; "))
	}
	prog, _ := ssautil.AllPackages(pkgs, ssa.InstantiateGenerics)
	prog.Build()
	p.SSA = prog
	for _, sp := range prog.AllPackages() {
		p.SSAPkgs[sp.Pkg.Path()] = sp
	}
	p.funcs = ssautil.AllFunctions(prog)
	if len(inlined) > 0 {
		dead := map[string]bool{}
		for _, k := range inlined {
			dead[k] = true
		}
		for f := range p.funcs {
			top := f
			for top.Parent() != nil {
				top = top.Parent()
			}
			if top.Pkg == nil {
				continue
			}
			name := top.Name()
			if recv := top.Signature.Recv(); recv != nil {
				t := recv.Type()
				if pt, ok := t.(*types.Pointer); ok {
					t = pt.Elem()
				}
				if nt, ok := t.(*types.Named); ok {
					name = nt.Obj().Name() + "." + name
				}
			}
			if dead[top.Pkg.Pkg.Path()+":"+name] {
				delete(p.funcs, f)
			}
		}
		p.NormNotes = append(p.NormNotes, "inlined everywhere and dropped from the analysed program: "+strings.Join(inlined, ", "))
	}
	return p, loadErr
}

func moduleErrors(pkgs []*packages.Package) int {
	n := 0
	packages.Visit(pkgs, nil, func(pk *packages.Package) {
		if strings.HasPrefix(pk.PkgPath, ModPath) {
			n += len(pk.Errors)
		}
	})
	return n
}

func firstModuleError(pkgs []*packages.Package) string {
	out := ""
	packages.Visit(pkgs, nil, func(pk *packages.Package) {
		if strings.HasPrefix(pk.PkgPath, ModPath) && len(pk.Errors) > 0 && out == "" {
			out = ": " + pk.Errors[0].Error()
		}
	})
	return out
}

// BrokenIn reports type errors in the module packages with the given
// module-relative paths or in module packages they import.
func (p *Prog) BrokenIn(rels []string) []string {
	var out []string
	seen := map[string]bool{}
	var visit func(path string)
	visit = func(path string) {
		if seen[path] {
			return
		}
		seen[path] = true
		pk := p.Pkgs[path]
		if pk == nil {
			return
		}
		out = append(out, p.TypeErrs[path]...)
		for ip := range pk.Imports {
			if strings.HasPrefix(ip, ModPath) {
				visit(ip)
			}
		}
	}
	for _, r := range rels {
		visit(ModPath + "/" + r)
	}
	return out
}

// AllFuncs returns every function in the program (including closures).
func (p *Prog) AllFuncs() map[*ssa.Function]bool { return p.funcs }

// ModFuncs returns the functions (with bodies) that belong to the module,
// including anonymous functions, sorted by name.
func (p *Prog) ModFuncs() []*ssa.Function {
	var out []*ssa.Function
	for f := range p.funcs {
		if f.Blocks == nil || f.Pkg == nil && f.Parent() == nil {
			continue
		}
		if InModule(f) {
			out = append(out, f)
		}
	}
	sort.Slice(out, func(i, j int) bool { return out[i].String() < out[j].String() })
	return out
}

// InModule reports whether f belongs to the module under verification.
func InModule(f *ssa.Function) bool {
	for f.Parent() != nil {
		f = f.Parent()
	}
	if f.Pkg == nil {
		if o := f.Origin(); o != nil && o.Pkg != nil {
			return strings.HasPrefix(o.Pkg.Pkg.Path(), ModPath)
		}
		// synthetic wrappers (bound method closures, thunks) belong to the method's package
		if obj := f.Object(); obj != nil && obj.Pkg() != nil {
			return strings.HasPrefix(obj.Pkg().Path(), ModPath)
		}
		return false
	}
	return strings.HasPrefix(f.Pkg.Pkg.Path(), ModPath)
}

// Pkg returns the SSA package with the given path relative to the module
// ("cache", "lockedfile/internal/filelock") or nil.
func (p *Prog) Pkg(rel string) *ssa.Package {
	if rel == "" {
		return p.SSAPkgs[ModPath]
	}
	return p.SSAPkgs[ModPath+"/"+rel]
}

// TPkg returns the go/packages package for a module-relative path.
func (p *Prog) TPkg(rel string) *packages.Package { return p.Pkgs[ModPath+"/"+rel] }

// Func finds a function or method by module-relative package and name.
// name is "Parse", "(*Cache).get" or "(File).Close"; closures are "put$1".
func (p *Prog) Func(rel, name string) *ssa.Function {
	sp := p.Pkg(rel)
	if sp == nil {
		return nil
	}
	base := name
	anon := ""
	if i := strings.Index(name, "$"); i >= 0 {
		base, anon = name[:i], name[i:]
	}
	var fn *ssa.Function
	if strings.HasPrefix(base, "(") {
		r := strings.Index(base, ")")
		recv, meth := base[1:r], base[r+2:]
		ptr := strings.HasPrefix(recv, "*")
		recv = strings.TrimPrefix(recv, "*")
		tn, _ := sp.Pkg.Scope().Lookup(recv).(*types.TypeName)
		if tn == nil {
			return nil
		}
		var t types.Type = tn.Type()
		if ptr {
			t = types.NewPointer(t)
		}
		sel := p.SSA.MethodSets.MethodSet(t).Lookup(sp.Pkg, meth)
		if sel == nil {
			return nil
		}
		fn = p.SSA.MethodValue(sel)
	} else {
		fn = sp.Func(base)
	}
	if fn == nil || anon == "" {
		return fn
	}
	want := fn.Name() + anon
	var find func(f *ssa.Function) *ssa.Function
	find = func(f *ssa.Function) *ssa.Function {
		for _, a := range f.AnonFuncs {
			if a.Name() == want {
				return a
			}
			if r := find(a); r != nil {
				return r
			}
		}
		return nil
	}
	return find(fn)
}

// Pos renders a position relative to the repository root.
func (p *Prog) Pos(pos token.Pos) string {
	if !pos.IsValid() {
		return "-"
	}
	ps := p.Fset.Position(pos)
	rel, err := filepath.Rel(p.Dir, ps.Filename)
	if err != nil || strings.HasPrefix(rel, "..") {
		rel = ps.Filename
	}
	return fmt.Sprintf("%s:%d", rel, ps.Line)
}

// FuncDecl returns the syntax of a source-level function.
func (p *Prog) FuncDecl(f *ssa.Function) *ast.FuncDecl {
	fd, _ := f.Syntax().(*ast.FuncDecl)
	return fd
}

// ---------------------------------------------------------------------------
// Obligations

type Status string

const (
	Discharged Status = "discharged"
	Violated   Status = "violated"
	Undecided  Status = "undecided"
	Assumed    Status = "assumed"
	Info       Status = "info"
)

type Obligation struct {
	Key        string `json:"key"` // <property>.<rule>@<construct>
	Rule       string `json:"rule"`
	Construct  string `json:"construct"`
	Pos        string `json:"pos"`
	Status     Status `json:"status"`
	Detail     string `json:"detail,omitempty"`
	Nontrivial bool   `json:"nontrivial"`
	Config     string `json:"config,omitempty"`
	Known      bool   `json:"known_finding,omitempty"`
}

// Ctx collects the obligations of one property run.
type Ctx struct {
	Property  string
	Tier      string
	P         *Prog
	Obls      []*Obligation
	RuleDocs  map[string]string
	mins      map[string]int
	Assume    []string
	Trusted   []string
	FuncsSeen map[string]bool
	CfgName   string
	NFiles    int
	NPkgs     int
	keys      map[string]bool
}

func NewCtx(prop, tier string, p *Prog) *Ctx {
	c := &Ctx{Property: prop, Tier: tier, P: p, RuleDocs: map[string]string{}, mins: map[string]int{}, FuncsSeen: map[string]bool{}, keys: map[string]bool{}}
	if p != nil {
		c.CfgName = p.Cfg.String()
		c.NFiles = len(p.Files)
		for _, n := range p.NormNotes {
			c.Assume = append(c.Assume, "source normalisation ("+p.Cfg.String()+"): "+n)
		}
		for path := range p.Pkgs {
			if strings.HasPrefix(path, ModPath) {
				c.NPkgs++
			}
		}
	}
	return c
}

// Rule registers the text of a rule and the minimum number of instances that
// must be examined (a rule that matches fewer fails the check).
func (c *Ctx) Rule(id, doc string, min int) {
	c.RuleDocs[id] = doc
	c.mins[id] = min
}

func (c *Ctx) add(rule, construct string, pos token.Pos, st Status, nontrivial bool, format string, args ...any) *Obligation {
	key := c.Property + "." + rule + "@" + construct
	// keep keys unique: append an ordinal when a construct repeats
	k := key
	for i := 2; c.keys[k]; i++ {
		k = fmt.Sprintf("%s#%d", key, i)
	}
	c.keys[k] = true
	o := &Obligation{Key: k, Rule: rule, Construct: construct, Status: st, Nontrivial: nontrivial, Detail: fmt.Sprintf(format, args...)}
	if c.P != nil {
		o.Pos = c.P.Pos(pos)
		o.Config = c.P.Cfg.String()
	}
	c.Obls = append(c.Obls, o)
	return o
}

func (c *Ctx) OK(rule, construct string, pos token.Pos, format string, args ...any) {
	c.add(rule, construct, pos, Discharged, true, format, args...)
}

// OKTrivial records a discharged obligation that needed no semantic fact.
func (c *Ctx) OKTrivial(rule, construct string, pos token.Pos, format string, args ...any) {
	c.add(rule, construct, pos, Discharged, false, format, args...)
}

func (c *Ctx) Bad(rule, construct string, pos token.Pos, format string, args ...any) {
	c.add(rule, construct, pos, Violated, true, format, args...)
}

func (c *Ctx) Unknown(rule, construct string, pos token.Pos, format string, args ...any) {
	c.add(rule, construct, pos, Undecided, true, format, args...)
}

func (c *Ctx) Note(rule, construct string, pos token.Pos, format string, args ...any) {
	c.add(rule, construct, pos, Info, false, format, args...)
}

func (c *Ctx) AssumeOb(rule, construct string, pos token.Pos, format string, args ...any) {
	c.add(rule, construct, pos, Assumed, false, format, args...)
}

// Check is a convenience: ok -> discharged, else violated.
func (c *Ctx) Check(ok bool, rule, construct string, pos token.Pos, format string, args ...any) bool {
	if ok {
		c.OK(rule, construct, pos, format, args...)
	} else {
		c.Bad(rule, construct, pos, format, args...)
	}
	return ok
}

// Need returns fn or records an undecided obligation for a lost anchor.
func (c *Ctx) Need(rule, rel, name string) *ssa.Function {
	f := c.P.Func(rel, name)
	if f == nil || f.Blocks == nil {
		c.Unknown(rule, rel+"."+name, token.NoPos, "anchor function %s.%s not found in this configuration: the rule cannot be evaluated", rel, name)
		return nil
	}
	c.FuncsSeen[f.String()] = true
	return f
}

// NeedRole finds the function of package rel (anonymous functions included)
// that plays a role recognised by pred; fallback names the function of the
// pinned tree and is used when several qualify. The anchor is thereby bound to
// what the function does, not to what it is called.
func (c *Ctx) NeedRole(rule, rel, fallback, role string, pred func(*ssa.Function) bool) *ssa.Function {
	var found []*ssa.Function
	for _, f := range c.P.ModFuncs() {
		top := f
		for top.Parent() != nil {
			top = top.Parent()
		}
		if top.Pkg == nil || top.Pkg.Pkg.Path() != ModPath+"/"+rel || f.Blocks == nil {
			continue
		}
		if pred(f) {
			found = append(found, f)
		}
	}
	if len(found) == 1 {
		c.FuncsSeen[found[0].String()] = true
		return found[0]
	}
	if f := c.P.Func(rel, fallback); f != nil && f.Blocks != nil {
		for _, g := range found {
			if g == f {
				c.FuncsSeen[f.String()] = true
				return f
			}
		}
	}
	c.Unknown(rule, rel+"."+fallback, token.NoPos, "anchor not found: %d functions of %s play the role %q (%s on the pinned tree): the rule cannot be evaluated", len(found), rel, role, fallback)
	return nil
}

func (c *Ctx) Seen(f *ssa.Function) {
	if f != nil {
		c.FuncsSeen[f.String()] = true
	}
}

// Finish checks minimum instance counts.
func (c *Ctx) Finish() {
	// the minimum instance counts were confirmed by hand for linux/amd64; platform siblings
	// legitimately have different shapes (lost anchors are still reported by Need)
	if c.CfgName != "" && c.CfgName != "linux/amd64" {
		return
	}
	count := map[string]int{}
	for _, o := range c.Obls {
		if o.Status != Info {
			count[o.Rule]++
		}
	}
	var ids []string
	for id := range c.mins {
		ids = append(ids, id)
	}
	sort.Strings(ids)
	for _, id := range ids {
		if count[id] < c.mins[id] {
			c.Unknown(id, "instance-count", token.NoPos, "rule matched %d instances, fewer than the %d confirmed by hand on the pinned tree: anchors lost or code reshaped beyond what the rule recognises", count[id], c.mins[id])
		}
	}
}

// ---------------------------------------------------------------------------
// Known findings

type Finding struct {
	Property string `json:"property"`
	Key      string `json:"key"`    // obligation key without ordinal/config
	Status   string `json:"status"` // "known" or "fixed"
	What     string `json:"what"`
	Input    string `json:"failing_input,omitempty"`
	Commit   string `json:"commit,omitempty"`
}

type FindingsFile struct {
	Comment  string    `json:"comment"`
	Findings []Finding `json:"findings"`
}

func LoadFindings(path string) (*FindingsFile, error) {
	b, err := os.ReadFile(path)
	if err != nil {
		if os.IsNotExist(err) {
			return &FindingsFile{}, nil
		}
		return nil, err
	}
	var f FindingsFile
	if err := json.Unmarshal(b, &f); err != nil {
		return nil, err
	}
	return &f, nil
}

// ---------------------------------------------------------------------------
// Evidence

type Evidence struct {
	PropertyID  string         `json:"property_id"`
	Tier        string         `json:"tier"`
	Seed        int            `json:"seed"`
	Level       string         `json:"level"`
	Coverage    map[string]any `json:"coverage"`
	Assumptions []string       `json:"assumptions"`
	WallS       float64        `json:"wall_s"`
	Violations  int            `json:"violations"`
}

// Result of running one property (possibly over several configurations).
type Result struct {
	Property string
	Tier     string
	Obls     []*Obligation
	RuleDocs map[string]string
	Assume   []string
	Trusted  []string
	Funcs    []string
	Configs  []string
	Files    int
	Packages int
	Start    time.Time
	Controls []string
	Quiet    bool
}

func (r *Result) Merge(c *Ctx) {
	r.Obls = append(r.Obls, c.Obls...)
	if r.RuleDocs == nil {
		r.RuleDocs = map[string]string{}
	}
	for k, v := range c.RuleDocs {
		r.RuleDocs[k] = v
	}
	r.Assume = uniq(append(r.Assume, c.Assume...))
	r.Trusted = uniq(append(r.Trusted, c.Trusted...))
	var fs []string
	for f := range c.FuncsSeen {
		fs = append(fs, f)
	}
	r.Funcs = uniq(append(r.Funcs, fs...))
	if c.CfgName != "" {
		r.Configs = uniq(append(r.Configs, c.CfgName))
	}
	if c.NFiles > r.Files {
		r.Files = c.NFiles
	}
	if c.NPkgs > r.Packages {
		r.Packages = c.NPkgs
	}
}

func uniq(s []string) []string {
	sort.Strings(s)
	out := s[:0]
	for i, v := range s {
		if i == 0 || v != s[i-1] {
			out = append(out, v)
		}
	}
	return out
}

// BaseKey strips the "#n" ordinal from an obligation key.
// ConstructKey is an obligation key without its build-configuration suffix:
// rule, function and construct ("C13.T8@cache.Trim#all-subdirs"). Known
// findings are matched on it, so that another construct violating the same rule
// in the same function is still reported.
func ConstructKey(k string) string {
	if i := strings.LastIndex(k, "%"); i >= 0 {
		k = k[:i]
	}
	return k
}

func BaseKey(k string) string {
	if i := strings.LastIndex(k, "%"); i >= 0 {
		k = k[:i]
	}
	if i := strings.LastIndex(k, "#"); i >= 0 && !strings.Contains(k[i:], "@") {
		return k[:i]
	}
	return k
}

// Report applies the known findings, writes the evidence file and replay files,
// prints VIOLATION / KNOWN-FINDING lines and returns the exit status.
func (r *Result) Report(verifDir string, ff *FindingsFile, seed int) int {
	known := map[string]Finding{}
	for _, f := range ff.Findings {
		if f.Property == r.Property && f.Status == "known" {
			known[f.Key] = f
		}
	}
	var viol, undec []*Obligation
	counts := map[Status]int{}
	nontrivial := map[string]bool{}
	printedKnown := map[string]bool{}
	for _, o := range r.Obls {
		counts[o.Status]++
		if o.Status == Discharged && o.Nontrivial {
			nontrivial[BaseKey(o.Key)] = true
		}
		switch o.Status {
		case Violated:
			if f, ok := known[ConstructKey(o.Key)]; ok {
				o.Known = true
				if !printedKnown[f.Key] {
					printedKnown[f.Key] = true
					fmt.Printf("KNOWN-FINDING: property=%s %s [%s at %s]\n", r.Property, f.What, o.Key, o.Pos)
				}
				continue
			}
			viol = append(viol, o)
		case Undecided:
			undec = append(undec, o)
		}
	}
	evDir := filepath.Join(verifDir, "evidence")
	os.MkdirAll(filepath.Join(evDir, "replay"), 0o777)
	exit := 0
	emit := func(o *Obligation, kind string) {
		name := strings.NewReplacer("/", "_", "@", "_", "(", "", ")", "", "*", "", "$", "_", "#", "_", " ", "_", ":", "_").Replace(o.Key)
		path := filepath.Join(evDir, "replay", name+".json")
		b, _ := json.MarshalIndent(map[string]any{"property": r.Property, "kind": kind, "obligation": o, "rule_text": r.RuleDocs[o.Rule],
			"how_to_replay": fmt.Sprintf("bin/gicheck -property %s -tier %s  (the obligation is re-derived from /repo's source; see pos and detail)", r.Property, r.Tier)}, "", " ")
		os.WriteFile(path, b, 0o666)
		if !r.Quiet {
			fmt.Printf("%s: %s [%s] %s: %s\n", strings.ToUpper(kind), o.Pos, o.Key, o.Config, o.Detail)
		}
		fmt.Printf("VIOLATION property=%s replay=%s\n", r.Property, path)
		exit = 1
	}
	for _, o := range viol {
		emit(o, "violated")
	}
	for _, o := range undec {
		emit(o, "undecided")
	}
	total := 0
	for _, o := range r.Obls {
		if o.Status != Info {
			total++
		}
	}
	var samples []any
	for _, o := range r.Obls {
		samples = append(samples, o)
	}
	var rules []string
	for id, d := range r.RuleDocs {
		rules = append(rules, id+": "+d)
	}
	sort.Strings(rules)
	ev := Evidence{PropertyID: r.Property, Tier: r.Tier, Seed: seed, Level: "other", Assumptions: r.Assume, WallS: time.Since(r.Start).Seconds(), Violations: len(viol) + len(undec)}
	if ev.Assumptions == nil {
		ev.Assumptions = []string{}
	}
	ev.Coverage = map[string]any{
		"explanation": "Static analysis of /repo's current source (go/packages + go/types + go/ssa, nothing executed). Rules applied: " + strings.Join(rules, " | "),
		"obligations": total, "discharged": counts[Discharged], "violated": counts[Violated], "undecided": counts[Undecided], "assumed": counts[Assumed], "info": counts[Info],
		"known_findings_matched": len(printedKnown),
		"evaluations":            total,
		"distinct_nontrivial":    len(nontrivial),
		"rule":                   "one obligation per rule instance (rule x construct); an obligation is non-trivial when its discharge used a dominance, path-search, provenance, lockset or bounds fact rather than a syntactic match; counted by distinct obligation key",
		"samples":                samples,
		"functions_analysed":     r.Funcs,
		"build_configs":          r.Configs,
		"packages":               r.Packages,
		"files_parsed":           r.Files,
		"trusted_base":           r.Trusted,
		"engine_controls_fired":  r.Controls,
		"checker_cmd":            fmt.Sprintf("bin/gicheck -property %s -tier %s", r.Property, r.Tier),
		"exhaustive":             false,
	}
	b, _ := json.MarshalIndent(ev, "", " ")
	if err := os.WriteFile(filepath.Join(evDir, r.Property+".json"), b, 0o666); err != nil {
		fmt.Fprintln(os.Stderr, "cannot write evidence:", err)
		return 2
	}
	fmt.Printf("property=%s tier=%s configs=%v obligations=%d discharged=%d violated=%d(known %d) undecided=%d assumed=%d wall=%.1fs\n",
		r.Property, r.Tier, r.Configs, total, counts[Discharged], counts[Violated], counts[Violated]-len(viol), counts[Undecided], counts[Assumed], ev.WallS)
	return exit
}
