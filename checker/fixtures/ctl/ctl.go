// Package ctl holds the positive controls of the analysis engines: for each
// primitive one function on which it must fire and a twin on which it must not.
// The package is loaded and checked on every gicheck run; it is never executed.
package ctl

import (
	"errors"
	"os"
	"sync"
)

type T struct {
	mu    sync.Mutex
	count int
	items []string
	flag  bool
}

func (t *T) fatal() { panic("fatal") }

// ---- bounds engine
func BoundsBad(b []byte) byte { return b[3] }
func BoundsGood(b []byte) byte {
	if len(b) < 4 {
		return 0
	}
	return b[3]
}

// ---- no-return pruning: the guard only counts because fatal never returns
func GuardGood(t *T, args []string) string {
	if len(args) != 1 {
		t.fatal()
	}
	return args[0]
}
func GuardBad(t *T, args []string) string {
	if len(args) > 1 {
		t.fatal()
	}
	return args[0]
}

// ---- memory-equivalent loads
func CanonGood(t *T) string {
	for i := range t.items {
		if t.items[i] != "" {
			return t.items[i]
		}
	}
	return ""
}
func CanonBad(t *T) string {
	for i := range t.items {
		t.items = t.items[:0]
		if t.items[i] != "" {
			return "x"
		}
	}
	return ""
}

// ---- must-pass-through
func CloseGood(name string) error {
	f, err := os.Open(name)
	if err != nil {
		return err
	}
	if _, err := f.Stat(); err != nil {
		f.Close()
		return err
	}
	return f.Close()
}
func CloseBad(name string) error {
	f, err := os.Open(name)
	if err != nil {
		return err
	}
	if _, err := f.Stat(); err != nil {
		return err
	}
	return f.Close()
}

// ---- lockset
func (t *T) LockGood() int {
	t.mu.Lock()
	defer t.mu.Unlock()
	return t.count
}
func (t *T) LockBad() int {
	t.mu.Lock()
	t.mu.Unlock()
	return t.count
}

// ---- path-sensitive explorer with a flag kept in memory (captured by a closure)
func FlagGood(t *T, lines []string) {
	failed := false
	defer func() { _ = failed }()
	for _, l := range lines {
		if l == "" {
			failed = true
		}
	}
	if failed {
		t.fatal()
	}
}
func FlagBad(t *T, lines []string) {
	failed := false
	defer func() { _ = failed }()
	for _, l := range lines {
		if l == "" {
			failed = true
		}
		if l == "reset" {
			failed = false
		}
	}
	if failed {
		t.fatal()
	}
}

// ---- disjunctive guard on all paths
func AllPathsGood(names []string) int {
	n := 0
	for _, name := range names {
		if !hasA(name) && !hasD(name) {
			continue
		}
		n += use(name)
	}
	return n
}
func AllPathsBad(names []string) int {
	n := 0
	for _, name := range names {
		if !hasA(name) && name == "" {
			continue
		}
		n += use(name)
	}
	return n
}

func hasA(s string) bool { return len(s) > 1 && s[len(s)-1] == 'a' }
func hasD(s string) bool { return len(s) > 1 && s[len(s)-1] == 'd' }
func use(s string) int   { return len(s) }

// ---- edge facts through && and !
func GateGood(a, b []byte, ok bool) []byte {
	if ok && string(a) == string(b) {
		return a
	}
	return nil
}
func GateBad(a, b []byte, ok bool) []byte {
	if ok || string(a) == string(b) {
		return a
	}
	return nil
}

// ---- facts about phis: a verdict computed on several branches and tested afterwards
func PhiGood(b []byte) (byte, error) {
	var err error
	for {
		if len(b) < 4 {
			err = errors.New("short")
			break
		}
		break
	}
	if err != nil {
		return 0, err
	}
	return b[3], nil
}
func PhiBad(b []byte) (byte, error) {
	var err error
	for {
		if len(b) < 4 {
			break
		}
		err = errors.New("long")
		break
	}
	if err != nil {
		return 0, err
	}
	return b[3], nil
}

// ---- counted loops: the exact range of the values the body sees
func CountGood() (n int) {
	for i := range 256 {
		n += use2(i)
	}
	return n
}
func CountBad() (n int) {
	for i := range 0xff {
		n += use2(i)
	}
	return n
}
func CountClassic() (n int) {
	for i := 0; i < 256; i++ {
		n += use2(i)
	}
	return n
}
func use2(i int) int { return i }

// ---- normaliser: the helper is unknown to the reference list and must dissolve into its caller
func InlCaller(name string) error {
	f, err := inlOpen(name)
	if err != nil {
		return err
	}
	return f.Close()
}
func inlOpen(name string) (*os.File, error) {
	if name == "" {
		return nil, errors.New("no name")
	}
	return os.Open(name)
}

// ---- normaliser, tables: the helper checks fixed offsets in a loop over a constant table;
// written out and inlined, the caller tests b[1] and b[3] and has no loop
func InlTable(b []byte) bool {
	if len(b) < 4 {
		return false
	}
	return inlLayout(b)
}
func inlLayout(b []byte) bool {
	offs := [...]int{1, 3}
	for _, i := range offs {
		if b[i] != ' ' {
			return false
		}
	}
	return true
}

// ---- twin comparisons and merges: the second "c == 'q'" is the same truth value as the first,
// so the branch that skipped case one because c != 'q' cannot be the way into case two
func TwinGood(c byte, quoted bool) int {
	switch {
	case c == 'q' && !quoted:
		return 1
	case c == 'q':
		return use2(2) // quoted is known true here
	}
	return 0
}
func TwinBad(c, d byte, quoted bool) int {
	switch {
	case c == 'q' && !quoted:
		return 1
	case d == 'q':
		return use2(2) // nothing is known about quoted here
	}
	return 0
}

// ---- the same flag kept in a field of a state struct shared with a deferred function:
// tracked when nothing else can write it, given up when a callee can
type flagState struct {
	failed bool
	n      int
}

func FieldFlagGood(t *T, lines []string) {
	st := &flagState{}
	defer func(s *flagState) { _ = s.failed }(st)
	for _, l := range lines {
		if l == "" {
			st.failed = true
		}
	}
	if st.failed {
		t.fatal()
	}
}
func FieldFlagBad(t *T, lines []string) {
	st := &flagState{}
	defer func(s *flagState) { _ = s.failed }(st)
	for _, l := range lines {
		if l == "" {
			st.failed = true
		}
		clearFlag(st)
	}
	if st.failed {
		t.fatal()
	}
}
func clearFlag(s *flagState) { s.failed = false }

// ---- normaliser, leading defers: the helper's deferred close is made after its body once merged
func InlDeferCaller(name string) error {
	f, err := os.Open(name)
	if err != nil {
		return err
	}
	if err := inlStatAndClose(f); err != nil {
		return err
	}
	return nil
}
func inlStatAndClose(f *os.File) (err error) {
	defer func() {
		if cerr := f.Close(); err == nil {
			err = cerr
		}
	}()
	if _, err := f.Stat(); err != nil {
		return err
	}
	return nil
}
