package rules

import (
	"go/token"
	"strings"

	"golang.org/x/tools/go/ssa"

	"verif/checker/core"
	"verif/checker/ssax"
)

// Rules added after the sixth seeding round.

// c10Round6: the entry's mutex is held until the result is published.
func c10Round6(ctx *core.Ctx) {
	p := ctx.P
	ctx.Rule("K10", "the entry's lock is not released behind f's back: Cache.Do does not defer the Unlock of the entry mutex (a deferred Unlock runs when f panics or calls Goexit, with done still 0, and the next caller runs f a second time)", 0)
	do := p.Func("par", "(*Cache).Do")
	if do == nil {
		return
	}
	n := 0
	graph(p, do).Instrs(func(i ssa.Instruction) {
		d, ok := i.(*ssa.Defer)
		if !ok {
			return
		}
		unl := ssax.CalleeName(&d.Call) == "(*sync.Mutex).Unlock"
		if mc, isMC := d.Call.Value.(*ssa.MakeClosure); isMC {
			graph(p, mc.Fn.(*ssa.Function)).Instrs(func(j ssa.Instruction) {
				if c := ssax.CallOf(j); c != nil && ssax.CalleeName(c) == "(*sync.Mutex).Unlock" {
					unl = true
				}
			})
		}
		if unl {
			n++
			ctx.Bad("K10", "par.Cache.Do#deferred-unlock"+itoa(n), d.Pos(), "the entry mutex is unlocked by defer: a panicking f leaves an unfinished entry unlocked")
		}
	})
	if n == 0 {
		ctx.OK("K10", "par.Cache.Do#no-deferred-unlock", do.Pos(), "Do releases the entry mutex only by a direct call, after the result was published")
	}
}

// c07Round6: Read hands out a slice of its own.
func c07Round6(ctx *core.Ctx) {
	p := ctx.P
	ctx.Rule("A6", "Read returns the bytes it read and nothing shared: the data result of lockedfile.Read is the result of io.ReadAll on the locked file itself (a pooled buffer handed out and put back is overwritten by the next Read while the caller still holds it)", 1)
	rd := p.Func("lockedfile", "Read")
	if rd == nil {
		ctx.Unknown("A6", "lockedfile.Read", token.NoPos, "Read not found")
		return
	}
	g := graph(p, rd)
	n := 0
	for _, r := range g.Returns() {
		rv := ssax.ReturnValues(r)
		if len(rv) != 2 || ssax.IsNil(rv[0]) {
			continue
		}
		n++
		ok := true
		for _, v := range g.ResolveAll(rv[0], r) {
			if ssax.IsNil(v) {
				continue
			}
			e, isE := v.(*ssa.Extract)
			c, isC := (ssa.Value)(nil), false
			if isE {
				var cc *ssa.Call
				cc, isC = e.Tuple.(*ssa.Call)
				if isC {
					c = cc
					nm := ssax.CalleeName(&cc.Call)
					if nm != "io.ReadAll" && nm != "os.ReadFile" {
						ok = false
					}
				}
			}
			if !isE || !isC || c == nil {
				ok = false
			}
		}
		ctx.Check(ok, "A6", "lockedfile.Read#fresh-result"+itoa(n), r.Pos(), "the returned data is what io.ReadAll produced for this call")
	}
	if n == 0 {
		ctx.Unknown("A6", "lockedfile.Read#fresh-result", rd.Pos(), "Read never returns data")
	}
}

// c05Round6: the debug switches are exact words.
func c05Round6(ctx *core.Ctx) {
	p := ctx.P
	ctx.Rule("G13", "verify mode only on request: the package variable verify is set to true only under equality of a GODEBUG item with the exact word \"gocacheverify=1\" (a prefix test turns lookups off for gocacheverify=0 as well)", 1)
	ie := p.Func("cache", "initEnv")
	if ie == nil {
		ctx.Note("G13", "cache.initEnv", token.NoPos, "initEnv not found; clause not decided")
		return
	}
	g := graph(p, ie)
	n := 0
	g.Instrs(func(i ssa.Instruction) {
		st, ok := i.(*ssa.Store)
		if !ok {
			return
		}
		gl, ok := st.Addr.(*ssa.Global)
		if !ok || gl.Name() != "verify" {
			return
		}
		if k, isK := ssax.ConstBool(st.Val); !isK || !k {
			return
		}
		n++
		ctx.Check(cmpFact(g.FactsAtInstr(st), token.EQL, anyVal, isConstStr("gocacheverify=1")), "G13", "cache.initEnv#verify-on"+itoa(n), st.Pos(), "verify = true only for the item \"gocacheverify=1\"")
	})
	if n == 0 {
		ctx.Note("G13", "cache.initEnv#verify-on", ie.Pos(), "initEnv never turns verify mode on")
	}
}

// c02Round6: names are compared exactly; the command's -e flag takes the host value only when none was given.
func c02Round6(ctx *core.Ctx) {
	p := ctx.P
	ctx.Rule("N14", "variable names are matched as the platform matches them: Env.Getenv and Env.Setenv compare names through envvarname only - no EqualFold/ToLower/ToUpper of their own (on unix HTTP_PROXY and http_proxy are two variables)", 1)
	n := 0
	for _, nm := range []string{"(*Env).Getenv", "(*Env).Setenv"} {
		f := p.Func("testscript", nm)
		if f == nil {
			continue
		}
		n++
		bad := ""
		graph(p, f).Instrs(func(i ssa.Instruction) {
			if c := ssax.CallOf(i); c != nil {
				switch ssax.CalleeName(c) {
				case "strings.EqualFold", "strings.ToLower", "strings.ToUpper", "bytes.EqualFold":
					bad = ssax.CalleeName(c)
				}
			}
		})
		ctx.Check(bad == "", "N14", "testscript."+strings.TrimPrefix(nm, "(*Env).")+"#exact-names", f.Pos(), "no case folding of variable names %s", bad)
	}
	if n == 0 {
		ctx.Note("N14", "testscript.Env", token.NoPos, "Env accessors not found")
	}
	ctx.Rule("N15", "testscript -e NAME=value: the host's value is consulted only when no '=' was given - the os.Getenv of a flag-supplied name in cmd/testscript is reached only where the search for '=' failed (an explicit empty value must stay empty); and the name is checked (not empty, not WORK) on every path before the variable is added", 1)
	if m := p.Func("cmd/testscript", "mainerr"); m != nil {
		k := 0
		for _, f := range reachableMod(p, []*ssa.Function{m}, nil) {
			if f.Pkg != m.Pkg && (f.Parent() == nil || f.Parent().Pkg != m.Pkg) {
				continue
			}
			g := graph(p, f)
			for _, c := range g.Calls("os.Getenv") {
				if _, isConst := ssax.ConstString(c.Call.Args[0]); isConst {
					continue
				}
				k++
				facts := g.FactsAtInstr(c)
				noEq := hasFact(facts, false, func(v ssa.Value) bool {
					_, idx, ok := cutCall(v, "Cut")
					return ok && idx == 2
				}) || cmpFact(facts, token.LSS, func(v ssa.Value) bool { _, sep, ok := firstIndexOf(v); return ok && sep == "=" }, isConstIntV(0)) ||
					hasFact(facts, false, func(v ssa.Value) bool {
						cc, ok := v.(*ssa.Call)
						return ok && (ssax.CalleeName(&cc.Call) == "strings.Contains" || ssax.CalleeName(&cc.Call) == "strings.ContainsRune")
					})
				ctx.Check(noEq, "N15", shortFn(f)+"#host-value"+itoa(k), c.Pos(), "the host environment is asked only when the flag had no '='")
			}
			// the WORK / empty-name check comes before the variable is appended, on every path
			for _, ap := range g.Instrs2Calls(func(cc *ssa.Call) bool {
				return isBuiltinCall(cc, "append") && len(cc.Call.Args) == 2 && isFieldLoad("Vars")(cc.Call.Args[0])
			}) {
				// only the append of a flag-supplied variable: it sits in the loop over the flag values
				if _, inLoop := innermostLoop(g, ap.Block().Index); !inLoop {
					continue
				}
				k++
				var cmpWork ssa.Instruction
				g.Instrs(func(i ssa.Instruction) {
					if b, ok := i.(*ssa.BinOp); ok && (b.Op == token.EQL || b.Op == token.NEQ) && (isConstStr("WORK")(b.X) || isConstStr("WORK")(b.Y)) {
						cmpWork = b
					}
				})
				okW := cmpWork != nil
				if okW {
					hit, _ := g.ReachableWithout(ssax.Point{}, func(i ssa.Instruction) bool { return i == ssa.Instruction(ap) }, func(i ssa.Instruction) bool { return i == cmpWork })
					okW = hit == nil
				}
				ctx.Check(okW, "N15", shortFn(f)+"#name-checked"+itoa(k), ap.Pos(), "the variable is added only after its name was compared with \"WORK\"")
			}
		}
		if k == 0 {
			ctx.Note("N15", "cmd/testscript#env-flags", m.Pos(), "no -e handling found; clause not decided")
		}
	}
}

// c14Round6: Quote never hands its argument back.
func c14Round6(ctx *core.Ctx) {
	p := ctx.P
	ctx.Rule("Q11", "Quote always quotes: no successful return of Quote yields its argument unchanged (text whose every line already starts with '>' must gain another level, or Unquote(Quote(x)) comes back one level short)", 1)
	q := p.Func("txtar", "Quote")
	if q == nil || len(q.Params) != 1 {
		return
	}
	g := graph(p, q)
	n := 0
	for _, r := range g.Returns() {
		rv := ssax.ReturnValues(r)
		if len(rv) != 2 || !ssax.IsNil(rv[1]) {
			continue
		}
		n++
		same := false
		for _, v := range g.ResolveAll(rv[0], r) {
			if v == ssa.Value(q.Params[0]) {
				same = true
			}
		}
		// the empty input is its own quotation
		if same && cmpFact(g.FactsAtInstr(r), token.EQL, isLenOf(q.Params[0]), isConstIntV(0)) {
			same = false
		}
		ctx.Check(!same, "Q11", "txtar.Quote#fresh-result"+itoa(n), r.Pos(), "the result is built, not the argument handed back")
	}
}

// c19Round6: what ScanDir asks MatchFile about, and when a line counts as blank.
func c19Round6(ctx *core.Ctx) {
	c19PlusLines(ctx)
	p := ctx.P
	ctx.Rule("B11", "MatchFile judges file names: every call of MatchFile in package imports passes the directory entry's base name (the result of Name()), not a path - MatchFile cuts at the first dot, and a dot in a directory name hides the GOOS/GOARCH suffix", 1)
	mf := p.Func("imports", "MatchFile")
	n := 0
	for _, f := range p.ModFuncs() {
		if mf == nil || f.Pkg != mf.Pkg && (f.Parent() == nil || f.Parent().Pkg != mf.Pkg) {
			continue
		}
		for _, c := range graph(p, f).Calls(ssax.FuncName(mf)) {
			n++
			arg := ssax.Strip(c.Call.Args[0])
			nc, ok := arg.(*ssa.Call)
			ctx.Check(ok && nc.Call.IsInvoke() && nc.Call.Method.Name() == "Name", "B11", shortFn(f)+"#match-arg"+itoa(n), c.Pos(), "MatchFile receives the entry's Name()")
		}
	}
	if n == 0 {
		ctx.Note("B11", "imports#match-calls", token.NoPos, "MatchFile is not called inside package imports in this configuration")
	}
	ctx.Rule("B12", "the header ends at a blank line only: in ShouldBuild the end of the constraint header moves only where the trimmed line is known to be empty (counting the last line of the input as blank makes a +build comment directly above the package clause a constraint)", 1)
	sb := p.Func("imports", "ShouldBuild")
	if sb == nil || len(sb.Params) < 1 {
		return
	}
	g := graph(p, sb)
	k := 0
	g.Instrs(func(i ssa.Instruction) {
		b, ok := i.(*ssa.BinOp)
		if !ok || b.Op != token.SUB {
			return
		}
		// end = len(content) - len(p)
		lx, okx := b.X.(*ssa.Call)
		ly, oky := b.Y.(*ssa.Call)
		if !okx || !oky || !isBuiltinCall(lx, "len") || !isBuiltinCall(ly, "len") || lx.Call.Args[0] != ssa.Value(sb.Params[0]) {
			return
		}
		k++
		blank := onAllPaths(g, b, nil, func(f ssax.Fact) bool {
			return cmpFact([]ssax.Fact{f}, token.EQL, func(v ssa.Value) bool {
				c, ok := v.(*ssa.Call)
				if !ok || !isBuiltinCall(c, "len") {
					return false
				}
				return ssax.DerivedFrom(c.Call.Args[0], isCallOf([]string{"bytes.TrimSpace", "strings.TrimSpace"}), nil)
			}, isConstIntV(0))
		})
		ctx.Check(blank, "B12", "imports.ShouldBuild#header-end"+itoa(k), b.Pos(), "the header end is advanced only past a line known to be blank")
	})
	if k == 0 {
		ctx.Note("B12", "imports.ShouldBuild#header-end", sb.Pos(), "no 'len(content) - len(rest)' header-end computation found; clause not decided")
	}
}

// c19PlusLines (B13): every comment line that starts with '+' is looked at.
func c19PlusLines(ctx *core.Ctx) {
	p := ctx.P
	ctx.Rule("B13", "every +line is read: in the pass of ShouldBuild that evaluates constraints, a line goes to the next one without having been split into fields only if it is not a // comment, is empty after the slashes, or does not start with '+' - no other condition (a minimum length, say) may let a bare '// +build' slip through as if it were prose", 1)
	sb := p.Func("imports", "ShouldBuild")
	if sb == nil {
		return
	}
	g := graph(p, sb)
	n := 0
	for _, fc := range g.Calls("strings.Fields", "bytes.Fields") {
		l, ok := innermostLoop(g, fc.Block().Index)
		if !ok {
			continue
		}
		n++
		hdr := l.Header
		first := sb.Blocks[hdr].Instrs[0]
		isLineLen := func(v ssa.Value) bool {
			c, ok := v.(*ssa.Call)
			return ok && isBuiltinCall(c, "len")
		}
		stopEdge := func(pb, sbk int, extra []ssax.Fact) bool {
			facts := append(g.EdgeFacts(pb, sbk), extra...)
			// only the fact made on this very edge counts
			ef, has := g.EdgeFact(pb, sbk)
			if !has {
				return false
			}
			one := []ssax.Fact{ef}
			_ = facts
			// not a comment line
			if hasFact(one, false, func(v ssa.Value) bool {
				if c, ok := v.(*ssa.Call); ok && (ssax.CalleeName(&c.Call) == "bytes.HasPrefix" || ssax.CalleeName(&c.Call) == "strings.HasPrefix") {
					return true
				}
				_, idx, ok := cutCall(v, "CutPrefix")
				return ok && idx == 1
			}) {
				return true
			}
			// empty after the slashes
			if cmpFact(one, token.EQL, isLineLen, isConstIntV(0)) || cmpFact(one, token.LEQ, isLineLen, isConstIntV(0)) || cmpFact(one, token.LSS, isLineLen, isConstIntV(1)) {
				return true
			}
			// does not start with '+'
			if cmpFact(one, token.NEQ, anyVal, isConstIntV('+')) {
				return true
			}
			// the loop's own exit (input exhausted)
			if !l.Blocks[sbk] {
				return true
			}
			return false
		}
		escape := ""
		for _, s0 := range g.Succs[hdr] {
			if !l.Blocks[s0] {
				continue
			}
			if hit, ok := pathAvoiding(g, hdr, s0, func(i ssa.Instruction) bool {
				if _, isRet := i.(*ssa.Return); isRet {
					return true
				}
				return i == first
			}, func(i ssa.Instruction) bool { return i == ssa.Instruction(fc) }, stopEdge); ok {
				escape = "a line can be passed over without being split (path ends at " + p.Pos(hit.Pos()) + ")"
			}
		}
		ctx.Check(escape == "", "B13", "imports.ShouldBuild#plus-lines"+itoa(n), fc.Pos(), "the only ways past a line without splitting it are: not a comment, empty, not starting with '+' %s", escape)
	}
	if n == 0 {
		ctx.Note("B13", "imports.ShouldBuild#plus-lines", sb.Pos(), "ShouldBuild does not split lines into fields inside a loop; clause not decided")
	}
}

// c08Round6: the loop over the anchors ends only when both texts are exhausted.
func c08Round6(ctx *core.Ctx, d *ssa.Function, xs, ys ssa.Value) {
	p := ctx.P
	ctx.Rule("F12", "done means both sides done: the early exit from the loop over the matches is taken only where the end of the match is known to have reached the end of the old lines and the end of the new lines (with 'or', lines left over on one side are never printed)", 1)
	if xs == nil || ys == nil {
		return
	}
	g := graph(p, d)
	n := 0
	// the loop over the matches: the outermost one
	var outer natLoop
	for _, l := range loopsOf(g) {
		if len(l.Blocks) > len(outer.Blocks) {
			outer = l
		}
	}
	for _, l := range []natLoop{outer} {
		if len(l.Blocks) == 0 {
			continue
		}
		for _, ex := range uncountedExits(g, l) {
			if in, ok := innermostLoop(g, ex[0]); ok && in.Header != l.Header {
				continue // an exit of an inner loop that happens to leave the outer one too
			}
			facts := g.EdgeFacts(ex[0], ex[1])
			isLenX := func(v ssa.Value) bool {
				c, ok := v.(*ssa.Call)
				return ok && isBuiltinCall(c, "len") && c.Call.Args[0] == xs
			}
			isLenY := func(v ssa.Value) bool {
				c, ok := v.(*ssa.Call)
				return ok && isBuiltinCall(c, "len") && c.Call.Args[0] == ys
			}
			ex1 := cmpFact(facts, token.GEQ, anyVal, isLenX)
			ey1 := cmpFact(facts, token.GEQ, anyVal, isLenY)
			if !ex1 && !ey1 {
				continue // some other exit (not the end-of-input one)
			}
			n++
			ctx.Check(ex1 && ey1, "F12", "diff.Diff#eof-exit"+itoa(n), d.Blocks[ex[0]].Instrs[len(d.Blocks[ex[0]].Instrs)-1].Pos(), "the loop is left early only with the old side (%v) and the new side (%v) both at their end", ex1, ey1)
		}
	}
	if n == 0 {
		ctx.Note("F12", "diff.Diff#eof-exit", d.Pos(), "no early exit on reaching the end of the texts found; clause not decided")
	}
}

// c18SpaceClass (RI11): the bytes peekByte skips as white space, computed exactly.
// For each of the 256 byte values the branch tests of the skipping loop are decided (they compare
// the current byte with constants, possibly combined through && and || or moved into a helper that
// was merged back); a value belongs to the class when the decided path reaches a readByte call in
// a block that goes straight back to the loop test. Anything that depends on other state ends the
// evaluation of that value as "not skipped".
func c18SpaceClass(ctx *core.Ctx) {
	p := ctx.P
	ctx.Rule("RI11", "white space is exactly blank, tab, newline, carriage return, form feed and semicolon: the set of byte values for which peekByte(true) reads the next byte and tests the loop again without looking at anything else - computed over all 256 values from the comparisons with constants - is { ' ', '\\t', '\\n', '\\r', '\\f', ';' } (a range written one short drops CR, and a CRLF file then has no imports)", 1)
	pk := p.Func("imports", "(*importReader).peekByte")
	if pk == nil {
		ctx.Unknown("RI11", "imports.peekByte", token.NoPos, "peekByte not found")
		return
	}
	g := graph(p, pk)
	// the current byte: a byte-typed phi in a loop header
	var cphi *ssa.Phi
	var loop natLoop
	for _, l := range loopsOf(g) {
		for _, ins := range pk.Blocks[l.Header].Instrs {
			ph, ok := ins.(*ssa.Phi)
			if !ok {
				break
			}
			if ph.Type().String() == "byte" && (cphi == nil || len(l.Blocks) > len(loop.Blocks)) {
				cphi, loop = ph, l
			}
		}
	}
	if cphi == nil {
		ctx.Unknown("RI11", "imports.peekByte#class", pk.Pos(), "no loop carrying the current byte found")
		return
	}
	isC := func(v ssa.Value) bool {
		for {
			if cv, ok := v.(*ssa.Convert); ok {
				v = cv.X
				continue
			}
			break
		}
		return v == ssa.Value(cphi)
	}
	// truth of a condition for byte value bv, entering block blk from pred (for merged flags)
	var truth func(v ssa.Value, bv int64, pred map[*ssa.BasicBlock]*ssa.BasicBlock, depth int) (bool, bool)
	truth = func(v ssa.Value, bv int64, pred map[*ssa.BasicBlock]*ssa.BasicBlock, depth int) (bool, bool) {
		if depth > 12 {
			return false, false
		}
		if k, ok := ssax.ConstBool(v); ok {
			return k, true
		}
		switch x := v.(type) {
		case *ssa.UnOp:
			if x.Op == token.NOT {
				t, ok := truth(x.X, bv, pred, depth+1)
				return !t, ok
			}
		case *ssa.BinOp:
			var a, b int64
			switch {
			case isC(x.X):
				k, ok := ssax.ConstInt(x.Y)
				if !ok {
					return false, false
				}
				a, b = bv, k
			case isC(x.Y):
				k, ok := ssax.ConstInt(x.X)
				if !ok {
					return false, false
				}
				a, b = k, bv
			default:
				return false, false
			}
			switch x.Op {
			case token.EQL:
				return a == b, true
			case token.NEQ:
				return a != b, true
			case token.LSS:
				return a < b, true
			case token.LEQ:
				return a <= b, true
			case token.GTR:
				return a > b, true
			case token.GEQ:
				return a >= b, true
			}
		case *ssa.Phi:
			if pb, ok := pred[x.Block()]; ok {
				for k, q := range x.Block().Preds {
					if q == pb {
						return truth(x.Edges[k], bv, pred, depth+1)
					}
				}
			}
		}
		return false, false
	}
	// evaluation starts at the loop test; the skip-space flag counts as set wherever it is tested
	start := pk.Blocks[loop.Header]
	skips := func(bv int64) bool {
		pred := map[*ssa.BasicBlock]*ssa.BasicBlock{}
		blk := start
		seenCmp := false
		for steps := 0; steps < 64; steps++ {
			for _, ins := range blk.Instrs {
				c, ok := ins.(*ssa.Call)
				if !ok {
					continue
				}
				if _, isB := c.Call.Value.(*ssa.Builtin); isB {
					continue
				}
				if !strings.HasSuffix(ssax.CalleeName(&c.Call), "importReader).readByte") {
					return false
				}
				// a read: is the loop test next, with nothing examined in between?
				nb := blk
				for hops := 0; hops < 4; hops++ {
					if len(nb.Succs) != 1 {
						return false
					}
					nb = nb.Succs[0]
					if nb.Index == loop.Header {
						return true
					}
					for _, j := range nb.Instrs {
						if _, isCall := j.(*ssa.Call); isCall {
							return false
						}
					}
				}
				return false
			}
			last := blk.Instrs[len(blk.Instrs)-1]
			switch x := last.(type) {
			case *ssa.Jump:
				pred[blk.Succs[0]] = blk
				blk = blk.Succs[0]
			case *ssa.If:
				t, ok := truth(x.Cond, bv, pred, 0)
				if ok {
					seenCmp = true
				} else {
					cond, pos := stripNotB(x.Cond, true)
					if prm, isP := cond.(*ssa.Parameter); isP && prm.Type().String() == "bool" {
						t, ok = pos, true // the skip-space flag is set
					} else if !seenCmp {
						// the loop's own test (reader state): the case of interest is that the loop goes on
						in0, in1 := loop.Blocks[blk.Succs[0].Index], loop.Blocks[blk.Succs[1].Index]
						if in0 != in1 {
							t, ok = in0, true
						}
					}
				}
				if !ok {
					return false
				}
				nx := blk.Succs[1]
				if t {
					nx = blk.Succs[0]
				}
				pred[nx] = blk
				blk = nx
			default:
				return false
			}
			if !loop.Blocks[blk.Index] || (blk.Index == loop.Header && steps > 0) {
				return false
			}
		}
		return false
	}
	want := map[int64]bool{' ': true, '\t': true, '\n': true, '\r': true, '\f': true, ';': true}
	var diff []string
	for bv := int64(0); bv < 256; bv++ {
		if got := skips(bv); got != want[bv] && len(diff) < 6 {
			diff = append(diff, strings.TrimSpace(strings.Join([]string{"byte", itoa(int(bv)), "skipped=" + boolStr(got)}, " ")))
		}
	}
	ctx.Check(len(diff) == 0, "RI11", "imports.peekByte#space-class", start.Instrs[0].Pos(), "the bytes skipped as white space are exactly blank, \\t, \\n, \\r, \\f and ';' %v", diff)
}
