package rules

import (
	"go/token"
	"strings"
	"time"

	"golang.org/x/tools/go/ssa"

	"verif/checker/core"
	"verif/checker/ssax"
)

func init() { Registry["C13"] = Spec{Run: runC13, Packages: []string{"cache"}} }

// reachesRemove: functions of package cache from which os.Remove* is reachable.
func removers(p *core.Prog) map[*ssa.Function]bool {
	out := map[*ssa.Function]bool{}
	for _, f := range p.ModFuncs() {
		if f.Pkg != p.Pkg("cache") && (f.Parent() == nil || f.Parent().Pkg != p.Pkg("cache")) {
			continue
		}
		for _, r := range reachableMod(p, []*ssa.Function{f}, nil) {
			if len(graph(p, r).Calls("os.Remove", "os.RemoveAll")) > 0 {
				out[f] = true
			}
		}
	}
	return out
}

func runC13(ctx *core.Ctx) {
	ctx.Trusted = append(ctx.Trusted, "go/types, go/ssa", "time.Time arithmetic, os.Stat/Chtimes and file-system mtimes behave as documented (clock behaviour and mtime granularity are not modelled)")
	p := ctx.P
	ctx.Rule("T1", "constants by value: trimLimit = 120h, trimInterval = 24h, mtimeInterval = 1h", 3)
	ctx.Rule("T2", "due check first: the last-trim record is read before anything that can remove a file; the early 'nothing to do' return is on the edge d < trimInterval and d > -mtimeInterval with d = now - lastTrim, lastTrim parsed from the record; an unreadable or unparsable record falls through to trimming", 3)
	ctx.Rule("T3", "cutoff: the staleness cutoff is now.Add(-(trimLimit+mtimeInterval)) with now the single clock value read at entry, and it is the cutoff handed to the directory scan", 1)
	ctx.Rule("T4", "only stale entries: every os.Remove on the trim path is dominated by a successful os.Stat of the very path removed and by ModTime().Before(cutoff) being true", 1)
	ctx.Rule("T5", "only cache entries: every os.Remove on the trim path is reached only for a directory entry whose name ends in -a or -d, inside one of the 256 two-hex-digit sub-directories of the cache directory", 2)
	ctx.Rule("T6", "record: when trimming completes trim.txt is written through lockedfile.Write with now.Unix() in decimal, after all sub-directories were scanned, and its error is returned", 1)
	ctx.Rule("T8", "completeness of a due trim: the sub-directory counter takes exactly the values 0..255 (a counted loop with constant bounds and no other exit), and the loop over a sub-directory's listing runs from its first name to its length with no other exit, so no stale entry is skipped before the trim is recorded as done", 2)
	ctx.Rule("T7", "use refreshes: every successful index lookup calls used() on the index file; GetFile/GetBytes obtain the data path only through OutputFile, which calls used() on the name it returns; used() updates the mtime unless Stat succeeded and the age is below mtimeInterval", 5)

	// ---- T1
	for _, c := range []struct {
		n string
		d time.Duration
	}{{"trimLimit", 120 * time.Hour}, {"trimInterval", 24 * time.Hour}, {"mtimeInterval", time.Hour}} {
		v := cacheConst(p, c.n)
		ctx.Check(v == int64(c.d), "T1", "cache."+c.n, token.NoPos, "%s = %v (want %v)", c.n, time.Duration(v), c.d)
	}
	trimLimit, trimInterval, mtimeInterval := cacheConst(p, "trimLimit"), cacheConst(p, "trimInterval"), cacheConst(p, "mtimeInterval")

	trim := ctx.Need("T2", "cache", "(*Cache).Trim")
	if trim == nil {
		return
	}
	g := graph(p, trim)
	rem := removers(p)
	// the clock value read at entry
	var now ssa.Value
	g.Instrs(func(i ssa.Instruction) {
		c, ok := i.(*ssa.Call)
		if !ok || now != nil || c.Block().Index != 0 {
			return
		}
		if isFieldLoad("now")(c.Call.Value) {
			now = c
		}
	})
	reads := g.Calls(core.ModPath + "/lockedfile.Read")
	var rcalls []*ssa.Call
	g.Instrs(func(i ssa.Instruction) {
		if c, ok := i.(*ssa.Call); ok {
			if cal := c.Call.StaticCallee(); cal != nil && rem[cal] {
				rcalls = append(rcalls, c)
			}
			if n := ssax.CalleeName(&c.Call); n == "os.Remove" || n == "os.RemoveAll" {
				rcalls = append(rcalls, c)
			}
		}
	})
	if now == nil || len(reads) != 1 || len(rcalls) == 0 {
		ctx.Bad("T2", "cache.Trim#shape", trim.Pos(), "Trim not recognised: clock read at entry=%v, reads of the trim record=%d, calls that can remove files=%d", now != nil, len(reads), len(rcalls))
		return
	}
	read := reads[0]
	okName := false
	if j, ok := read.Call.Args[0].(*ssa.Call); ok && ssax.CalleeName(&j.Call) == "path/filepath.Join" {
		el := variadicElems(j.Call.Args[0])
		okName = len(el) == 2 && isFieldLoad("dir")(el[0]) && isConstStr("trim.txt")(el[1])
	}
	ctx.Check(okName, "T2", "cache.Trim#record-name", read.Pos(), "the last-trim record is <cache dir>/trim.txt")
	for k, rc := range rcalls {
		ctx.Check(g.Dominates(read, rc), "T2", "cache.Trim#check-first"+itoa(k+1), rc.Pos(), "the record is consulted before %s can remove anything", ssax.CalleeName(&rc.Call))
	}
	// the early return
	isD := func(v ssa.Value) bool {
		c, ok := v.(*ssa.Call)
		if !ok || ssax.CalleeName(&c.Call) != "(time.Time).Sub" || c.Call.Args[0] != now {
			return false
		}
		u, ok := c.Call.Args[1].(*ssa.Call)
		if !ok || ssax.CalleeName(&u.Call) != "time.Unix" {
			return false
		}
		z, ok := ssax.ConstInt(u.Call.Args[1])
		if !ok || z != 0 {
			return false
		}
		return ssax.DerivedFrom(u.Call.Args[0], func(x ssa.Value) bool {
			pc, ok := x.(*ssa.Call)
			return ok && ssax.CalleeName(&pc.Call) == "strconv.ParseInt" && ssax.DerivedFrom(pc.Call.Args[0], func(y ssa.Value) bool {
				return y == ssax.Extracted(read, 0)
			}, func(cc *ssa.Call) bool { return strings.HasPrefix(ssax.CalleeName(&cc.Call), "strings.") })
		}, nil)
	}
	early := 0
	for _, r := range g.Returns() {
		if !ssax.IsNil(ssax.ReturnValues(r)[0]) {
			continue
		}
		// is it before any remover call?
		before := true
		for _, rc := range rcalls {
			if g.Dominates(rc, r) {
				before = false
			}
		}
		reach, _ := g.ReachableWithout(ssax.Point{Block: 0}, func(i ssa.Instruction) bool { return i == ssa.Instruction(r) }, func(i ssa.Instruction) bool {
			for _, rc := range rcalls {
				if i == ssa.Instruction(rc) {
					return true
				}
			}
			return false
		})
		if !before || reach == nil {
			continue
		}
		early++
		// the record is parsed as a 64-bit decimal: a narrower size turns every time after 2038 into "corrupt"
		for _, pc := range g.Calls("strconv.ParseInt") {
			b10, ok1 := ssax.ConstInt(pc.Call.Args[1])
			b64, ok2 := ssax.ConstInt(pc.Call.Args[2])
			ctx.Check(ok1 && ok2 && b10 == 10 && b64 == 64, "T2", "cache.Trim#record-width", pc.Pos(), "the trim record is parsed in base 10 into 64 bits (found base %d, %d bits)", b10, b64)
		}
		facts := g.FactsAtInstr(r)
		up := cmpFact(facts, token.LSS, isD, isConstIntV(trimInterval))
		lo := cmpFact(facts, token.GTR, isD, isConstIntV(-mtimeInterval))
		ctx.Check(up && lo, "T2", "cache.Trim#early-return"+itoa(early), r.Pos(), "'recently trimmed' return only when now-lastTrim < trimInterval (%v) and > -mtimeInterval (%v): a record from the future must not suppress trimming forever", up, lo)
	}
	if early == 0 {
		ctx.Bad("T2", "cache.Trim#early-return", trim.Pos(), "no early return before trimming: Trim runs every time")
	}
	// ---- T3
	adds := g.Calls("(time.Time).Add")
	var cutoff ssa.Value
	okCut := false
	for _, a := range adds {
		if a.Call.Args[0] != now {
			continue
		}
		k, ok := ssax.ConstInt(a.Call.Args[1])
		if ok && k == -(trimLimit+mtimeInterval) {
			okCut = true
		}
		cutoff = a
	}
	ctx.Check(okCut, "T3", "cache.Trim#cutoff", posOfVal(cutoff, trim), "cutoff = now.Add(-(trimLimit+mtimeInterval)) = now - %v", time.Duration(trimLimit+mtimeInterval))
	// scanning calls: subdir argument and cutoff argument
	var scan *ssa.Function
	for _, rc := range rcalls {
		cal := rc.Call.StaticCallee()
		if cal == nil {
			ctx.Bad("T5", "cache.Trim#direct-remove", rc.Pos(), "Trim removes files directly")
			continue
		}
		scan = cal
		// args: (c, subdir, cutoff)
		var sub, cut ssa.Value
		for _, a := range rc.Call.Args[1:] {
			if a.Type().String() == "string" {
				sub = a
			} else {
				cut = a
			}
		}
		ctx.Check(cut != nil && cut == cutoff, "T3", "cache.Trim#cutoff-passed", rc.Pos(), "the directory scan receives that cutoff")
		okSub := false
		if j, ok := sub.(*ssa.Call); ok && ssax.CalleeName(&j.Call) == "path/filepath.Join" {
			el := variadicElems(j.Call.Args[0])
			if len(el) == 2 && isFieldLoad("dir")(el[0]) {
				if sp, ok := el[1].(*ssa.Call); ok && ssax.CalleeName(&sp.Call) == "fmt.Sprintf" && isConstStr("%02x")(sp.Call.Args[0]) {
					okSub = true
				}
			}
		}
		ctx.Check(okSub, "T5", "cache.Trim#subdir", rc.Pos(), "only <cache dir>/<two hex digits> sub-directories are scanned (trim.txt, README and fuzz/ at top level are out of reach)")
		// T8: all 256 of them
		if okSub {
			sp := variadicElems(sub.(*ssa.Call).Call.Args[0])[1].(*ssa.Call)
			ops := variadicElems(sp.Call.Args[1])
			if len(ops) == 1 {
				lo, hi, why := bodyRange(g, rc, ssax.Strip(ops[0]))
				ctx.Check(why == "" && lo == 0 && hi == 256, "T8", "cache.Trim#all-subdirs", rc.Pos(), "the sub-directory number takes every value 0..255 before the trim is recorded (found [%d,%d) %s)", lo, hi, why)
			} else {
				ctx.Bad("T8", "cache.Trim#all-subdirs", rc.Pos(), "sub-directory name has %d operands", len(ops))
			}
		}
	}
	// ---- T4/T5 in the scan function
	if scan != nil {
		sg := graph(p, scan)
		ctx.Seen(scan)
		var subdirP, cutP ssa.Value
		for _, par := range scan.Params[1:] {
			if par.Type().String() == "string" {
				subdirP = par
			} else {
				cutP = par
			}
		}
		n := 0
		for _, rm := range sg.Calls("os.Remove", "os.RemoveAll") {
			n++
			path := rm.Call.Args[0]
			facts := sg.FactsAtInstr(rm)
			var stat *ssa.Call
			// os.Stat, not Lstat: the refresh on use (os.Chtimes) follows symbolic links, so the age must be
			// judged on the same file
			for _, s := range sg.Calls("os.Stat") {
				if s.Call.Args[0] == path {
					stat = s
				}
			}
			okStat := stat != nil && ssax.KnownNil(facts, ssax.Extracted(stat, 1), true)
			okOld := false
			if stat != nil {
				info := ssax.Extracted(stat, 0)
				okOld = hasFact(facts, true, func(v ssa.Value) bool {
					c, ok := v.(*ssa.Call)
					if !ok || ssax.CalleeName(&c.Call) != "(time.Time).Before" || c.Call.Args[1] != cutP {
						return false
					}
					mt, ok := c.Call.Args[0].(*ssa.Call)
					return ok && mt.Call.IsInvoke() && mt.Call.Method.Name() == "ModTime" && mt.Call.Value == info
				})
			}
			ctx.Check(okStat && okOld, "T4", shortFn(scan)+"#remove"+itoa(n), rm.Pos(), "removal only after a successful Stat of that path (%v) whose ModTime is Before(cutoff) (%v)", okStat, okOld)
			// T5: path = Join(subdir, name), name from the directory listing, with a suffix test on all paths
			okPath := false
			var nameV ssa.Value
			if j, ok := path.(*ssa.Call); ok && ssax.CalleeName(&j.Call) == "path/filepath.Join" {
				el := variadicElems(j.Call.Args[0])
				if len(el) == 2 && el[0] == subdirP {
					nameV = el[1]
					okPath = ssax.DerivedFrom(nameV, func(v ssa.Value) bool {
						c, ok := v.(*ssa.Call)
						return ok && (ssax.CalleeName(&c.Call) == "(*os.File).Readdirnames" || ssax.CalleeName(&c.Call) == "os.ReadDir")
					}, nil)
				}
			}
			okSuffix := false
			if nameV != nil {
				okSuffix = onAllPaths(sg, rm, nameV, func(f ssax.Fact) bool {
					if !f.Val {
						return false
					}
					return isCallOf([]string{"strings.HasSuffix"}, isVal(nameV), isConstStr("-a"))(f.Cond) || isCallOf([]string{"strings.HasSuffix"}, isVal(nameV), isConstStr("-d"))(f.Cond)
				})
			}
			ctx.Check(okPath && okSuffix, "T5", shortFn(scan)+"#remove"+itoa(n), rm.Pos(), "removed path is <subdir>/<listed name> (%v) and every path to the removal established that the name ends in -a or -d (%v)", okPath, okSuffix)
		}
		if n == 0 {
			ctx.Bad("T4", shortFn(scan)+"#remove", scan.Pos(), "no removal found in the directory scan")
		}
		// the directory is listed completely and closed before anything is removed
		okList := false
		for _, rd := range sg.Calls("(*os.File).Readdirnames", "os.ReadDir") {
			okList = true
			for _, rm := range sg.Calls("os.Remove", "os.RemoveAll") {
				if !sg.Dominates(rd, rm) {
					okList = false
				}
			}
			if ssax.CalleeName(&rd.Call) == "(*os.File).Readdirnames" {
				if k, isK := ssax.ConstInt(rd.Call.Args[1]); !isK || k > 0 {
					okList = false // a positive count lists only part of the directory
				}
			}
		}
		// T8: the removal loop visits every listed name
		for k, rm := range sg.Calls("os.Remove", "os.RemoveAll") {
			l, inLoop := innermostLoop(sg, rm.Block().Index)
			why := ""
			if !inLoop {
				why = "the removal is not in a loop over the listing"
			} else {
				for _, ex := range loopExits(sg, l) {
					ce, ok := exitIsCounted(sg, l, ex[0], ex[1])
					if !ok {
						why = "the loop can be left through b" + itoa(ex[0]) + " before every name was visited"
						break
					}
					ln, isLen := ce.Bound.(*ssa.Call)
					if !isLen || !isBuiltinCall(ln, "len") || !ssax.DerivedFrom(ln.Call.Args[0], func(v ssa.Value) bool {
						c, ok := v.(*ssa.Call)
						return ok && (ssax.CalleeName(&c.Call) == "(*os.File).Readdirnames" || ssax.CalleeName(&c.Call) == "os.ReadDir")
					}, nil) {
						why = "the loop bound is not the length of the directory listing"
						break
					}
					if a, isK := ssax.ConstInt(ce.Init); !isK || a+ce.E != 0 {
						why = "the loop does not start at the first name"
						break
					}
				}
			}
			ctx.Check(why == "", "T8", shortFn(scan)+"#every-name"+itoa(k+1), rm.Pos(), "the scan considers every listed name: its loop runs from the first name to the length of the listing and has no other exit %s", why)
		}
		ctx.Check(okList, "T5", shortFn(scan)+"#list-then-remove", scan.Pos(), "all names of the sub-directory are read (Readdirnames(-1)) before the first removal, so removals cannot disturb the listing and every stale entry is seen")
	}
	// ---- T6 (dependency): the writer replaces the record
	if lw := p.Func("lockedfile", "Write"); lw != nil {
		okT := false
		for _, c := range graph(p, lw).Calls(core.ModPath + "/lockedfile.OpenFile") {
			if fl, ok := ssax.ConstInt(c.Call.Args[1]); ok && fl&osFlag(p, "O_TRUNC") != 0 {
				okT = true
			}
		}
		ctx.Check(okT, "T6", "lockedfile.Write#replaces", lw.Pos(), "lockedfile.Write, through which the trim record is written, opens with O_TRUNC: a damaged or longer old record is replaced, not overlaid (an overlaid record stays unparsable or in the future, and every Trim call then sweeps the whole cache)")
	} else {
		ctx.Unknown("T6", "lockedfile.Write#replaces", token.NoPos, "lockedfile.Write not found")
	}
	// ---- T6
	wr := g.Calls(core.ModPath + "/lockedfile.Write")
	if len(wr) != 1 {
		ctx.Bad("T6", "cache.Trim#record", trim.Pos(), "expected one lockedfile.Write of the record, found %d", len(wr))
	} else {
		w := wr[0]
		nameOK := false
		if j, ok := w.Call.Args[0].(*ssa.Call); ok && ssax.CalleeName(&j.Call) == "path/filepath.Join" {
			el := variadicElems(j.Call.Args[0])
			nameOK = len(el) == 2 && isFieldLoad("dir")(el[0]) && isConstStr("trim.txt")(el[1])
		}
		// content: Fprintf(buf, "%d", now.Unix())
		content := false
		isNowUnix := func(v ssa.Value) bool {
			u, ok := ssax.Strip(v).(*ssa.Call)
			return ok && ssax.CalleeName(&u.Call) == "(time.Time).Unix" && u.Call.Args[0] == now
		}
		buf := ssax.Strip(w.Call.Args[1])
		for _, fp := range g.Calls("fmt.Fprintf") {
			if ssax.Strip(fp.Call.Args[0]) != buf || !isConstStr("%d")(fp.Call.Args[1]) {
				continue
			}
			el := variadicElems(fp.Call.Args[2])
			if len(el) == 1 && isNowUnix(el[0]) {
				content = true
			}
		}
		// ... or a reader made directly from the decimal text of now.Unix()
		if rc, ok := buf.(*ssa.Call); ok {
			switch ssax.CalleeName(&rc.Call) {
			case "strings.NewReader", "bytes.NewBufferString", "bytes.NewReader", "bytes.NewBuffer":
				if x, isDec := decimalText(rc.Call.Args[0]); isDec && isNowUnix(x) {
					content = true
				}
			}
		}
		// after all sub-directories: no remover call reachable after the write
		after, _ := g.ReachableWithout(ssax.PointAfter(w), func(i ssa.Instruction) bool {
			for _, rc := range rcalls {
				if i == ssa.Instruction(rc) {
					return true
				}
			}
			return false
		}, nil)
		errRet := true
		for _, r := range g.Returns() {
			if g.Dominates(w, r) && ssax.IsNil(ssax.ReturnValues(r)[0]) && !ssax.KnownNil(g.FactsAtInstr(r), w, true) {
				errRet = false
			}
		}
		ctx.Check(nameOK && content && after == nil && errRet, "T6", "cache.Trim#record", w.Pos(), "trim.txt written via lockedfile.Write (name ok=%v) with now.Unix() in decimal (%v), after the scan (%v), error returned (%v)", nameOK, content, after == nil, errRet)
	}
	// ---- T9: a re-stored entry is young again (= C05.G11: the index file is rewritten on every successful
	// putIndexEntry, which is what moves its mtime)
	indexNilMeansWritten(ctx, "T9")
	// ---- T7
	used := ctx.Need("T7", "cache", "(*Cache).used")
	get := ctx.Need("T7", "cache", "(*Cache).get")
	outputFile := ctx.Need("T7", "cache", "(*Cache).OutputFile")
	if used != nil && get != nil && outputFile != nil {
		gg := graph(p, get)
		n := 0
		for _, r := range gg.Returns() {
			if !ssax.IsNil(ssax.ReturnValues(r)[1]) {
				continue
			}
			n++
			ok := false
			for _, u := range gg.Calls(ssax.FuncName(used)) {
				if !gg.Dominates(u, r) {
					continue
				}
				if fc, isCall := u.Call.Args[1].(*ssa.Call); isCall && strings.HasSuffix(ssax.CalleeName(&fc.Call), ".fileName") && isConstStr("a")(fc.Call.Args[2]) && ssax.DerivedFrom(fc.Call.Args[1], isVal(get.Params[1]), nil) {
					ok = true
				}
			}
			ctx.Check(ok, "T7", "cache.get#refresh"+itoa(n), r.Pos(), "a successful index lookup refreshes the index file's mtime through used()")
		}
		og := graph(p, outputFile)
		okOF := false
		for _, r := range og.Returns() {
			ret := ssax.ReturnValues(r)[0]
			for _, u := range og.Calls(ssax.FuncName(used)) {
				if og.Dominates(u, r) && u.Call.Args[1] == ret {
					okOF = true
				}
			}
		}
		ctx.Check(okOF, "T7", "cache.OutputFile#refresh", outputFile.Pos(), "OutputFile refreshes the very name it returns")
		// data path only through OutputFile in the lookups
		for _, name := range []string{"(*Cache).GetFile", "(*Cache).GetBytes"} {
			f := ctx.Need("T7", "cache", name)
			if f == nil {
				continue
			}
			fg := graph(p, f)
			k := 0
			for _, c := range fg.Calls("os.Stat", "os.ReadFile", "os.Open", "os.Lstat", "io/ioutil.ReadFile") {
				k++
				via := false
				if oc, ok := c.Call.Args[0].(*ssa.Call); ok && oc.Call.StaticCallee() == outputFile {
					via = true
				}
				ctx.Check(via, "T7", shortFn(f)+"#data-path"+itoa(k), c.Pos(), "the data file is reached only through OutputFile (which refreshes it); a direct name bypasses the refresh and the entry's data ages out while it is in use")
			}
			if k == 0 {
				ctx.Bad("T7", shortFn(f)+"#data-path", f.Pos(), "no access to the data file found")
			}
		}
		// used(): skip only when fresh
		ug := graph(p, used)
		ch := ug.Calls("os.Chtimes")
		if len(ch) != 1 || ch[0].Call.Args[0] != ssa.Value(used.Params[1]) {
			ctx.Bad("T7", "cache.used#chtimes", used.Pos(), "used() does not Chtimes its argument exactly once")
		} else {
			bad := ""
			var stat *ssa.Call
			for _, s := range ug.Calls("os.Stat") {
				stat = s
			}
			chBlock := ch[0].Block().Index
			via := func(b int) bool { return b == chBlock }
			// the age: <the clock, read now> minus <the file's ModTime> - both operands as they come, not
			// rounded, truncated or shifted (now.Truncate(hour) makes a file look up to an hour younger)
			isAge := func(v ssa.Value) bool {
				c, ok := v.(*ssa.Call)
				if !ok || ssax.CalleeName(&c.Call) != "(time.Time).Sub" {
					return false
				}
				nowC, isNow := ssax.Strip(c.Call.Args[0]).(*ssa.Call)
				if !isNow || nowC.Call.StaticCallee() != nil || nowC.Call.IsInvoke() || !isFieldLoad("now")(nowC.Call.Value) {
					return false
				}
				mt, isMT := ssax.Strip(c.Call.Args[1]).(*ssa.Call)
				return isMT && mt.Call.IsInvoke() && mt.Call.Method.Name() == "ModTime"
			}
			for _, r := range ug.Returns() {
				if r.Block().Index == chBlock {
					continue
				}
				// every path to this return runs through the Chtimes block or establishes both facts
				statOK := stat != nil && onAllPathsVia(ug, r, nil, func(f ssax.Fact) bool {
					return ssax.KnownNil([]ssax.Fact{f}, ssax.Extracted(stat, 1), true)
				}, via)
				ageOK := onAllPathsVia(ug, r, nil, func(f ssax.Fact) bool {
					return cmpFact([]ssax.Fact{f}, token.LSS, isAge, isConstIntV(mtimeInterval))
				}, via)
				if !statOK || !ageOK {
					bad = "a return is reachable without Chtimes on a path not guarded by (Stat ok: " + boolStr(statOK) + ", age < mtimeInterval: " + boolStr(ageOK) + ")"
				}
			}
			ctx.Check(bad == "", "T7", "cache.used#skip-only-when-fresh", ch[0].Pos(), "mtime update skipped only when Stat succeeded and the age is below mtimeInterval %s", bad)
		}
	}
	_ = trimInterval
}

func posOfVal(v ssa.Value, f *ssa.Function) token.Pos {
	if v != nil && v.Pos().IsValid() {
		return v.Pos()
	}
	return f.Pos()
}
