package rules

import (
	"go/token"
	"strings"

	"golang.org/x/tools/go/ssa"

	"verif/checker/core"
	"verif/checker/ssax"
)

func init() {
	Registry["C16"] = Spec{Run: runC16, Configs: notPlan9, MayFailToLoad: func(c core.Config, msg string) bool { return c.GOOS == "plan9" }}
}

func runC16(ctx *core.Ctx) {
	mkAbsShape(ctx, "U15")
	c16Round5(ctx)
	ctx.Trusted = append(ctx.Trusted, "go/types, go/ssa", "txtar.Format/Parse preserve untouched entries (a C03 round-trip law, not decided here)")
	p := ctx.P
	ctx.Rule("U1", "update gating: an update is recorded only when the comparison is not negated, the texts differ, UpdateScripts is set, the command is not cmpenv, and the second file is an archive entry; the recorded value is the actual (first) text under the entry's archive name; on that path the line does not fail; nothing else writes scriptUpdates or scriptFiles", 4)
	ctx.Rule("U2", "rewrite scope: the script file is written in exactly one place, only when updates exist, as Format of the archive parsed in setup; the only store into that archive is to Data of an entry whose Name equals the update key; nothing stores to Comment, Name or Files", 3)
	ctx.Rule("U3", "quoting at the update site: the stored body is NeedsQuote-negative or a successfully quoted value (C14.Q4)", 1)
	needsQuoteExact(ctx, "U6", "U7")
	parseFileRaw(ctx, "U9")
	ctx.Rule("U10", "applying updates cannot crash: bounds engine over applyScriptUpdates (it runs deferred, outside any catch frame; a panic there loses every update and the verdict)", 1)
	if au := ctx.Need("U10", "testscript", "(*TestScript).applyScriptUpdates"); au != nil {
		totality(ctx, []*ssa.Function{au}, totalOpts{rule: "U10", stop: func(f *ssa.Function) bool {
			return f.Pkg == nil || f.Pkg.Pkg.Path() != tsPkg || f.Name() != "applyScriptUpdates"
		}, allowPanic: func(pn *ssa.Panic) string {
			if mi, ok := pn.X.(*ssa.MakeInterface); ok {
				if _, isK := ssax.ConstString(mi.X); isK {
					return "constant-message internal-error panic (an update for a name that is not in the archive)"
				}
			}
			return ""
		}})
	}
	markerLineExact(ctx, "U11")
	ctx.Rule("U8", "entry registration: in setup's loop over the archive's files every iteration stores scriptFiles[path] = entry Name, unconditionally, with the very path the entry's data is written to; cmp resolves its second argument through this map, so the update lands in the entry whose data is on disk (for two entries resolving to one path that is the later one)", 1)
	ctx.Rule("U4", "a failure while applying updates is reported through T, never by the Fatalf sentinel outside a catch frame (C01.V11)", 1)

	cmp := ctx.Need("U1", "testscript", "(*TestScript).doCmdCmp")
	apply := ctx.Need("U2", "testscript", "(*TestScript).applyScriptUpdates")
	setup := ctx.Need("U2", "testscript", "(*TestScript).setup")
	if cmp == nil || apply == nil || setup == nil {
		return
	}
	// ---- U1
	{
		g := graph(p, cmp)
		negP, envP := cmp.Params[1], cmp.Params[3]
		n := 0
		g.Instrs(func(i ssa.Instruction) {
			mu, ok := i.(*ssa.MapUpdate)
			if !ok || !isFieldLoad("scriptUpdates")(mu.Map) {
				return
			}
			n++
			facts := g.FactsAtInstr(mu)
			var why []string
			if !hasFact(facts, false, isVal(negP)) {
				why = append(why, "not known non-negated")
			}
			if !hasFact(facts, false, isVal(envP)) {
				why = append(why, "cmpenv not excluded")
			}
			if !hasFact(facts, true, isFieldLoad("UpdateScripts")) {
				why = append(why, "UpdateScripts not required")
			}
			// texts differ: a string equality known false
			differ := false
			var eq *ssa.BinOp
			for _, f := range facts {
				b, ok := f.Cond.(*ssa.BinOp)
				if ok && b.Op == token.EQL && !f.Val && isSeqT(b.X.Type()) {
					if _, c := ssax.ConstString(b.Y); !c {
						// the content comparison (not the name1 == name2 sanity check)
						if ssax.DerivedFrom(b.X, func(v ssa.Value) bool { _, ok := isCallSuffix(v, ".ReadFile"); return ok }, nil) {
							differ = true
							eq = b
						}
					}
				}
			}
			if !differ {
				why = append(why, "texts not known to differ")
			}
			// key is the comma-ok lookup result in scriptFiles, ok true
			keyOK := false
			if e, ok := mu.Key.(*ssa.Extract); ok && e.Index == 0 {
				if l, ok := e.Tuple.(*ssa.Lookup); ok && l.CommaOk && isFieldLoad("scriptFiles")(l.X) {
					okv := ssax.Extracted(l, 1)
					keyOK = okv != nil && hasFact(facts, true, isVal(okv))
					// looked up by the absolute name of the second argument
					if mk, ok := isCallSuffix(l.Index, "TestScript).MkAbs"); !ok || mk == nil {
						keyOK = false
					}
				}
			}
			if !keyOK {
				why = append(why, "key is not the archive name found for the second file")
			}
			// value is the first text (the one compared on the left)
			valOK := eq != nil && (mu.Value == eq.X)
			if valOK {
				// and it is the content of the first argument
				valOK = ssax.DerivedFrom(mu.Value, func(v ssa.Value) bool {
					c, ok := isCallSuffix(v, "TestScript).ReadFile")
					return ok && c != nil
				}, nil)
			}
			if !valOK {
				why = append(why, "recorded value is not the actual text")
			}
			// no Fatalf after recording
			failAfter := false
			g.Walk(ssax.PointAfter(mu), func(i ssa.Instruction, _ []int) ssax.Action {
				if ssax.IsCallTo(i, tsFatalf) {
					failAfter = true
				}
				return ssax.Continue
			}, nil)
			if failAfter {
				why = append(why, "the line can still fail after the update was recorded")
			}
			ctx.Check(len(why) == 0, "U1", "testscript.doCmdCmp#record"+itoa(n), mu.Pos(), "update recorded under all gating conditions %v", why)
		})
		if n == 0 {
			ctx.Bad("U1", "testscript.doCmdCmp#record", cmp.Pos(), "no update is ever recorded")
		}
		for _, fld := range []string{"scriptUpdates", "scriptFiles"} {
			for _, f := range tsFuncs(p) {
				graph(p, f).Instrs(func(i ssa.Instruction) {
					mu, ok := i.(*ssa.MapUpdate)
					if !ok || !isFieldLoad(fld)(mu.Map) {
						return
					}
					allowed := (fld == "scriptUpdates" && f == cmp) || (fld == "scriptFiles" && f == setup)
					ctx.Check(allowed, "U1", shortFn(f)+"#"+fld+"-update", mu.Pos(), "%s updated in %s", fld, shortFn(f))
				})
			}
			for _, w := range fieldWriters(p, tsPkg, "TestScript", fld) {
				if w.Kind != "store" {
					continue
				}
				// at construction: the struct is a fresh allocation of the storing function, and the
				// map is made there too, once per allocation (a map made outside, or outside the loop
				// that allocates, is shared by several scripts: one script's update lands in another's file)
				al, fresh := w.Base.(*ssa.Alloc)
				st, _ := w.Instr.(*ssa.Store)
				okW := fresh && al.Parent() == w.Fn
				okFresh := false
				if okW && st != nil {
					if mm, isMM := st.Val.(*ssa.MakeMap); isMM && mm.Parent() == w.Fn {
						wg := graph(p, w.Fn)
						la, inA := innermostLoop(wg, al.Block().Index)
						lm, inM := innermostLoop(wg, mm.Block().Index)
						okFresh = inA == inM && (!inA || la.Header == lm.Header)
					}
				}
				ctx.Check(okW && okFresh, "U1", shortFn(w.Fn)+"#"+fld+"-assign", w.Instr.Pos(), "%s map assigned only at construction (%v), to a map made for that one TestScript (%v)", fld, okW, okFresh)
			}
		}
	}
	// ---- U8: every archive entry is registered under the path it was written to, later entries winning
	{
		sg := graph(p, setup)
		n := 0
		sg.Instrs(func(i ssa.Instruction) {
			mu, ok := i.(*ssa.MapUpdate)
			if !ok || !isFieldLoad("scriptFiles")(mu.Map) {
				return
			}
			n++
			why := ""
			l, inLoop := innermostLoop(sg, mu.Block().Index)
			if !inLoop {
				why = "registration is not in the loop over the archive's files"
			} else {
				for _, latch := range sg.Preds[l.Header] {
					if l.Blocks[latch] && !sg.DomBlock(mu.Block().Index, latch) {
						why = "an entry can be unpacked without being registered (the file on disk is the later entry's, so the registration must be replaced, not kept)"
					}
				}
			}
			// the key is the path the entry is written to
			written := false
			for _, c := range sg.Instrs2Calls(func(c *ssa.Call) bool {
				cal := c.Call.StaticCallee()
				return cal != nil && core.InModule(cal) && cal.Name() == "writeFile" || ssax.CalleeName(&c.Call) == "os.WriteFile"
			}) {
				if len(c.Call.Args) > 0 && c.Call.Args[0] == mu.Key {
					written = true
				}
			}
			if why == "" && !written {
				why = "the registered key is not the path the entry is written to"
			}
			fa := false
			if ld, ok := mu.Value.(*ssa.UnOp); ok {
				if f, ok := ld.X.(*ssa.FieldAddr); ok && ssax.FieldOf(f) != nil && ssax.FieldOf(f).Name() == "Name" {
					fa = true
				}
			}
			if f, ok := mu.Value.(*ssa.Field); ok && ssax.FieldOf(f) != nil && ssax.FieldOf(f).Name() == "Name" {
				fa = true
			}
			if why == "" && !fa {
				why = "the registered value is not the entry's Name"
			}
			ctx.Check(why == "", "U8", "testscript.setup#register"+itoa(n), mu.Pos(), "each unpacked entry is registered, unconditionally, as work-dir path -> entry Name %s", why)
		})
		if n == 0 {
			ctx.Bad("U8", "testscript.setup#register", setup.Pos(), "archive entries are never registered")
		}
	}
	// ---- U2
	{
		g := graph(p, apply)
		var writes []*ssa.Call
		for _, f := range tsFuncs(p) {
			for _, c := range graph(p, f).Calls("os.WriteFile", "os.Create", "os.OpenFile") {
				if isFieldLoad("file")(c.Call.Args[0]) {
					writes = append(writes, c)
				}
			}
		}
		okW := len(writes) == 1 && writes[0].Parent() == apply
		if okW {
			w := writes[0]
			fc, ok := isCallSuffix(w.Call.Args[1], "txtar.Format")
			okW = ok && isFieldLoad("archive")(fc.Call.Args[0])
			// only when updates exist
			okW = okW && cmpFact(g.FactsAtInstr(w), token.NEQ, func(v ssa.Value) bool {
				c, ok := v.(*ssa.Call)
				if !ok {
					return false
				}
				b, ok := c.Call.Value.(*ssa.Builtin)
				return ok && b.Name() == "len" && isFieldLoad("scriptUpdates")(c.Call.Args[0])
			}, isConstIntV(0))
		}
		ctx.Check(okW, "U2", "testscript.applyScriptUpdates#write", apply.Pos(), "the script file is written once, as Format(ts.archive), only when scriptUpdates is non-empty (writes of ts.file found: %d)", len(writes))
		// archive provenance
		aw := fieldWriters(p, tsPkg, "TestScript", "archive")
		okA := len(aw) == 1 && aw[0].Fn == setup
		if okA {
			st := aw[0].Instr.(*ssa.Store)
			okA = ssax.DerivedFrom(st.Val, func(v ssa.Value) bool {
				c, ok := isCallSuffix(v, "txtar.ParseFile")
				return ok && isFieldLoad("file")(c.Call.Args[0])
			}, nil)
		}
		ctx.Check(okA, "U2", "testscript.setup#archive", setup.Pos(), "ts.archive is the parse of ts.file, assigned once in setup")
		// stores into the archive
		nData := 0
		for _, f := range tsFuncs(p) {
			fg := graph(p, f)
			fg.Instrs(func(i ssa.Instruction) {
				st, ok := i.(*ssa.Store)
				if !ok {
					return
				}
				fa, ok := st.Addr.(*ssa.FieldAddr)
				if !ok {
					return
				}
				isFile := isNamed(fa.X.Type(), txtarFile, "File")
				isArch := isNamed(fa.X.Type(), txtarFile, "Archive")
				if !isFile && !isArch {
					return
				}
				// local composite literals (a fresh File or Archive value) are not the script's archive
				if _, local := fa.X.(*ssa.Alloc); local {
					return
				}
				name := ssax.FieldOf(fa).Name()
				if isFile && name == "Data" && f == apply {
					nData++
					// same entry whose Name equals the update key
					okName := cmpFact(fg.FactsAtInstr(st), token.EQL, func(v ssa.Value) bool {
						u, ok := v.(*ssa.UnOp)
						if !ok {
							return false
						}
						nfa, ok := u.X.(*ssa.FieldAddr)
						return ok && nfa.X == fa.X && ssax.FieldOf(nfa).Name() == "Name"
					}, anyVal)
					ctx.Check(okName, "U2", "testscript.applyScriptUpdates#entry-by-name", st.Pos(), "Data is replaced only for the entry whose Name equals the update's key")
					return
				}
				ctx.Bad("U2", shortFn(f)+"#archive-store-"+name, st.Pos(), "store to %s.%s of the script archive: only entry data may change", map[bool]string{true: "File", false: "Archive"}[isFile], name)
			})
		}
		if nData == 0 {
			ctx.Bad("U2", "testscript.applyScriptUpdates#entry-by-name", apply.Pos(), "no entry data is ever updated")
		}
	}
	// ---- U5: updates are applied however the script ends
	ctx.Rule("U5", "recorded updates are written back on every normal end of the run (end of script or stop): run registers the update step by defer before the first line runs, or calls it on every path to its return", 1)
	if run := p.Func("testscript", "(*TestScript).run"); run != nil {
		rg := graph(p, run)
		var firstLine *ssa.Call
		for _, c := range rg.Calls("(*" + tsPkg + ".TestScript).runLine") {
			firstLine = c
		}
		ok := false
		rg.Instrs(func(i ssa.Instruction) {
			if d, isD := i.(*ssa.Defer); isD && d.Call.StaticCallee() == apply && firstLine != nil && rg.Dominates(d, firstLine) {
				ok = true
			}
		})
		if !ok {
			exits := rg.MustPass(ssax.Point{Block: 0}, func(i ssa.Instruction) bool {
				c, isC := i.(*ssa.Call)
				return isC && c.Call.StaticCallee() == apply
			}, false)
			ok = len(exits) == 0 && len(rg.Calls(ssax.FuncName(apply))) > 0
		}
		ctx.Check(ok, "U5", "testscript.run#apply-on-every-end", run.Pos(), "the update step runs however the script ends (a 'stop' after the mismatching cmp must not lose the update)")
	}
	// ---- U3 / U4
	quoteProtocol(ctx, "U3", []string{"testscript"})
	{
		// U4: V11 restricted to the deferred call of applyScriptUpdates
		raises, where := mayRaise(p, apply, map[ssa.Value]ssax.Abs{}, 0, map[*ssa.Function]bool{})
		ctx.Check(!raises, "U4", "testscript.applyScriptUpdates#no-sentinel", apply.Pos(), "applying updates (deferred from run, outside any catch frame) cannot raise the Fatalf sentinel %s", where)
		_ = strings.TrimSpace
	}
}
