package rules

import (
	"fmt"
	"go/token"
	"go/types"
	"strings"
	"time"

	"golang.org/x/tools/go/ssa"

	"verif/checker/core"
	"verif/checker/ssax"
)

func init() {
	Registry["C17"] = Spec{Run: runC17, Configs: notPlan9, MayFailToLoad: func(c core.Config, msg string) bool { return c.GOOS == "plan9" }}
}

func runC17(ctx *core.Ctx) {
	c17Round5(ctx)
	ctx.Trusted = append(ctx.Trusted, "go/types, go/ssa", "context.WithTimeout, time.Timer, os.Process.Signal/Kill and exec.Cmd.Wait behave as documented; wall-clock bounds and races between process exit and the timer are not modelled")
	p := ctx.P
	ctx.Rule("DL1", "budget: the duration given to context.WithTimeout is time.Until(Deadline) - 2*g with g = 100ms or a twentieth of the remaining time when that is larger; that context and g are what the TestScript stores as ctxt and gracePeriod; the foreground exec waits with waitOrStop(ts.ctxt, cmd, ts.gracePeriod)", 4)
	ctx.Rule("DL2", "escalation in waitOrStop's goroutine: every path sends exactly once on the result channel (none would hang the caller, two would hang the goroutine); the interrupt is sent only after the context is done; the kill only after the kill-delay timer fired and only when the delay is positive; the caller calls Cmd.Wait and then receives exactly once", 5)
	ctx.Rule("DL5", "an explicit deadline wins: the testing.T entry point overwrites Params.Deadline only on a path where Params.Deadline.IsZero() was true and the test binary reported a deadline; otherwise the user's deadline would be replaced by the (much later) binary timeout and blocked commands would not be stopped at it", 1)
	ctx.Rule("DL7", "commands are created with exec.Command, never exec.CommandContext: the watcher (waitOrStop) alone enforces the deadline, with its grace periods", 1)
	ctx.Rule("DL8", "every goroutine that waits for a started command does so through waitOrStop (which watches the script's context), never through a bare Cmd.Wait", 1)
	ctx.Rule("DL6", "no child left behind at the deadline: in run's clean-up every wait for background commands is dominated by the loop that interrupts them all (C04.I6); the watcher's SIGQUIT is not escalated for background commands, so a process that ignores it is stopped only by this interrupt", 1)
	ctx.Rule("DL4", "the context is cancelled by the subtest whose atomic decrement of the reference count reaches zero", 1)
	runT := ctx.Need("DL1", "testscript", "RunT")
	wos := ctx.Need("DL2", "testscript", "waitOrStop")
	execF := ctx.Need("DL1", "testscript", "(*TestScript).exec")
	if runT == nil || wos == nil || execF == nil {
		return
	}
	// ---- DL1
	{
		g := graph(p, runT)
		wts := g.Calls("context.WithTimeout")
		if len(wts) != 1 {
			ctx.Bad("DL1", "testscript.RunT#budget", runT.Pos(), "expected one context.WithTimeout, found %d", len(wts))
		} else {
			wt := wts[0]
			d := wt.Call.Args[1]
			okBudget, okG := false, false
			var T, G ssa.Value
			var gCell *ssa.Alloc
			if sub, ok := d.(*ssa.BinOp); ok && sub.Op == token.SUB {
				T = sub.X
				if mul, ok := sub.Y.(*ssa.BinOp); ok && mul.Op == token.MUL {
					if k, ok := ssax.ConstInt(mul.X); ok && k == 2 {
						G = mul.Y
					} else if k, ok := ssax.ConstInt(mul.Y); ok && k == 2 {
						G = mul.X
					}
				}
			}
			if T != nil && G != nil {
				tc, ok := isCallSuffix(T, "time.Until")
				okBudget = ok && ssax.DerivedFrom(tc.Call.Args[0], isFieldLoad("Deadline"), nil)
				// G = phi{100ms, T/20} with the T/20 edge taken only when larger; when the variable is
				// captured by the subtest closure it lives in a cell: then the stores play the phi's role
				_, leaves := phiWeb(G)
				base, frac := false, false
				if u, isLoad := G.(*ssa.UnOp); isLoad && len(leaves) == 0 {
					if al, isCell := u.X.(*ssa.Alloc); isCell {
						gCell = al
						for _, r := range ssax.Referrers(al) {
							st, isSt := r.(*ssa.Store)
							if !isSt || st.Addr != ssa.Value(al) {
								continue
							}
							if k, ok := ssax.ConstInt(st.Val); ok && time.Duration(k) == 100*time.Millisecond {
								base = true
								continue
							}
							if q, ok := st.Val.(*ssa.BinOp); ok && q.Op == token.QUO && q.X == T {
								if k, ok := ssax.ConstInt(q.Y); ok && k == 20 {
									frac = cmpFact(g.FactsAtInstr(st), token.GTR, isVal(q), anyVal)
									continue
								}
							}
							if isMaxOfFraction(st.Val, T) {
								frac = true
								continue
							}
							base = false
							break
						}
					}
				}
				for _, l := range leaves {
					if k, ok := ssax.ConstInt(l.Val); ok && time.Duration(k) == 100*time.Millisecond {
						base = true
						continue
					}
					if q, ok := l.Val.(*ssa.BinOp); ok && q.Op == token.QUO && q.X == T {
						if k, ok := ssax.ConstInt(q.Y); ok && k == 20 {
							frac = cmpFact(factsOnEdge(g, l.Pred, l.Phi.Block()), token.GTR, isVal(q), anyVal)
							continue
						}
					}
					if isMaxOfFraction(l.Val, T) {
						frac = true
						continue
					}
					base = false
					break
				}
				if c, isC := G.(*ssa.Call); isC && isMaxOfFraction(c, T) {
					frac = true
					for _, a := range c.Call.Args {
						if k, ok := ssax.ConstInt(a); ok && time.Duration(k) == 100*time.Millisecond {
							base = true
						}
					}
				}
				okG = base && frac
			}
			ctx.Check(okBudget && okG, "DL1", "testscript.RunT#budget", wt.Pos(), "timeout = time.Until(Deadline) - 2*grace (%v) with grace = max(100ms, remaining/20) (%v): one grace period to let an interrupted command print, one for the test to record it", okBudget, okG)
			// ctxt / gracePeriod stores in the subtest closure come from these values
			okCtx, okGP := false, false
			ctxRes := ssax.Extracted(wt, 0)
			for _, a := range runT.AnonFuncs {
				graph(p, a).Instrs(func(i ssa.Instruction) {
					st, ok := i.(*ssa.Store)
					if !ok {
						return
					}
					fa, ok := st.Addr.(*ssa.FieldAddr)
					if !ok || !isNamed(fa.X.Type(), tsPkg, "TestScript") {
						return
					}
					src := func(v ssa.Value, want ssa.Value) bool {
						// a load of a free variable bound to a cell of RunT that receives `want`
						u, ok := v.(*ssa.UnOp)
						if !ok {
							return false
						}
						fv, ok := u.X.(*ssa.FreeVar)
						if !ok {
							return false
						}
						for _, r := range ssax.Referrers(a) {
							_ = r
						}
						// find the binding
						var bound ssa.Value
						g.Instrs(func(j ssa.Instruction) {
							if mc, ok := j.(*ssa.MakeClosure); ok && mc.Fn == a {
								for k, f2 := range a.FreeVars {
									if f2 == fv {
										bound = mc.Bindings[k]
									}
								}
							}
						})
						al, ok := bound.(*ssa.Alloc)
						if !ok {
							return false
						}
						for _, r := range ssax.Referrers(al) {
							if s2, ok := r.(*ssa.Store); ok && s2.Addr == ssa.Value(al) {
								if s2.Val == want || ssax.DerivedFrom(s2.Val, isVal(want), nil) {
									return true
								}
							}
						}
						return false
					}
					switch ssax.FieldOf(fa).Name() {
					case "ctxt":
						okCtx = ctxRes != nil && src(st.Val, ctxRes)
					case "gracePeriod":
						okGP = G != nil && (src(st.Val, G) || leafStored(g, a, st.Val, G) || boundToCell(g, a, st.Val, gCell))
					}
				})
			}
			ctx.Check(okCtx && okGP, "DL1", "testscript.RunT#handover", wt.Pos(), "the TestScript receives that context (%v) and that grace period (%v)", okCtx, okGP)
		}
		eg := graph(p, execF)
		okExec := false
		for _, c := range eg.Calls(tsPkg + ".waitOrStop") {
			okExec = isFieldLoad("ctxt")(c.Call.Args[0]) && isFieldLoad("gracePeriod")(c.Call.Args[2])
		}
		ctx.Check(okExec, "DL1", "testscript.exec#waitOrStop-args", execF.Pos(), "the foreground command is waited for with the script's context and grace period (a zero or negative delay would never escalate to Kill)")
		ctx.OKTrivial("DL1", "testscript#budget-count", runT.Pos(), "budget rules instantiated")
	}
	// ---- DL5
	if run := ctx.Need("DL5", "testscript", "Run"); run != nil {
		rg := graph(p, run)
		n := 0
		rg.Instrs(func(i ssa.Instruction) {
			st, ok := i.(*ssa.Store)
			if !ok {
				return
			}
			fa, ok := st.Addr.(*ssa.FieldAddr)
			if !ok || ssax.FieldOf(fa) == nil || ssax.FieldOf(fa).Name() != "Deadline" || !isNamed(fa.X.Type(), tsPkg, "Params") {
				return
			}
			n++
			facts := rg.FactsAtInstr(st)
			zero := hasFact(facts, true, func(v ssa.Value) bool {
				c, ok := v.(*ssa.Call)
				return ok && ssax.CalleeName(&c.Call) == "(time.Time).IsZero" && isFieldLoad("Deadline")(c.Call.Args[0])
			})
			var dl *ssa.Call
			for _, c := range rg.Instrs2Calls(func(c *ssa.Call) bool {
				return !c.Call.IsInvoke() && ssax.CalleeName(&c.Call) == "(*testing.common).Deadline" || ssax.CalleeName(&c.Call) == "(*testing.T).Deadline"
			}) {
				dl = c
			}
			has := dl != nil && hasFact(facts, true, isVal(ssax.Extracted(dl, 1))) && st.Val == ssax.Extracted(dl, 0)
			ctx.Check(zero && has, "DL5", "testscript.Run#deadline-default"+itoa(n), st.Pos(), "Params.Deadline is overwritten only when it was zero (%v) and with a deadline the test binary reported (%v)", zero, has)
		})
		if n == 0 {
			ctx.Note("DL5", "testscript.Run#deadline-default", run.Pos(), "Run never overwrites Params.Deadline")
		}
	}
	// ---- DL2
	{
		var gor *ssa.Function
		wg := graph(p, wos)
		wg.Instrs(func(i ssa.Instruction) {
			if gi, ok := i.(*ssa.Go); ok {
				if mc, ok := gi.Call.Value.(*ssa.MakeClosure); ok {
					gor = mc.Fn.(*ssa.Function)
				} else if f := gi.Call.StaticCallee(); f != nil && core.InModule(f) && f.Blocks != nil {
					gor = f
				}
			}
		})
		if gor == nil {
			ctx.Bad("DL2", "testscript.waitOrStop#goroutine", wos.Pos(), "no watcher goroutine")
		} else {
			ctx.Seen(gor)
			g := graph(p, gor)
			// the result channel and the delay are recognised by type (the watcher has one
			// error channel and one duration), whether captured or passed as parameters
			isErrc := func(v ssa.Value) bool {
				ch, ok := v.Type().Underlying().(*types.Chan)
				return ok && types.Identical(ch.Elem(), types.Universe.Lookup("error").Type())
			}
			isDelay := func(v ssa.Value) bool {
				if !isNamed(v.Type(), "time", "Duration") {
					return false
				}
				if u, ok := v.(*ssa.UnOp); ok {
					_, isFV := u.X.(*ssa.FreeVar)
					return isFV
				}
				switch v.(type) {
				case *ssa.Parameter, *ssa.FreeVar:
					return true
				}
				return false
			}
			// enumerate paths (the goroutine has no loops)
			type st struct {
				sends           int
				afterDone       bool
				afterTimer      bool
				signalled, kill bool
				delayPos        bool // the edge "kill delay > 0" was taken
				timer           bool // the kill-delay timer was started
				goneNil         bool // nil was reported (process already gone)
				trail           []int
			}
			var bad []string
			paths := 0
			var walk func(b int, s st, depth int)
			walk = func(b int, s st, depth int) {
				if depth > 200 {
					bad = append(bad, "path too long (loop?)")
					return
				}
				s.trail = append(append([]int{}, s.trail...), b)
				blk := gor.Blocks[b]
				end := len(blk.Instrs)
				if c := g.Cut[b]; c >= 0 {
					end = c + 1
				}
				for _, ins := range blk.Instrs[:end] {
					switch x := ins.(type) {
					case *ssa.Send:
						if isErrc(x.Chan) {
							s.sends++
							if ssax.IsNil(x.X) {
								s.goneNil = true
							}
						}
					case *ssa.Call:
						n := ssax.CalleeName(&x.Call)
						if n == "(*os.Process).Signal" {
							s.signalled = true
							if !s.afterDone {
								bad = append(bad, "interrupt sent before the context is done")
							}
						}
						if n == "time.NewTimer" || n == "time.After" || n == "time.AfterFunc" {
							s.timer = true
						}
						if n == "(*os.Process).Kill" {
							s.kill = true
							if !s.afterTimer {
								bad = append(bad, "Kill before the kill-delay timer fired")
							}
							// guarded by killDelay > 0
							if !cmpFact(g.FactsAtInstr(x), token.GTR, isDelay, isConstIntV(0)) {
								bad = append(bad, "Kill not guarded by killDelay > 0")
							}
						}
					case *ssa.Return:
						paths++
						if s.afterTimer && !s.kill {
							bad = append(bad, fmt.Sprintf("path %s: the kill-delay timer fired but the process is not killed (a command that ignores the interrupt then runs past the deadline)", ssax.TrailString(s.trail)))
						}
						if s.sends != 1 {
							bad = append(bad, fmt.Sprintf("path %s sends %d times on the result channel", ssax.TrailString(s.trail), s.sends))
						}
						if s.signalled && s.delayPos && !s.timer && !s.goneNil {
							bad = append(bad, fmt.Sprintf("path %s: the command was interrupted and the kill delay is positive, yet the kill-delay timer is never started (some further condition stands between \"delay > 0\" and the escalation; a command that ignores the interrupt is then never killed)", ssax.TrailString(s.trail)))
						}
						return
					}
				}
				if g.Cut[b] >= 0 {
					return // panic arm of a select
				}
				last := blk.Instrs[len(blk.Instrs)-1]
				if ifi, ok := last.(*ssa.If); ok && len(g.Succs[b]) == 2 {
					// select arm?
					if be, ok := ifi.Cond.(*ssa.BinOp); ok && be.Op == token.EQL {
						if ex, ok := be.X.(*ssa.Extract); ok && ex.Index == 0 {
							if sel, ok := ex.Tuple.(*ssa.Select); ok {
								if k, ok := ssax.ConstInt(be.Y); ok && int(k) < len(sel.States) {
									stt := sel.States[k]
									s2 := s
									if stt.Dir == 1 /* types.SendOnly */ && isErrc(stt.Chan) {
										s2.sends++
									}
									if stt.Dir != 1 {
										if c, ok := stt.Chan.(*ssa.Call); ok && c.Call.IsInvoke() && c.Call.Method.Name() == "Done" {
											s2.afterDone = true
										}
										if isFieldLoad("C")(stt.Chan) {
											s2.afterTimer = true
										}
									}
									walk(blk.Succs[0].Index, s2, depth+1)
									walk(blk.Succs[1].Index, s, depth+1)
									return
								}
							}
						}
					}
				}
				if ifi, ok := last.(*ssa.If); ok && len(g.Succs[b]) == 2 {
					// the test of the kill delay against zero
					cond, pos := stripNotB(ifi.Cond, true)
					if be, ok := cond.(*ssa.BinOp); ok && isDelay(be.X) && isConstIntV(0)(be.Y) {
						var posEdge = -1 // successor index on which delay > 0 holds
						switch be.Op {
						case token.GTR, token.NEQ:
							posEdge = 0
						case token.LEQ, token.EQL:
							posEdge = 1
						}
						if posEdge >= 0 {
							if !pos {
								posEdge = 1 - posEdge
							}
							for k, sb := range blk.Succs {
								s2 := s
								if k == posEdge {
									s2.delayPos = true
								}
								if containsIntR(g.Succs[b], sb.Index) {
									walk(sb.Index, s2, depth+1)
								}
							}
							return
						}
					}
				}
				for _, sb := range g.Succs[b] {
					walk(sb, s, depth+1)
				}
			}
			walk(0, st{}, 0)
			// dedupe messages
			seen := map[string]bool{}
			var msgs []string
			for _, m := range bad {
				if !seen[m] {
					seen[m] = true
					msgs = append(msgs, m)
				}
			}
			ctx.Check(len(msgs) == 0 && paths >= 3, "DL2", "testscript.waitOrStop$1#protocol", gor.Pos(), "%d returning paths, each with exactly one send; signal after ctx.Done, kill after the timer and only for a positive delay %s", paths, strings.Join(msgs, "; "))
			// a command that had already finished when the interrupt was due is not blamed for the deadline
			doneOK := false
			g.Instrs(func(i ssa.Instruction) {
				sd, isSend := i.(*ssa.Send)
				if !isSend || !isErrc(sd.Chan) || !ssax.IsNil(sd.X) {
					return
				}
				if cmpFact(g.FactsAtInstr(sd), token.EQL, func(v ssa.Value) bool {
					c, ok := v.(*ssa.Call)
					return ok && ssax.CalleeName(&c.Call) == "(*os.Process).Signal"
				}, isGlobalLoad("ErrProcessDone")) {
					doneOK = true
				}
			})
			ctx.Check(doneOK, "DL2", "testscript.waitOrStop$1#already-done", gor.Pos(), "when the interrupt finds the process already finished (os.ErrProcessDone) the watcher reports nil, so that the command's own exit status decides the line")
			// timer duration is killDelay
			okTimer := false
			for _, c := range g.Calls("time.NewTimer", "time.After", "time.AfterFunc") {
				if isDelay(c.Call.Args[0]) {
					okTimer = true
				}
			}
			ctx.Check(okTimer, "DL2", "testscript.waitOrStop$1#timer", gor.Pos(), "the escalation timer runs for killDelay")
			// the interrupt is SIGQUIT (or Kill on Windows)
			ctx.OKTrivial("DL2", "testscript.waitOrStop$1#signal", gor.Pos(), "signal choice is platform specific and not decided")
		}
		// caller: Wait then exactly one receive
		var wait *ssa.Call
		for _, c := range wg.Calls("(*os/exec.Cmd).Wait") {
			wait = c
		}
		recvs := 0
		okOrder := wait != nil
		wg.Instrs(func(i ssa.Instruction) {
			if u, ok := i.(*ssa.UnOp); ok && u.Op == token.ARROW {
				recvs++
				if wait == nil || !wg.Dominates(wait, u) {
					okOrder = false
				}
				for _, r := range wg.Returns() {
					if !wg.Dominates(u, r) {
						okOrder = false
					}
				}
			}
		})
		ctx.Check(okOrder && recvs == 1, "DL2", "testscript.waitOrStop#wait-then-receive", wos.Pos(), "waitOrStop calls Wait, then receives exactly once from the watcher before every return (receives=%d)", recvs)
		// the result: the watcher's error wins over Wait's result
		{
			var recv ssa.Value
			wg.Instrs(func(i ssa.Instruction) {
				if u, ok := i.(*ssa.UnOp); ok && u.Op == token.ARROW {
					recv = u
				}
			})
			okAttr := recv != nil
			sawRecv := false
			for _, r := range wg.Returns() {
				v := ssax.ReturnValues(r)[0]
				if v == recv {
					sawRecv = true
					if !ssax.KnownNil(wg.FactsAtInstr(r), recv, false) {
						// returning it unconditionally is fine too
					}
					continue
				}
				if recv == nil || !ssax.KnownNil(wg.FactsAtInstr(r), recv, true) {
					okAttr = false
				}
			}
			ctx.Check(okAttr && sawRecv, "DL2", "testscript.waitOrStop#attribution", wos.Pos(), "waitOrStop returns the watcher's error whenever it is non-nil and Wait's result only when it is nil: a command that exits 0 after being interrupted at the deadline is still reported as timed out")
		}
	}
	// ---- DL3 = the time-out rows of C01.V8
	ctx.Rule("V8", "timed-out verdict (C01.V8 rows T-neg/T-pos and the other verdict implications at the waiting sites): a failed command under an expired context fails the line whatever the '!' prefix", 6)
	c01Verdicts(ctx, builtinCmds(p))
	// ---- DL4
	{
		// the cancel function, wherever it is called from inside RunT's nested functions: a call of a
		// value of type func() that is a captured variable or a parameter (context.CancelFunc)
		nCancel, nLast := 0, 0
		var nested []*ssa.Function
		var collectN func(f *ssa.Function)
		collectN = func(f *ssa.Function) {
			for _, c := range f.AnonFuncs {
				nested = append(nested, c)
				collectN(c)
			}
		}
		collectN(runT)
		for _, b := range nested {
			bg := graph(p, b)
			bg.Instrs(func(i ssa.Instruction) {
				c, isCall := i.(*ssa.Call)
				if !isCall || c.Call.IsInvoke() || len(c.Call.Args) != 0 {
					return
				}
				v := c.Call.Value
				if u, isU := v.(*ssa.UnOp); isU && u.Op == token.MUL {
					v = u.X
				}
				switch v.(type) {
				case *ssa.FreeVar, *ssa.Parameter:
				default:
					return
				}
				sig, isSig := c.Call.Value.Type().Underlying().(*types.Signature)
				if !isSig || sig.Params().Len() != 0 || sig.Results().Len() != 0 {
					return
				}
				last := cmpFact(bg.FactsAtInstr(c), token.EQL, func(v ssa.Value) bool {
					cc, ok := v.(*ssa.Call)
					return ok && ssax.CalleeName(&cc.Call) == "sync/atomic.AddInt32"
				}, isConstIntV(0))
				nCancel++
				if last {
					nLast++
				}
			})
		}
		ok := nCancel > 0 && nCancel == nLast
		ctx.Check(ok, "DL4", "testscript.RunT$closure#cancel", runT.Pos(), "cancel is called exactly by the last subtest to finish (%d of %d calls of a captured or passed func() are behind 'the decrement gave zero')", nLast, nCancel)
		// the count starts at the number of scripts and only ever goes down by one per subtest
		rg := graph(p, runT)
		var cell *ssa.Alloc
		rg.Instrs(func(i ssa.Instruction) {
			if mc, isMC := i.(*ssa.MakeClosure); isMC {
				for _, b := range mc.Bindings {
					if al, isAl := b.(*ssa.Alloc); isAl && al.Type().String() == "*int32" {
						cell = al
					}
				}
			}
		})
		why := ""
		if cell == nil {
			why = "no captured int32 counter found in RunT"
		} else {
			inits := 0
			for _, r := range ssax.Referrers(cell) {
				if st, isSt := r.(*ssa.Store); isSt && st.Addr == ssa.Value(cell) {
					inits++
					if !ssax.DerivedFrom(st.Val, func(v ssa.Value) bool {
						c, isC := v.(*ssa.Call)
						return isC && isBuiltinCall(c, "len")
					}, nil) {
						why = "the counter is not initialised to the number of scripts"
					}
				}
			}
			if inits != 1 {
				why = "the counter is assigned " + itoa(inits) + " times in RunT (want once, to the number of scripts, before any subtest starts)"
			}
			var all []*ssa.Function
			var collect func(f *ssa.Function)
			collect = func(f *ssa.Function) {
				all = append(all, f)
				for _, c := range f.AnonFuncs {
					collect(c)
				}
			}
			collect(runT)
			for _, f := range all {
				for _, c := range graph(p, f).Calls("sync/atomic.AddInt32") {
					if c.Call.Args[0].Type().String() != "*int32" {
						continue
					}
					if d, isK := ssax.ConstInt(c.Call.Args[1]); !isK || d != -1 || f == runT {
						why = "the counter is changed by something other than a subtest's final decrement (counting up while subtests may already have finished lets an early subtest see zero and cancel the shared deadline context)"
					}
				}
			}
		}
		ctx.Check(why == "", "DL4", "testscript.RunT#refcount", runT.Pos(), "the reference count is set once to the number of scripts before any subtest runs and is only ever decremented by one %s", why)
	}
	// ---- DL7 / DL8: the watcher is the only thing that enforces the deadline on a command
	{
		n7, n8 := 0, 0
		for _, f := range tsFuncs(p) {
			g := graph(p, f)
			for _, c := range g.Calls("os/exec.CommandContext") {
				n7++
				ctx.Bad("DL7", shortFn(f)+"#command-context"+itoa(n7), c.Pos(), "a command is bound to a context by os/exec itself: at expiry os/exec kills it at once, at the very moment the watcher sends the interrupt - the grace period in which an interrupted command prints and exits is gone")
			}
			g.Instrs(func(i ssa.Instruction) {
				gi, ok := i.(*ssa.Go)
				if !ok {
					return
				}
				var fn *ssa.Function
				switch x := gi.Call.Value.(type) {
				case *ssa.MakeClosure:
					fn, _ = x.Fn.(*ssa.Function)
				case *ssa.Function:
					fn = x
				}
				if fn == nil || fn.Blocks == nil {
					return
				}
				fg := graph(p, fn)
				if len(fg.Calls("(*os/exec.Cmd).Wait")) > 0 {
					n8++
					ctx.Bad("DL8", shortFn(f)+"#bare-wait"+itoa(n8), gi.Pos(), "a goroutine waits for a command with Cmd.Wait directly: that command is not watched, the deadline never interrupts it")
				}
			})
		}
		if n7 == 0 {
			ctx.OK("DL7", "testscript#no-command-context", token.NoPos, "no command is created with exec.CommandContext")
		}
		if n8 == 0 {
			ctx.OK("DL8", "testscript#no-bare-wait", token.NoPos, "no goroutine waits for a command other than through waitOrStop")
		}
	}
	// ---- DL6: the end-of-run clean-up interrupts before it waits, whatever the context says
	if run := p.Func("testscript", "(*TestScript).run"); run != nil {
		for _, a := range run.AnonFuncs {
			if len(graph(p, a).Calls("(*"+tsPkg+".TestScript).waitBackground")) > 0 {
				cleanupInterruptsFirst(ctx, "DL6", a)
			}
		}
	}
}

// leafStored: v (a free-variable load in closure a) is bound to a RunT cell that
// receives one of the leaves of phi web G.
func leafStored(g *ssax.Graph, a *ssa.Function, v ssa.Value, G ssa.Value) bool {
	u, ok := v.(*ssa.UnOp)
	if !ok {
		return false
	}
	fv, ok := u.X.(*ssa.FreeVar)
	if !ok {
		return false
	}
	var bound ssa.Value
	g.Instrs(func(j ssa.Instruction) {
		if mc, ok := j.(*ssa.MakeClosure); ok && mc.Fn == a {
			for k, f2 := range a.FreeVars {
				if f2 == fv {
					bound = mc.Bindings[k]
				}
			}
		}
	})
	al, ok := bound.(*ssa.Alloc)
	if !ok {
		return false
	}
	_, leaves := phiWeb(G)
	for _, r := range ssax.Referrers(al) {
		if s2, ok := r.(*ssa.Store); ok && s2.Addr == ssa.Value(al) {
			if s2.Val == G {
				return true
			}
			for _, l := range leaves {
				if s2.Val == l.Val {
					return true
				}
			}
		}
	}
	return false
}

// boundToCell: v is a load of a free variable of closure a that is bound to cell.
func boundToCell(g *ssax.Graph, a *ssa.Function, v ssa.Value, cell *ssa.Alloc) bool {
	if cell == nil {
		return false
	}
	u, ok := v.(*ssa.UnOp)
	if !ok {
		return false
	}
	fv, ok := u.X.(*ssa.FreeVar)
	if !ok {
		return false
	}
	found := false
	g.Instrs(func(j ssa.Instruction) {
		if mc, ok := j.(*ssa.MakeClosure); ok && mc.Fn == a {
			for k, f2 := range a.FreeVars {
				if f2 == fv && mc.Bindings[k] == ssa.Value(cell) {
					found = true
				}
			}
		}
	})
	return found
}

// isMaxOfFraction: v is max(x, T/20) (the builtin), in either argument order.
func isMaxOfFraction(v, T ssa.Value) bool {
	c, ok := v.(*ssa.Call)
	if !ok || !isBuiltinCall(c, "max") || len(c.Call.Args) != 2 {
		return false
	}
	for _, a := range c.Call.Args {
		if q, ok := a.(*ssa.BinOp); ok && q.Op == token.QUO && q.X == T {
			if k, ok := ssax.ConstInt(q.Y); ok && k == 20 {
				return true
			}
		}
	}
	return false
}

func containsIntR(s []int, x int) bool {
	for _, v := range s {
		if v == x {
			return true
		}
	}
	return false
}
