package rules

import (
	"go/token"
	"strings"

	"golang.org/x/tools/go/ssa"

	"verif/checker/boundx"
	"verif/checker/core"
	"verif/checker/ssax"
)

func init() { Registry["C03"] = Spec{Run: runC03, Packages: []string{"txtar"}} }

func runC03(ctx *core.Ctx) {
	fixNLShape(ctx, "NL")
	ctx.Trusted = append(ctx.Trusted, "go/types, go/ssa", "library-fact table of the bounds engine (bytes.Index*, HasPrefix/HasSuffix, TrimSpace, len/cap semantics)",
		"standard-library callees (bytes.*, strings.*, os.ReadFile, golang.org/x/tools/txtar.Format) are total on in-range arguments")
	ctx.Rule("TOT", "totality of txtar.Parse/ParseFile: every index and slice expression, type assertion, division, make and explicit panic in every module function reachable from Parse and ParseFile is proved unable to panic, from facts that dominate it on the control-flow graph pruned at no-return calls", 1)
	ctx.Rule("EXIT", "the marker search gives up only when the library search found nothing: its no-marker return (empty name) is reached only on the edge where bytes.Index returned a negative result", 1)
	ctx.Rule("DISC", "the parser's loop continues exactly on the component by which the marker search reports a hit: the result that is constant-empty on the search's no-marker return and known non-empty on its marker return", 1)
	ctx.Rule("PROG", "progress of the marker search: in the function reachable from Parse that scans for a marker (the loop containing the bytes.Index call), the loop-carried index strictly increases on every back edge and stays <= len(data), so the search terminates", 1)
	parse := ctx.Need("TOT", "txtar", "Parse")
	parseFile := ctx.Need("TOT", "txtar", "ParseFile")
	if parse == nil || parseFile == nil {
		return
	}
	totality(ctx, []*ssa.Function{parse, parseFile}, totalOpts{rule: "TOT"})

	searchRules(ctx, parse)
	ctx.Rule("ONE", "one way through Parse: every return of Parse lies behind a call of the marker search (which also applies the final-newline fix to what it returns); a fast path around it yields a comment or body without the final newline and disagrees with the reference", 1)
	{
		g := graph(ctx.P, parse)
		var searchCalls []*ssa.Call
		for f, cs := range tupleCallees(ctx.P, parse) {
			_ = f
			searchCalls = append(searchCalls, cs...)
		}
		okOne := len(searchCalls) > 0
		for _, r := range g.Returns() {
			behind := false
			for _, c := range searchCalls {
				if g.Dominates(c, r) {
					behind = true
				}
			}
			if !behind {
				okOne = false
			}
		}
		ctx.Check(okOne, "ONE", "txtar.Parse#through-search", parse.Pos(), "every return of Parse is dominated by a call of the marker search")
	}
	inputReadOnly(ctx, "RO", []*ssa.Function{parse, parseFile})
	scanFromCandidate(ctx, "SCAN")
	parseFileRaw(ctx, "RAW")
	markerLineExact(ctx, "LINE")
	ctx.Rule("FWD", "Format is the reference implementation: the package's Format does nothing but call golang.org/x/tools/txtar.Format on its argument and return the result", 1)
	if fm := ctx.Need("FWD", "txtar", "Format"); fm != nil {
		g := graph(ctx.P, fm)
		ok := false
		n := 0
		g.Instrs(func(i ssa.Instruction) {
			if c, isC := i.(*ssa.Call); isC {
				n++
				if ssax.CalleeName(&c.Call) == "golang.org/x/tools/txtar.Format" && c.Call.Args[0] == ssa.Value(fm.Params[0]) {
					for _, r := range g.Returns() {
						if ssax.ReturnValues(r)[0] == ssa.Value(c) {
							ok = true
						}
					}
				}
			}
		})
		ctx.Check(ok && n == 1, "FWD", "txtar.Format#forward", fm.Pos(), "Format forwards to the reference implementation (calls in body: %d)", n)
	}
	ctx.Rule("UNTERM", "a marker on a last line without newline is still a marker: in the marker test the return that yields a name is not dominated by 'a newline was found' (the reference parser and Format/Parse stability require it)", 1)
	ctx.Rule("NAME", "the marker name is the text between the delimiters with all surrounding white space removed by strings.TrimSpace (bytes.TrimSpace), as in the reference parser; the search's 'no name' test sees the trimmed name", 1)
	for _, f := range reachableMod(ctx.P, []*ssa.Function{parse}, nil) {
		g := graph(ctx.P, f)
		// the marker test: a function returning (string, []byte) that tests HasPrefix and HasSuffix
		if f.Signature.Results().Len() != 2 || len(g.Calls("bytes.HasSuffix", "strings.HasSuffix")) == 0 || len(g.Calls("bytes.HasPrefix", "strings.HasPrefix")) == 0 {
			continue
		}
		for k, r := range g.Returns() {
			v := ssax.ReturnValues(r)[0]
			if s, isK := ssax.ConstString(v); isK && s == "" {
				continue
			}
			nlFound := cmpFact(g.FactsAtInstr(r), token.GEQ, isCallOf([]string{"bytes.IndexByte", "strings.IndexByte", "bytes.Index"}), isConstIntV(0))
			ctx.Check(!nlFound, "UNTERM", shortFn(f)+"#name-return"+itoa(k+1), r.Pos(), "the name-yielding return is reachable for a line without terminating newline")
			c, isC := v.(*ssa.Call)
			trimmed := isC && (ssax.CalleeName(&c.Call) == "strings.TrimSpace" || ssax.CalleeName(&c.Call) == "bytes.TrimSpace")
			if cv, isCv := v.(*ssa.Convert); isCv {
				if cc, ok := cv.X.(*ssa.Call); ok && ssax.CalleeName(&cc.Call) == "bytes.TrimSpace" {
					trimmed = true
				}
			}
			ctx.Check(trimmed, "NAME", shortFn(f)+"#name-trim"+itoa(k+1), r.Pos(), "the name is trimmed with TrimSpace (all Unicode white space, as the reference parser does)")
			// the text that is trimmed is the line between its opening and its *closing* delimiter: a
			// re-slice of the line with both bounds given, not the result of another search (cutting at
			// the first " --" shortens a name that itself contains " --")
			between := false
			if trimmed {
				var arg ssa.Value
				if isC {
					arg = c.Call.Args[0]
				} else if cv, ok := v.(*ssa.Convert); ok {
					arg = cv.X.(*ssa.Call).Call.Args[0]
				}
				for {
					cv, ok := arg.(*ssa.Convert)
					if !ok {
						break
					}
					arg = cv.X
				}
				if sl, ok := arg.(*ssa.Slice); ok && sl.Low != nil && sl.High != nil {
					between = true
				}
			}
			ctx.Check(between, "NAME", shortFn(f)+"#name-span"+itoa(k+1), r.Pos(), "the name is the span of the line between the opening delimiter and the closing one (both slice bounds explicit)")
		}
	}

	// PROG: find loops whose header phi is advanced by a bytes.Index result.
	for _, f := range reachableMod(ctx.P, []*ssa.Function{parse}, nil) {
		g := graph(ctx.P, f)
		a := boundx.New(g, info(ctx.P).env, nil)
		g.Instrs(func(i ssa.Instruction) {
			phi, ok := i.(*ssa.Phi)
			if !ok || !isIntT(phi.Type()) {
				return
			}
			// is some edge value derived from a bytes.Index / strings.Index call?
			usesIndex := false
			for _, e := range phi.Edges {
				if ssax.DerivedFrom(e, func(v ssa.Value) bool {
					c, ok := v.(*ssa.Call)
					if !ok {
						return false
					}
					n := ssax.CalleeName(&c.Call)
					return n == "bytes.Index" || n == "strings.Index"
				}, nil) {
					usesIndex = true
				}
			}
			if !usesIndex {
				return
			}
			blk := phi.Block()
			okAll := true
			detail := ""
			for k, e := range phi.Edges {
				pred := blk.Preds[k]
				if !g.Reach[pred.Index] {
					continue
				}
				if !g.DomBlock(blk.Index, pred.Index) {
					continue // loop entry edge
				}
				// back edge: need e >= phi+1 at the end of pred
				last := pred.Instrs[len(pred.Instrs)-1]
				if !a.Entailed(last, a.I(e).Sub(a.I(phi)).Sub(boundx.K(1))) {
					okAll = false
					detail = "on back edge from b" + itoa(pred.Index) + " the next index is not proved greater than the current one"
				}
			}
			// bounded: phi <= len(param)
			bounded := false
			for _, par := range f.Params {
				if isSeqT(par.Type()) && a.Entailed(blk.Instrs[len(blk.Instrs)-1], a.L(par).Sub(a.I(phi))) {
					bounded = true
				}
			}
			if okAll && bounded {
				ctx.OK("PROG", shortFn(f)+":"+phi.Comment, phi.Pos(), "search index strictly increases on every back edge and is bounded by the input length")
			} else {
				if detail == "" {
					detail = "index not proved <= len(input)"
				}
				ctx.Bad("PROG", shortFn(f)+":"+phi.Comment, posOr(phi.Pos(), f.Pos()), "marker search may not make progress: %s", detail)
			}
		})
	}
}

func posOr(a, b token.Pos) token.Pos {
	if a.IsValid() {
		return a
	}
	return b
}

func itoa(i int) string {
	if i == 0 {
		return "0"
	}
	s := ""
	neg := i < 0
	if neg {
		i = -i
	}
	for i > 0 {
		s = string(rune('0'+i%10)) + s
		i /= 10
	}
	if neg {
		s = "-" + s
	}
	return s
}

// discriminator returns the result indexes of the marker search that are a
// constant empty value on its no-marker return and known non-empty on its
// marker return.
func discriminator(p *core.Prog, search *ssa.Function) (disc map[int]bool, notFound, found []*ssa.Return) {
	g := graph(p, search)
	disc = map[int]bool{}
	nres := search.Signature.Results().Len()
	isEmptyConst := func(v ssa.Value) bool {
		if ssax.IsNil(v) {
			return true
		}
		s, ok := ssax.ConstString(v)
		return ok && s == ""
	}
	for _, r := range g.Returns() {
		rv := ssax.ReturnValues(r)
		anyEmpty := false
		for _, v := range rv {
			if s, ok := ssax.ConstString(v); ok && s == "" {
				anyEmpty = true
			}
		}
		if anyEmpty {
			notFound = append(notFound, r)
		} else {
			found = append(found, r)
		}
	}
	for k := 0; k < nres; k++ {
		ok := len(notFound) > 0 && len(found) > 0
		for _, r := range notFound {
			if !isEmptyConst(ssax.ReturnValues(r)[k]) {
				ok = false
			}
		}
		for _, r := range found {
			v := ssax.ReturnValues(r)[k]
			facts := g.FactsAtInstr(r)
			nonEmpty := cmpFact(facts, token.NEQ, isVal(v), isConstStr("")) || ssax.KnownNil(facts, v, false)
			if !nonEmpty {
				ok = false
			}
		}
		if ok {
			disc[k] = true
		}
	}
	return
}

// sharedSearch finds the module function with a tuple result that f calls.
func tupleCallees(p *core.Prog, f *ssa.Function) map[*ssa.Function][]*ssa.Call {
	m := map[*ssa.Function][]*ssa.Call{}
	graph(p, f).Instrs(func(i ssa.Instruction) {
		if c, ok := i.(*ssa.Call); ok {
			if cal := c.Call.StaticCallee(); cal != nil && core.InModule(cal) && cal.Signature.Results().Len() > 1 {
				m[cal] = append(m[cal], c)
			}
		}
	})
	return m
}

func searchRules(ctx *core.Ctx, parse *ssa.Function) {
	p := ctx.P
	var search *ssa.Function
	for f := range tupleCallees(p, parse) {
		search = f
	}
	if search == nil {
		ctx.Unknown("DISC", "txtar.Parse#search", parse.Pos(), "Parse calls no marker-search function with a tuple result")
		return
	}
	ctx.Seen(search)
	disc, notFound, _ := discriminator(p, search)
	// EXIT
	g := graph(p, search)
	for k, r := range notFound {
		facts := g.FactsAtInstr(r)
		ok := cmpFact(facts, token.LSS, isCallOf([]string{"bytes.Index", "strings.Index", "bytes.IndexByte"}), isConstIntV(0))
		ctx.Check(ok, "EXIT", shortFn(search)+"#no-marker-return"+itoa(k+1), r.Pos(), "the search reports 'no further marker' only when bytes.Index returned < 0 (a weaker test such as <= 0 abandons the search while a marker line is still ahead)")
		// ... and then hands back everything it was given: the data result is the parameter itself,
		// or a call (the newline fix) on the parameter itself - not on a part of it
		rv := ssax.ReturnValues(r)
		whole := false
		for _, v := range rv {
			if !isByteSlice(v.Type()) || ssax.IsNil(v) {
				continue
			}
			if v == ssa.Value(search.Params[0]) {
				whole = true
			}
			if c, isC := v.(*ssa.Call); isC && len(c.Call.Args) >= 1 && c.Call.Args[0] == ssa.Value(search.Params[0]) {
				whole = true
			}
		}
		ctx.Check(whole, "EXIT", shortFn(search)+"#no-marker-return"+itoa(k+1)+":whole", r.Pos(), "with no marker ahead the search returns all of its input as the data before it (a sub-slice that starts at the last candidate drops the text before that candidate)")
	}
	if len(notFound) == 0 {
		ctx.Bad("EXIT", shortFn(search)+"#no-marker-return", search.Pos(), "the search has no 'no further marker' return")
	}
	// DISC: Parse's loop conditions that depend on the search result
	gp := graph(p, parse)
	used := map[int]bool{}
	gp.Instrs(func(i ssa.Instruction) {
		ifi, ok := i.(*ssa.If)
		if !ok {
			return
		}
		for idx := 0; idx < search.Signature.Results().Len(); idx++ {
			idx := idx
			if ssax.DerivedFrom(ifi.Cond, func(v ssa.Value) bool {
				e, ok := v.(*ssa.Extract)
				if !ok || e.Index != idx {
					return false
				}
				c, ok := e.Tuple.(*ssa.Call)
				return ok && c.Call.StaticCallee() == search
			}, nil) {
				used[idx] = true
			}
		}
	})
	ok := len(used) > 0
	for k := range used {
		if !disc[k] {
			ok = false
		}
	}
	nm := func(m map[int]bool) []string {
		var out []string
		for k := range m {
			out = append(out, search.Signature.Results().At(k).Name())
		}
		return out
	}
	ctx.Check(ok, "DISC", "txtar.Parse#loop-condition", parse.Pos(), "Parse's loop tests %v; the search reports a hit through %v (other components can be empty although a marker was found, e.g. 'after' for a marker on the last line without newline)", nm(used), nm(disc))
}

// inputReadOnly: the functions reachable from the entries never write through a
// byte-slice parameter: no append onto it (which writes into spare capacity of
// the caller's buffer), no copy into it, no element store. The parser's results
// alias its input, so a write changes what the caller - or a neighbouring parse
// of the same buffer - sees.
func inputReadOnly(ctx *core.Ctx, rule string, entries []*ssa.Function) {
	p := ctx.P
	ctx.Rule(rule, "input is read-only: in every module function reachable from the entry points no byte-slice parameter (or re-slice of one) is the first argument of append, the destination of copy, or the base of an element store", 1)
	n, bad := 0, 0
	for _, f := range reachableMod(p, entries, nil) {
		g := graph(p, f)
		ctx.Seen(f)
		// may share its backing array with a byte-slice parameter: the parameter, a re-slice,
		// a merge, or the result of appending onto such a value
		var aliases func(v ssa.Value, seen map[ssa.Value]bool) bool
		aliases = func(v ssa.Value, seen map[ssa.Value]bool) bool {
			if seen[v] {
				return false
			}
			seen[v] = true
			switch x := v.(type) {
			case *ssa.Parameter:
				return isByteSlice(x.Type())
			case *ssa.Slice:
				return aliases(x.X, seen)
			case *ssa.Phi:
				for _, e := range x.Edges {
					if aliases(e, seen) {
						return true
					}
				}
			case *ssa.Call:
				if isBuiltinCall(x, "append") && len(x.Call.Args) > 0 {
					return aliases(x.Call.Args[0], seen)
				}
			}
			return false
		}
		isParamSlice := func(v ssa.Value) bool {
			return isByteSlice(v.Type()) && aliases(v, map[ssa.Value]bool{})
		}
		g.Instrs(func(i ssa.Instruction) {
			switch x := i.(type) {
			case *ssa.Call:
				if (isBuiltinCall(x, "append") || isBuiltinCall(x, "copy")) && len(x.Call.Args) > 0 && isByteSlice(x.Call.Args[0].Type()) {
					n++
					if isParamSlice(x.Call.Args[0]) {
						bad++
						ctx.Bad(rule, shortFn(f)+"#write"+itoa(bad), x.Pos(), "%s onto a parameter: when the caller's slice has spare capacity this writes into the caller's buffer past the input", x.Call.Value.Name())
					}
				}
			case *ssa.Store:
				if ia, ok := x.Addr.(*ssa.IndexAddr); ok && isByteSlice(ia.X.Type()) {
					n++
					if isParamSlice(ia.X) {
						bad++
						ctx.Bad(rule, shortFn(f)+"#write"+itoa(bad), x.Pos(), "element store into a parameter slice")
					}
				}
			}
		})
	}
	if bad == 0 {
		ctx.OK(rule, "txtar#input-read-only", token.NoPos, "%d append/copy/element-store sites examined, none writes through a parameter", n)
	}
}

// scanFromCandidate: in the marker search the library search for the next
// "newline + marker start" begins at the very position whose candidate was just
// rejected. The newline that precedes the next marker may be the byte at that
// position (a body that starts with an empty line), so starting one byte later
// skips a marker.
func scanFromCandidate(ctx *core.Ctx, rule string) {
	p := ctx.P
	ctx.Rule(rule, "no byte is skipped between candidates: the haystack of the search for the next line-start marker is the input re-sliced at the same position at which the marker test was just applied (not one past it), because the newline introducing the next marker can be the first byte of the rejected candidate", 1)
	parse := ctx.Need(rule, "txtar", "Parse")
	if parse == nil {
		return
	}
	var search *ssa.Function
	for f := range tupleCallees(p, parse) {
		search = f
	}
	if search == nil {
		ctx.Unknown(rule, "txtar.Parse#search", parse.Pos(), "marker-search function not found")
		return
	}
	g := graph(p, search)
	data := search.Params[0]
	lowOf := func(v ssa.Value) (ssa.Value, bool) {
		if v == ssa.Value(data) {
			return nil, true
		}
		sl, ok := v.(*ssa.Slice)
		if !ok || sl.X != ssa.Value(data) || sl.High != nil {
			return nil, false
		}
		return sl.Low, true
	}
	n := 0
	for _, c := range g.Calls("bytes.Index") {
		n++
		// the candidate test of the same loop
		var testLow ssa.Value
		testFound := false
		l, inLoop := innermostLoop(g, c.Block().Index)
		g.Instrs(func(i ssa.Instruction) {
			tc, ok := i.(*ssa.Call)
			if !ok || !inLoop || !l.Blocks[tc.Block().Index] {
				return
			}
			if cal := tc.Call.StaticCallee(); cal != nil && core.InModule(cal) && cal != search && len(tc.Call.Args) >= 1 {
				if lo, ok := lowOf(tc.Call.Args[0]); ok {
					testLow, testFound = lo, true
				}
			}
		})
		lo, ok := lowOf(c.Call.Args[0])
		same := ok && testFound && lo == testLow
		ctx.Check(same, rule, shortFn(search)+"#haystack"+itoa(n), c.Pos(), "the search for the next marker start scans the input from the position of the candidate just rejected")
	}
	if n == 0 {
		ctx.Unknown(rule, shortFn(search)+"#haystack", search.Pos(), "no bytes.Index call in the marker search")
	}
}

// parseFileRaw: ParseFile hands the bytes it read to Parse as they are.
func parseFileRaw(ctx *core.Ctx, rule string) {
	p := ctx.P
	ctx.Rule(rule, "ParseFile parses the file's bytes as read: the argument of Parse is the data result of the file read itself, with nothing in between (a line-ending or other normalisation changes entries that the caller will write back untouched)", 1)
	pf := ctx.Need(rule, "txtar", "ParseFile")
	parse := ctx.Need(rule, "txtar", "Parse")
	if pf == nil || parse == nil {
		return
	}
	g := graph(p, pf)
	n := 0
	for _, c := range g.Calls(ssax.FuncName(parse)) {
		n++
		arg := c.Call.Args[0]
		raw := false
		if e, ok := arg.(*ssa.Extract); ok && e.Index == 0 {
			if rc, ok := e.Tuple.(*ssa.Call); ok {
				switch ssax.CalleeName(&rc.Call) {
				case "os.ReadFile", "io/ioutil.ReadFile", "io.ReadAll", "io/ioutil.ReadAll":
					raw = true
				}
			}
		}
		ctx.Check(raw, rule, "txtar.ParseFile#raw"+itoa(n), c.Pos(), "Parse receives exactly what was read from the file")
	}
	if n == 0 {
		ctx.Bad(rule, "txtar.ParseFile#raw", pf.Pos(), "ParseFile does not call Parse")
	}
}

// markerLineExact: in the marker test the only thing removed from the line
// before the closing delimiter is looked for is one trailing carriage return.
func markerLineExact(ctx *core.Ctx, rule string) {
	p := ctx.P
	ctx.Rule(rule, "marker lines are matched exactly: the value whose suffix is compared with the closing delimiter derives from the line by re-slicing only - no Trim/TrimRight/TrimSpace call in between; trailing blanks make a line an ordinary line (Format never writes them, the reference parser does not accept them), and only one '\\r' before the newline is dropped", 1)
	parse := ctx.Need(rule, "txtar", "Parse")
	if parse == nil {
		return
	}
	n := 0
	for _, f := range reachableMod(p, []*ssa.Function{parse}, nil) {
		g := graph(p, f)
		for _, c := range g.Calls("bytes.HasSuffix", "strings.HasSuffix") {
			if len(c.Call.Args) != 2 {
				continue
			}
			n++
			trimmed := ssax.DerivedFrom(c.Call.Args[0], func(v ssa.Value) bool {
				tc, ok := v.(*ssa.Call)
				if !ok || !(strings.HasPrefix(ssax.CalleeName(&tc.Call), "bytes.Trim") || strings.HasPrefix(ssax.CalleeName(&tc.Call), "strings.Trim")) {
					return false
				}
				// TrimSuffix(line, "\r") removes exactly the one CR the format allows
				if _, sfx, isWS := withoutSuffix(tc); isWS && sfx == "\r" {
					return false
				}
				return true
			}, nil)
			ctx.Check(!trimmed, rule, shortFn(f)+"#suffix-test"+itoa(n), c.Pos(), "the closing delimiter is looked for at the end of the line as written (minus one CR), not of a trimmed copy")
		}
	}
	if n == 0 {
		ctx.Unknown(rule, "txtar#suffix-test", token.NoPos, "no closing-delimiter test found in the parser")
	}
}
