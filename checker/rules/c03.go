package rules

import (
	"go/token"

	"golang.org/x/tools/go/ssa"

	"verif/checker/boundx"
	"verif/checker/core"
	"verif/checker/ssax"
)

func init() { Registry["C03"] = Spec{Run: runC03} }

func runC03(ctx *core.Ctx) {
	ctx.Trusted = append(ctx.Trusted, "go/types, go/ssa", "library-fact table of the bounds engine (bytes.Index*, HasPrefix/HasSuffix, TrimSpace, len/cap semantics)",
		"standard-library callees (bytes.*, strings.*, os.ReadFile, golang.org/x/tools/txtar.Format) are total on in-range arguments")
	ctx.Rule("TOT", "totality of txtar.Parse/ParseFile: every index and slice expression, type assertion, division, make and explicit panic in every module function reachable from Parse and ParseFile is proved unable to panic, from facts that dominate it on the control-flow graph pruned at no-return calls", 10)
	ctx.Rule("PROG", "progress of the marker search: in the function reachable from Parse that scans for a marker (the loop containing the bytes.Index call), the loop-carried index strictly increases on every back edge and stays <= len(data), so the search terminates", 1)
	parse := ctx.Need("TOT", "txtar", "Parse")
	parseFile := ctx.Need("TOT", "txtar", "ParseFile")
	if parse == nil || parseFile == nil {
		return
	}
	totality(ctx, []*ssa.Function{parse, parseFile}, totalOpts{rule: "TOT"})

	// PROG: find loops whose header phi is advanced by a bytes.Index result.
	for _, f := range reachableMod(ctx.P, []*ssa.Function{parse}, nil) {
		g := graph(ctx.P, f)
		a := boundx.New(g, info(ctx.P).env, nil)
		g.Instrs(func(i ssa.Instruction) {
			phi, ok := i.(*ssa.Phi)
			if !ok || !isIntT(phi.Type()) {
				return
			}
			// is some edge value derived from a bytes.Index / strings.Index call?
			usesIndex := false
			for _, e := range phi.Edges {
				if ssax.DerivedFrom(e, func(v ssa.Value) bool {
					c, ok := v.(*ssa.Call)
					if !ok {
						return false
					}
					n := ssax.CalleeName(&c.Call)
					return n == "bytes.Index" || n == "strings.Index"
				}, nil) {
					usesIndex = true
				}
			}
			if !usesIndex {
				return
			}
			blk := phi.Block()
			okAll := true
			detail := ""
			for k, e := range phi.Edges {
				pred := blk.Preds[k]
				if !g.Reach[pred.Index] {
					continue
				}
				if !g.DomBlock(blk.Index, pred.Index) {
					continue // loop entry edge
				}
				// back edge: need e >= phi+1 at the end of pred
				last := pred.Instrs[len(pred.Instrs)-1]
				if !a.Entailed(last, a.I(e).Sub(a.I(phi)).Sub(boundx.K(1))) {
					okAll = false
					detail = "on back edge from b" + itoa(pred.Index) + " the next index is not proved greater than the current one"
				}
			}
			// bounded: phi <= len(param)
			bounded := false
			for _, par := range f.Params {
				if isSeqT(par.Type()) && a.Entailed(blk.Instrs[len(blk.Instrs)-1], a.L(par).Sub(a.I(phi))) {
					bounded = true
				}
			}
			if okAll && bounded {
				ctx.OK("PROG", shortFn(f)+":"+phi.Comment, phi.Pos(), "search index strictly increases on every back edge and is bounded by the input length")
			} else {
				if detail == "" {
					detail = "index not proved <= len(input)"
				}
				ctx.Bad("PROG", shortFn(f)+":"+phi.Comment, posOr(phi.Pos(), f.Pos()), "marker search may not make progress: %s", detail)
			}
		})
	}
}

func posOr(a, b token.Pos) token.Pos {
	if a.IsValid() {
		return a
	}
	return b
}

func itoa(i int) string {
	if i == 0 {
		return "0"
	}
	s := ""
	neg := i < 0
	if neg {
		i = -i
	}
	for i > 0 {
		s = string(rune('0'+i%10)) + s
		i /= 10
	}
	if neg {
		s = "-" + s
	}
	return s
}
