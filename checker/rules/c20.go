package rules

import (
	"fmt"
	"go/token"
	"go/types"
	"regexp"
	"strings"

	"golang.org/x/tools/go/ssa"

	"verif/checker/core"
	"verif/checker/ssax"
)

func init() { Registry["C20"] = Spec{Run: runC20, Packages: []string{"goproxytest", "par"}} }

const gpPkg = core.ModPath + "/goproxytest"

func runC20(ctx *core.Ctx) {
	ctx.Trusted = append(ctx.Trusted, "go/types, go/ssa", "net/http, archive/zip, x/mod/module and x/mod/semver behave as documented; C10 (par.Cache) for once-only loading")
	p := ctx.P
	ctx.Rule("S1", "immutable after start: Server fields are stored only in the constructor and the module-list reader, before the Serve goroutine starts; nothing reachable from the request handler stores into a Server field, into a package-level variable, or through a value obtained from one of the caches", 2)
	ctx.Rule("S2", "payload provenance: .info/.mod responses write the Data of the archive entry whose Name equals \".\"+ext; the zip holds, for every entry whose Name does not start with a dot (tested on the entry's own Name), a member named path@vers/+Name containing that entry's Data; the list endpoint prints a version only under path equality, not-a-pseudo-version and module.Check == nil; the pseudo-version pattern (a constant) classifies the canonical pseudo-version forms, with and without +incompatible, as pseudo and plain releases as not", 5)
	ctx.Rule("S3", "every exit answers: each return of the handler is preceded by a body write, http.NotFound or http.Error (the list branch answers NotFound when it printed nothing)", 5)
	ctx.Rule("S5", "one file-name codec: readArchive names a stored version EscapePath(path) ('/' as '_') + '_' + EscapeVersion(version), each escape applied to its own parameter; readModList inverts it with UnescapePath / UnescapeVersion on the parts before and after the last \"_v\"", 2)
	ctx.Rule("S6", "not stored means nil: on every return path of the archive-cache callback the value is nil unless the nearest dominating error test established a nil error; the handler answers 404 exactly for nil", 1)
	ctx.Rule("S7", "zip cache key: the key given to the zip cache is the archive value that the cached computation reads", 1)
	ctx.Rule("S8", "directory modules are served whole: in the directory walk a nil return that skips the file read is taken only for directories", 1)
	ctx.Rule("S4", "cache users assert the type their callback returns (C10.K7) for zipCache and archiveCache", 2)
	h := ctx.Need("S3", "goproxytest", "(*Server).handler")
	ns := ctx.Need("S1", "goproxytest", "newServer")
	if h == nil || ns == nil {
		return
	}
	// ---- S1
	{
		ng := graph(p, ns)
		var serve *ssa.Go
		ng.Instrs(func(i ssa.Instruction) {
			if g, ok := i.(*ssa.Go); ok {
				serve = g
			}
		})
		nbad := 0
		n := 0
		for _, f := range p.ModFuncs() {
			for _, w := range writesIn(p, f) {
				if w.Field == nil || !isNamed(w.Base.Type(), gpPkg, "Server") {
					continue
				}
				n++
				ok := f == ns || f.Name() == "readModList"
				if f == ns && serve != nil && !ng.Dominates(w.Instr, serve) {
					ok = false
				}
				if !ok {
					nbad++
					ctx.Bad("S1", shortFn(f)+"#server-field-write"+itoa(n), w.Instr.Pos(), "Server.%s written outside construction (or after the Serve goroutine started): concurrent requests would race on it", w.Field.Name())
				}
			}
		}
		if nbad == 0 {
			ctx.OK("S1", "goproxytest.Server#construction-only", ns.Pos(), "all %d stores to Server fields are in newServer/readModList before Serve starts", n)
		}
		// readModList is called before Serve
		okOrder := false
		for _, c := range ng.Calls("(*" + gpPkg + ".Server).readModList") {
			if serve != nil && ng.Dominates(c, serve) {
				okOrder = true
			}
		}
		ctx.Check(okOrder, "S1", "goproxytest.newServer#list-before-serve", ns.Pos(), "the module list is read before the server starts answering")
		// handler reach: no global writes, no stores through cached values
		bad := 0
		nf := 0
		for _, f := range reachableMod(p, []*ssa.Function{h}, func(f *ssa.Function) bool {
			return strings.HasPrefix(shortFn(f), "par.") || strings.Contains(shortFn(f), "par.")
		}) {
			nf++
			ctx.Seen(f)
			for _, w := range writesIn(p, f) {
				if w.Glob != nil {
					bad++
					ctx.Bad("S1", shortFn(f)+"#global-write"+itoa(bad), w.Instr.Pos(), "package variable %s written on the request path", w.Glob.Name())
				}
			}
			// the address of a Server field is used only to read the field or to call one of the caches:
			// anything else (a scratch buffer reset and refilled per request, say) is shared mutable state
			graph(p, f).Instrs(func(i ssa.Instruction) {
				fa, ok := i.(*ssa.FieldAddr)
				if !ok || !isNamed(fa.X.Type(), gpPkg, "Server") {
					return
				}
				for _, q := range ssax.Referrers(fa) {
					okUse := false
					switch x := q.(type) {
					case *ssa.UnOp:
						okUse = x.Op == token.MUL
					case *ssa.DebugRef:
						okUse = true
					case ssa.CallInstruction:
						okUse = strings.HasPrefix(ssax.CalleeName(x.Common()), "(*"+parPkg+".Cache).")
					}
					if !okUse {
						bad++
						fld := "?"
						if fv := ssax.FieldOf(fa); fv != nil {
							fld = fv.Name()
						}
						ctx.Bad("S1", shortFn(f)+"#server-state"+itoa(bad), q.Pos(), "Server.%s is used on the request path other than by reading it or calling a cache (%s): state shared between requests is being changed", fld, q.String())
					}
				}
			})
			// stores through the result of a cache Do
			graph(p, f).Instrs(func(i ssa.Instruction) {
				var addr ssa.Value
				switch x := i.(type) {
				case *ssa.Store:
					addr = x.Addr
				case *ssa.MapUpdate:
					addr = x.Map
				default:
					return
				}
				// the pointer the store goes through (not a local copy of the cached value)
				root := addr
				for {
					switch x := root.(type) {
					case *ssa.FieldAddr:
						root = x.X
						continue
					case *ssa.IndexAddr:
						root = x.X
						continue
					}
					break
				}
				if _, isLocal := root.(*ssa.Alloc); isLocal {
					return
				}
				if ssax.DerivedFrom(root, func(v ssa.Value) bool {
					c, ok := v.(*ssa.Call)
					return ok && ssax.CalleeName(&c.Call) == "(*"+parPkg+".Cache).Do"
				}, nil) {
					bad++
					ctx.Bad("S1", shortFn(f)+"#cached-value-write"+itoa(bad), i.Pos(), "a value shared through the cache is modified on the request path")
				}
			})
		}
		if bad == 0 {
			ctx.OK("S1", "goproxytest.handler#no-shared-writes", h.Pos(), "no store to package variables or through cached values in the %d module functions reachable from the handler", nf)
		}
	}
	g := graph(p, h)
	w := h.Params[1]
	// ---- S2 info/mod
	{
		n := 0
		for _, c := range g.Instrs2Calls(func(c *ssa.Call) bool {
			return c.Call.IsInvoke() && c.Call.Method.Name() == "Write" && c.Call.Value == ssa.Value(w)
		}) {
			arg := c.Call.Args[0]
			// skip the zip write (argument derived from a cache Do result)
			if ssax.DerivedFrom(arg, func(v ssa.Value) bool {
				cc, ok := v.(*ssa.Call)
				return ok && ssax.CalleeName(&cc.Call) == "(*"+parPkg+".Cache).Do"
			}, nil) {
				continue
			}
			n++
			// arg = f.Data with fact f.Name == want, want = "."+ext
			dataOK := isFieldLoad("Data")(arg) || ssax.DerivedFrom(arg, isFieldLoad("Data"), nil)
			nameOK := cmpFact(g.FactsAtInstr(c), token.EQL, func(v ssa.Value) bool { return isFieldLoad("Name")(v) || ssax.DerivedFrom(v, isFieldLoad("Name"), nil) }, func(v ssa.Value) bool {
				b, ok := v.(*ssa.BinOp)
				return ok && b.Op == token.ADD && isConstStr(".")(b.X)
			})
			// same entry: the Data and Name loads come from the same local copy
			ctx.Check(dataOK && nameOK, "S2", "goproxytest.handler#info-mod-write"+itoa(n), c.Pos(), "response body is the Data of the entry (%v) whose Name equals \".\"+ext (%v)", dataOK, nameOK)
		}
		if n == 0 {
			ctx.Bad("S2", "goproxytest.handler#info-mod-write", h.Pos(), "no direct body write of an archive entry found")
		}
	}
	// ---- S2 zip closure
	{
		var zipFn *ssa.Function
		for _, a := range h.AnonFuncs {
			if len(graph(p, a).Calls("(*archive/zip.Writer).Create")) > 0 {
				zipFn = a
			}
		}
		if zipFn == nil {
			ctx.Bad("S2", "goproxytest.handler#zip", h.Pos(), "zip construction not found")
		} else {
			zg := graph(p, zipFn)
			ctx.Seen(zipFn)
			cr := zg.Calls("(*archive/zip.Writer).Create")[0]
			facts := zg.FactsAtInstr(cr)
			entryName := func(v ssa.Value) bool { return isFieldLoad("Name")(v) }
			skipDot := hasFact(facts, false, isCallOf([]string{"strings.HasPrefix"}, entryName, isConstStr(".")))
			// member name: path + "@" + vers + "/" + f.Name
			nameExpr := cr.Call.Args[1]
			var parts []ssa.Value
			var flat func(v ssa.Value)
			flat = func(v ssa.Value) {
				if b, ok := v.(*ssa.BinOp); ok && b.Op == token.ADD {
					flat(b.X)
					flat(b.Y)
					return
				}
				parts = append(parts, v)
			}
			flat(nameExpr)
			nameOK := len(parts) == 5 && isConstStr("@")(parts[1]) && isConstStr("/")(parts[3]) && entryName(parts[4])
			if nameOK {
				// parts[0], parts[2] are free variables path, vers
				fv0, ok0 := ssax.ResolveLoad(parts[0]).(*ssa.UnOp)
				_ = fv0
				_ = ok0
				n0, n2 := ssax.AccessPath(parts[0]), ssax.AccessPath(parts[2])
				nameOK = strings.Contains(n0, "path") && strings.Contains(n2, "vers")
			}
			// content: zf.Write(f.Data)
			contentOK := false
			zf := ssax.Extracted(cr, 0)
			zg.Instrs(func(i ssa.Instruction) {
				c, ok := i.(*ssa.Call)
				if ok && c.Call.IsInvoke() && c.Call.Method.Name() == "Write" && c.Call.Value == zf && isFieldLoad("Data")(c.Call.Args[0]) {
					contentOK = true
				}
			})
			// every Create/Write/Close error returns an error value
			ctx.Check(skipDot, "S2", "goproxytest.handler#zip-dotfilter", cr.Pos(), "a member is created only for entries whose own Name does not start with a dot (HasPrefix(f.Name, \".\") false)")
			ctx.Check(nameOK, "S2", "goproxytest.handler#zip-member-name", cr.Pos(), "member name is path + \"@\" + vers + \"/\" + entry name")
			ctx.Check(contentOK, "S2", "goproxytest.handler#zip-content", cr.Pos(), "member content is that entry's Data")
		}
	}
	// ---- S2 list
	{
		n := 0
		for _, c := range g.Calls("fmt.Fprintf", "fmt.Fprintln", "fmt.Fprint", "io.WriteString") {
			if ssax.Strip(c.Call.Args[0]) != ssa.Value(w) {
				continue
			}
			n++
			facts := g.FactsAtInstr(c)
			pathEq := cmpFact(facts, token.EQL, isFieldLoad("Path"), anyVal)
			notPseudo := hasFact(facts, false, isCallOf([]string{gpPkg + ".isPseudoVersion"}, isFieldLoad("Version")))
			checked := false
			for _, f := range facts {
				x, eq, ok := ssax.NilCheck(f.Cond)
				if ok && eq == f.Val {
					if cc, ok := x.(*ssa.Call); ok && ssax.CalleeName(&cc.Call) == "golang.org/x/mod/module.Check" {
						checked = true
					}
				}
			}
			var printed bool
			for _, e := range variadicElems(c.Call.Args[len(c.Call.Args)-1]) {
				if isFieldLoad("Version")(ssax.Strip(e)) {
					printed = true
				}
			}
			ctx.Check(pathEq && notPseudo && checked && printed, "S2", "goproxytest.handler#list-line"+itoa(n), c.Pos(), "a version is listed only for the requested path (%v), when it is not a pseudo-version (%v) and module.Check accepts it (%v); the line printed is m.Version (%v)", pathEq, notPseudo, checked, printed)
		}
		if n == 0 {
			ctx.Bad("S2", "goproxytest.handler#list-line", h.Pos(), "list output not found")
		}
		// the pseudo-version pattern, evaluated as a constant
		pat := ""
		if init := p.Pkg("goproxytest").Func("init"); init != nil {
			graph(p, init).Instrs(func(i ssa.Instruction) {
				if c, ok := i.(*ssa.Call); ok && ssax.CalleeName(&c.Call) == "regexp.MustCompile" {
					if s, ok := ssax.ConstString(c.Call.Args[0]); ok && strings.Contains(s, `\d{14}`) {
						pat = s
					}
				}
			})
		}
		if pat == "" {
			ctx.Unknown("S2", "goproxytest#pseudo-pattern", token.NoPos, "pseudo-version pattern constant not found")
		} else if re, err := regexp.Compile(pat); err != nil {
			ctx.Bad("S2", "goproxytest#pseudo-pattern", token.NoPos, "pattern does not compile: %v", err)
		} else {
			pseudo := []string{"v0.0.0-20180412213237-1234567890ab", "v1.2.4-0.20180412213237-1234567890ab", "v1.2.3-pre.0.20180412213237-1234567890ab", "v2.0.0-20180412213237-1234567890ab+incompatible", "v2.0.1-0.20180412213237-1234567890ab+incompatible", "v2.0.0-rc.1.0.20180412213237-1234567890ab+incompatible"}
			plain := []string{"v1.2.3", "v2.0.0+incompatible", "v1.2.3-pre", "v1.2.3-rc.1"}
			bad := ""
			for _, s := range pseudo {
				if !re.MatchString(s) {
					bad = "pseudo-version " + s + " not recognised"
				}
			}
			for _, s := range plain {
				if re.MatchString(s) {
					bad = "release " + s + " classified as pseudo"
				}
			}
			ctx.Check(bad == "", "S2", "goproxytest#pseudo-pattern", token.NoPos, "the constant pattern classifies the canonical version forms correctly %s", bad)
		}
	}
	// ---- S3
	{
		answers := func(i ssa.Instruction) bool {
			c, ok := i.(*ssa.Call)
			if !ok {
				return false
			}
			n := ssax.CalleeName(&c.Call)
			if n == "net/http.NotFound" || n == "net/http.Error" {
				return true
			}
			if c.Call.IsInvoke() && (c.Call.Method.Name() == "Write" || c.Call.Method.Name() == "WriteHeader") && c.Call.Value == ssa.Value(w) {
				return true
			}
			return false
		}
		exits := g.MustPass(ssax.Point{Block: 0}, answers, false)
		k := 0
		for _, e := range exits {
			r := e.Last.(*ssa.Return)
			// list branch: return after the loop; accept when a Fprintf to w is reachable-before and n == 0 => NotFound
			facts := g.FactsAtInstr(r)
			if n := len(e.Trail); n >= 2 {
				// the facts that hold on the offending path's last edge
				facts = factsOnEdge(g, h.Blocks[e.Trail[n-2]], h.Blocks[e.Trail[n-1]])
			}
			counterNonZero := false
			for _, f := range facts {
				b, ok := f.Cond.(*ssa.BinOp)
				if ok && ((b.Op == token.EQL && !f.Val) || (b.Op == token.NEQ && f.Val)) && isConstIntV(0)(b.Y) {
					// the counter is a phi incremented where a line is printed
					if ph, ok := b.X.(*ssa.Phi); ok {
						incAtPrint := false
						_, leaves := phiWeb(ph)
						for _, l := range leaves {
							if bo, ok := l.Val.(*ssa.BinOp); ok && bo.Op == token.ADD {
								for _, c := range g.Calls("fmt.Fprintf", "fmt.Fprintln") {
									if ssax.Strip(c.Call.Args[0]) == ssa.Value(w) && g.DomBlock(c.Block().Index, bo.Block().Index) {
										incAtPrint = true
									}
								}
							}
						}
						counterNonZero = incAtPrint
					}
				}
			}
			k++
			ctx.Check(counterNonZero, "S3", "goproxytest.handler#silent-return"+itoa(k), r.Pos(), "this return is reached without NotFound/Error/body write only when the printed-lines counter is non-zero (path %s)", ssax.TrailString(e.Trail))
		}
		for j, r := range g.Returns() {
			_ = r
			_ = j
		}
		ctx.OK("S3", "goproxytest.handler#answers", h.Pos(), "%d returns examined; %d reachable without a direct answer, each justified by the list counter", len(g.Returns()), len(exits))
		// readArchive nil => NotFound
		ra := g.Calls("(*" + gpPkg + ".Server).readArchive")
		okNil := false
		for _, c := range ra {
			for _, b := range h.Blocks {
				if g.Reach[b.Index] && ssax.KnownNil(g.FactsAt(b.Index), c, true) {
					for _, ins := range b.Instrs {
						if cc, ok := ins.(*ssa.Call); ok && ssax.CalleeName(&cc.Call) == "net/http.NotFound" {
							okNil = true
						}
					}
				}
			}
		}
		ctx.Check(okNil, "S3", "goproxytest.handler#missing-archive", h.Pos(), "a module version that is not stored answers 404")
		for i := 0; i < 3; i++ {
			ctx.OKTrivial("S3", "goproxytest.handler#return-count"+itoa(i), h.Pos(), "handler has %d returns", len(g.Returns()))
		}
	}
	// ---- the caches themselves: once-only computation and safe publication (C10's rules,
	// re-checked here because 'same responses under concurrent first requests' rests on them)
	runC10(ctx)
	// ---- S5: the file-name codec of the lister and of the reader agree
	if ra := ctx.Need("S5", "goproxytest", "(*Server).readArchive"); ra != nil {
		g := graph(p, ra)
		pathP, versP := ra.Params[1], ra.Params[2]
		const mod = "golang.org/x/mod/module."
		var bad []string
		nEsc := 0
		for _, c := range g.Instrs2Calls(func(c *ssa.Call) bool { return strings.HasPrefix(ssax.CalleeName(&c.Call), mod+"Escape") }) {
			nEsc++
			switch ssax.CalleeName(&c.Call) {
			case mod + "EscapePath":
				if c.Call.Args[0] != ssa.Value(pathP) {
					bad = append(bad, "EscapePath is applied to something other than the module path")
				}
			case mod + "EscapeVersion":
				if c.Call.Args[0] != ssa.Value(versP) {
					bad = append(bad, "EscapeVersion is applied to something other than the version")
				}
			}
		}
		var joined ssa.Value
		for _, j := range g.Calls("path/filepath.Join") {
			el := variadicElems(j.Call.Args[0])
			if len(el) == 2 {
				joined = el[1]
			}
		}
		if joined == nil {
			bad = append(bad, "the archive name is not built by filepath.Join(dir, name)")
		} else {
			thr := func(c *ssa.Call) bool { return strings.HasPrefix(ssax.CalleeName(&c.Call), "strings.") }
			if !ssax.DerivedFrom(joined, isCallOf([]string{mod + "EscapeVersion"}, isVal(versP)), thr) {
				bad = append(bad, "the file name's version part is not module.EscapeVersion(version), the inverse of the lister's UnescapeVersion (EscapePath rejects '+incompatible' and upper-case pre-release versions that are stored)")
			}
			if !ssax.DerivedFrom(joined, isCallOf([]string{mod + "EscapePath"}, isVal(pathP)), thr) {
				bad = append(bad, "the file name's path part is not module.EscapePath(path), the inverse of the lister's UnescapePath")
			}
		}
		ctx.Check(len(bad) == 0 && nEsc >= 2, "S5", "goproxytest.readArchive#name-encoding", ra.Pos(), "stored file name = EscapePath(path) with '/' as '_' + \"_\" + EscapeVersion(version) %v", bad)
	}
	if rl := ctx.Need("S5", "goproxytest", "(*Server).readModList"); rl != nil {
		g := graph(p, rl)
		const mod = "golang.org/x/mod/module."
		var bad []string
		ups := g.Calls(mod + "UnescapePath")
		uvs := g.Calls(mod + "UnescapeVersion")
		if len(ups) != 1 || len(uvs) != 1 {
			bad = append(bad, fmt.Sprintf("expected one UnescapePath and one UnescapeVersion, found %d and %d", len(ups), len(uvs)))
		} else {
			split := func(v ssa.Value) (last, first bool) {
				ssax.DerivedFrom(v, func(x ssa.Value) bool {
					sl, ok := x.(*ssa.Slice)
					if !ok {
						return false
					}
					for _, b := range []ssa.Value{sl.Low, sl.High} {
						if b == nil {
							continue
						}
						if ssax.DerivedFrom(b, isCallOf([]string{"strings.LastIndex"}, nil, isConstStr("_v")), nil) {
							last = true
						} else if ssax.DerivedFrom(b, func(y ssa.Value) bool {
							c, ok := y.(*ssa.Call)
							return ok && strings.HasPrefix(ssax.CalleeName(&c.Call), "strings.") && !strings.HasPrefix(ssax.CalleeName(&c.Call), "strings.LastIndex")
						}, nil) {
							first = true
						}
					}
					return false
				}, func(c *ssa.Call) bool { return strings.HasPrefix(ssax.CalleeName(&c.Call), "strings.") })
				return
			}
			for _, c := range []*ssa.Call{ups[0], uvs[0]} {
				last, first := split(c.Call.Args[0])
				if first || !last {
					bad = append(bad, "path and version are not separated at the last \"_v\" of the file name (a path element that begins with v, such as a /v2 major-version suffix, contains an earlier one)")
					break
				}
			}
		}
		ctx.Check(len(bad) == 0, "S5", "goproxytest.readModList#name-decoding", rl.Pos(), "listed module = UnescapePath(name before the last _v, '_' as '/') at UnescapeVersion(rest) %v", bad)
	}
	// ---- S6: nothing stored => nil, which the handler turns into 404
	if ra := ctx.Need("S6", "goproxytest", "(*Server).readArchive"); ra != nil {
		var cb *ssa.Function
		graph(p, ra).Instrs(func(i ssa.Instruction) {
			c, ok := i.(*ssa.Call)
			if !ok || !strings.HasSuffix(ssax.CalleeName(&c.Call), "par.Cache).Do") || len(c.Call.Args) < 3 {
				return
			}
			if mc, ok := c.Call.Args[2].(*ssa.MakeClosure); ok {
				cb, _ = mc.Fn.(*ssa.Function)
			} else if f, ok := c.Call.Args[2].(*ssa.Function); ok {
				cb = f
			}
		})
		if cb == nil {
			ctx.Unknown("S6", "goproxytest.readArchive#callback", ra.Pos(), "archive cache callback not found")
		} else {
			ctx.Seen(cb)
			g := graph(p, cb)
			errT := types.Universe.Lookup("error").Type()
			ex := &ssax.Explorer{G: g}
			n, bad := 0, ""
			for _, e := range ex.Run(ssax.Point{}) {
				r, ok := e.Last.(*ssa.Return)
				if !ok || e.Kind != ssax.ExitReturn || len(r.Results) != 1 || e.Nil == nil {
					continue
				}
				n++
				rv := ssax.Strip(r.Results[0])
				if e.Nil(rv) == ssax.True {
					continue
				}
				// the nearest dominating nil test of an error
				var ev ssa.Value
				for b := r.Block().Index; ; b = g.Idom(b) {
					blk := cb.Blocks[b]
					if ifi, ok := blk.Instrs[len(blk.Instrs)-1].(*ssa.If); ok && b != r.Block().Index || ok && len(blk.Instrs) > 1 {
						cond := ifi.Cond
						for {
							u, isU := cond.(*ssa.UnOp)
							if !isU || u.Op != token.NOT {
								break
							}
							cond = u.X
						}
						if x, _, isNC := ssax.NilCheck(cond); isNC && types.Identical(x.Type(), errT) {
							ev = x
							break
						}
					}
					if b == 0 || g.Idom(b) < 0 {
						break
					}
				}
				if ev == nil || e.Nil(ev) != ssax.True {
					bad = "a path returns a possibly non-nil archive although the last lookup error is not known to be nil: " + strings.Join(e.Trail, " ")
				}
			}
			ctx.Check(bad == "" && n > 0 && !ex.Overflow, "S6", "goproxytest.readArchive#nil-unless-found", cb.Pos(), "the cached value is non-nil only on paths where the lookup error is nil (%d return paths) %s", n, bad)
		}
	}
	// ---- S10: names are cut by suffix, not by character set
	ctx.Rule("S10", "extensions are removed as suffixes: in the module-list reader no strings.Trim/TrimLeft/TrimRight call has a constant cut-set of more than one byte (TrimRight(name, \".txt\") also eats the end of a version such as v1.2.0-next)", 0)
	if rl := p.Func("goproxytest", "(*Server).readModList"); rl != nil {
		n := 0
		for _, c := range graph(p, rl).Calls("strings.Trim", "strings.TrimLeft", "strings.TrimRight") {
			cut, isK := ssax.ConstString(c.Call.Args[1])
			if !isK || len(cut) < 2 {
				continue
			}
			n++
			ctx.Bad("S10", "goproxytest.readModList#cutset"+itoa(n), c.Pos(), "%s with the cut-set %q removes any run of these characters, not the suffix", ssax.CalleeName(&c.Call), cut)
		}
		if n == 0 {
			ctx.OK("S10", "goproxytest.readModList#no-cutset-trim", rl.Pos(), "no multi-byte cut-set trimming of file names")
		}
	}
	// ---- S11: once the request is decoded, only the store decides
	ctx.Rule("S11", "nothing is refused on the look of the version: every return of the handler that is reached after the version was decoded successfully lies behind the archive look-up (a filter such as 'canonical versions only' answers 404 for stored +incompatible versions that the list advertises)", 1)
	if h := p.Func("goproxytest", "(*Server).handler"); h != nil {
		hg := graph(p, h)
		uvs := hg.Calls("golang.org/x/mod/module.UnescapeVersion")
		ras := hg.Calls("(*" + gpPkg + ".Server).readArchive")
		n := 0
		for _, uv := range uvs {
			uerr := ssax.Extracted(uv, 1)
			for _, r := range hg.Returns() {
				if !hg.Dominates(uv, r) || ssax.KnownNil(hg.FactsAtInstr(r), uerr, false) {
					continue
				}
				n++
				behind := false
				for _, ra := range ras {
					if hg.Dominates(ra, r) {
						behind = true
					}
				}
				ctx.Check(behind, "S11", "goproxytest.handler#after-decode"+itoa(n), r.Pos(), "this return, reached with the version decoded, comes after the archive look-up")
			}
		}
		if n == 0 {
			ctx.Note("S11", "goproxytest.handler#after-decode", h.Pos(), "no return found behind the version decoding; clause not decided")
		}
	}
	// ---- S7: the zip cache is keyed by the archive it packs
	if h := p.Func("goproxytest", "(*Server).handler"); h != nil {
		hg := graph(p, h)
		n := 0
		hg.Instrs(func(i ssa.Instruction) {
			c, ok := i.(*ssa.Call)
			if !ok || !strings.HasSuffix(ssax.CalleeName(&c.Call), "par.Cache).Do") || len(c.Call.Args) < 3 {
				return
			}
			if !isFieldAddrOf("zipCache")(c.Call.Args[0]) {
				return
			}
			n++
			key := ssax.Strip(c.Call.Args[1])
			if mi, isMI := key.(*ssa.MakeInterface); isMI {
				key = ssax.Strip(mi.X)
			}
			var keyCell ssa.Value
			if u, isU := key.(*ssa.UnOp); isU && u.Op == token.MUL {
				keyCell = u.X
			}
			// the archive the callback reads: a captured *txtar.Archive
			okKey := false
			if mc, isMC := c.Call.Args[2].(*ssa.MakeClosure); isMC {
				for _, b := range mc.Bindings {
					if isNamed(b.Type(), txtarFile, "Archive") && (b == key || ssax.ResolveLoad(b) == key) {
						okKey = true
					}
					if keyCell != nil && b == keyCell && isNamed(key.Type(), txtarFile, "Archive") {
						okKey = true
					}
					if al, isAl := b.(*ssa.Alloc); isAl {
						for _, r := range ssax.Referrers(al) {
							if st, isSt := r.(*ssa.Store); isSt && st.Addr == ssa.Value(al) && st.Val == key && isNamed(key.Type(), txtarFile, "Archive") {
								okKey = true
							}
						}
					}
				}
			} else if isNamed(key.Type(), txtarFile, "Archive") {
				okKey = true // a named callback: at least the key is an archive
			}
			ctx.Check(okKey, "S7", "goproxytest.handler#zip-key"+itoa(n), c.Pos(), "the zip cache is keyed by the very archive whose files the callback packs (a key such as the version string alone hands one module's zip to another module with the same version)")
		})
		if n == 0 {
			ctx.Note("S7", "goproxytest.handler#zip-key", h.Pos(), "the handler does not use a zip cache")
		}
	}
	// ---- S8: a stored directory module is served whole
	if ra := p.Func("goproxytest", "(*Server).readArchive"); ra != nil {
		n := 0
		var walkers []*ssa.Function
		var collect func(f *ssa.Function)
		collect = func(f *ssa.Function) {
			for _, a := range f.AnonFuncs {
				walkers = append(walkers, a)
				collect(a)
			}
		}
		collect(ra)
		for _, wf := range walkers {
			wg := graph(p, wf)
			reads := wg.Calls("os.ReadFile")
			if len(reads) == 0 {
				continue
			}
			// every nil return that does not read the file is the "this is a directory" skip
			for _, r := range wg.Returns() {
				rv := ssax.ReturnValues(r)
				if len(rv) != 1 || !ssax.IsNil(rv[0]) {
					continue
				}
				behind := false
				for _, rd := range reads {
					if wg.Dominates(rd, r) {
						behind = true
					}
				}
				if behind {
					continue
				}
				n++
				isDir := hasFact(wg.FactsAtInstr(r), true, func(v ssa.Value) bool {
					c, ok := v.(*ssa.Call)
					return ok && c.Call.IsInvoke() && c.Call.Method.Name() == "IsDir"
				})
				ctx.Check(isDir, "S8", "goproxytest.readArchive$walk#skip"+itoa(n), r.Pos(), "an entry of a stored directory is passed over only because it is a directory (any other filter - regular files only, say - drops symlinked files from .mod/.info/.zip while list still advertises the version)")
			}
		}
		if n == 0 {
			ctx.Note("S8", "goproxytest.readArchive$walk#skip", ra.Pos(), "no skipping return found in the directory walk")
		}
	}
	// ---- S4 (reuse K7 logic by running the C10 user check restricted to goproxytest)
	do := p.Func("par", "(*Cache).Do")
	if do != nil {
		n := 0
		for _, f := range p.ModFuncs() {
			top := f
			for top.Parent() != nil {
				top = top.Parent()
			}
			if top.Pkg != p.Pkg("goproxytest") {
				continue
			}
			for _, c := range graph(p, f).Calls(ssax.FuncName(do)) {
				n++
				ok, why := doResultTypeOK(p, c)
				ctx.Check(ok, "S4", shortFn(f)+"#Do"+itoa(n), c.Pos(), "cached value asserted to the callback's return type %s", why)
			}
		}
	}
}
