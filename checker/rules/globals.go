package rules

import (
	"go/token"
	"strings"

	"golang.org/x/tools/go/ssa"

	"verif/checker/core"
	"verif/checker/inl"
	"verif/checker/ssax"
)

// NoNewSharedState (rule GS, attached to every property): the packages a property is anchored in
// gain no package-level variable that is modified after package initialisation. The variables of
// the pinned tree (inl/reference_globals.json) have their own rules where they matter; a new one that
// is only ever read (a table, a compiled pattern, a []byte constant) is fine; a new one that is
// stored to, appended to, used as a map being updated, or whose address is given to a call (a
// sync.Pool, a scratch bytes.Buffer, a cache moved out of its struct) is state shared by every
// caller of the package - which each of these properties, quantified over all concurrent uses or all
// sequences of calls, rules out unless a rule of its own says how it is protected.
// NoNewSharedState is run for every property after its own rules.
func NoNewSharedState(ctx *core.Ctx, pkgs []string) {
	if len(pkgs) == 0 {
		pkgs = map[string][]string{
			"C01": {"testscript", "internal/os/execpath", "cmd/testscript"},
			"C02": {"testscript", "cmd/testscript"},
			"C04": {"testscript"},
			"C14": {"txtar"},
			"C16": {"testscript", "txtar"},
			"C17": {"testscript"},
		}[ctx.Property]
	}
	if len(pkgs) == 0 {
		return
	}
	p := ctx.P
	ctx.Rule("GS", "no new shared state: in the packages this property is anchored in, a package-level variable that the pinned tree does not have is never written outside package initialisation - not stored to, not updated as a map, not handed by address to a call (pools, scratch buffers and caches at package level are shared by all callers and all goroutines)", 0)
	rel := func(pk *ssa.Package) string {
		return strings.TrimPrefix(strings.TrimPrefix(pk.Pkg.Path(), core.ModPath), "/")
	}
	want := map[string]bool{}
	for _, q := range pkgs {
		want[q] = true
	}
	n, examined := 0, 0
	seenNew := map[*ssa.Global]bool{}
	for _, f := range p.ModFuncs() {
		top := f
		for top.Parent() != nil {
			top = top.Parent()
		}
		if top.Pkg == nil || !want[rel(top.Pkg)] || top.Name() == "init" || strings.HasPrefix(top.Name(), "init#") {
			continue
		}
		isNew := func(gl *ssa.Global) bool {
			if gl == nil || gl.Pkg == nil || !strings.HasPrefix(gl.Pkg.Pkg.Path(), core.ModPath) {
				return false
			}
			if strings.HasPrefix(gl.Name(), "init$") {
				return false
			}
			if inl.KnownGlobal(rel(gl.Pkg) + ":" + gl.Name()) {
				return false
			}
			if !seenNew[gl] {
				seenNew[gl] = true
				examined++
			}
			return true
		}
		graph(p, f).Instrs(func(i ssa.Instruction) {
			var gl *ssa.Global
			how := ""
			switch x := i.(type) {
			case *ssa.Store:
				if _, _, g := rootOf(x.Addr); g != nil {
					// a store through a loaded pointer/slice held in the global counts as well
					gl, how = g, "stored to"
				}
			case *ssa.MapUpdate:
				if _, _, g := rootOf(x.Map); g != nil {
					gl, how = g, "updated as a map"
				}
			case ssa.CallInstruction:
				for _, a := range x.Common().Args {
					if g, ok := a.(*ssa.Global); ok {
						gl, how = g, "handed by address to "+ssax.CalleeName(x.Common())
					}
					if fa, ok := a.(*ssa.FieldAddr); ok {
						if g, ok := fa.X.(*ssa.Global); ok {
							gl, how = g, "handed by address to "+ssax.CalleeName(x.Common())
						}
					}
				}
			}
			if gl == nil || !isNew(gl) {
				return
			}
			n++
			ctx.Bad("GS", shortFn(f)+"#"+gl.Name()+itoa(n), i.Pos(), "package variable %s, which the pinned tree does not have, is %s outside package initialisation", gl.Name(), how)
		})
	}
	if n == 0 {
		ctx.OK("GS", "packages#no-new-shared-state", token.NoPos, "no new package-level variable is modified outside initialisation in %v (%d new variables seen, all read-only)", pkgs, examined)
	}
}
