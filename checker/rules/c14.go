package rules

import (
	"go/token"
	"sort"
	"strings"

	"golang.org/x/tools/go/ssa"

	"verif/checker/core"
	"verif/checker/ssax"
)

func init() {
	Registry["C14"] = Spec{Run: runC14, Configs: notPlan9, MayFailToLoad: func(c core.Config, msg string) bool { return c.GOOS == "plan9" }}
}

const txtarFile = "golang.org/x/tools/txtar"

func runC14(ctx *core.Ctx) {
	c14Round6(ctx)
	c14Round5(ctx)
	ctx.Trusted = append(ctx.Trusted, "go/types, go/ssa", "library-fact table of the bounds engine", "bytes.Replace, bytes.TrimPrefix, utf8.Valid, append are total")
	ctx.Rule("Q2", "Quote/Unquote refuse rather than guess: every nil-error return with non-nil data is dominated by the shape checks (Quote: last byte is newline, utf8.Valid; Unquote: first byte '>' and last byte newline)", 2)
	ctx.Rule("Q3", "totality of NeedsQuote, Quote, Unquote (bounds engine over all reachable module functions)", 1)
	ctx.Rule("Q6", "Quote prefixes every line: inside the loop over the input every path to the '>' append establishes a line start (the carried previous byte, starting as a newline, equals newline; or index == 0; or data[i-1] == newline), every path that copies a byte without passing the '>' append has every such test false, and every iteration copies its byte; any extra condition leaves some line without the prefix that Unquote removes from every line", 1)
	ctx.Rule("Q4", "caller protocol: in txtar-c and testscript's script updater every value stored as a txtar file body is either the result of a successful Quote or a value for which NeedsQuote was consulted and returned false", 2)

	parse := ctx.Need("Q1", "txtar", "Parse")
	nq := ctx.Need("Q1", "txtar", "NeedsQuote")
	quote := ctx.Need("Q2", "txtar", "Quote")
	unquote := ctx.Need("Q2", "txtar", "Unquote")
	if parse == nil || nq == nil || quote == nil || unquote == nil {
		return
	}
	p := ctx.P

	needsQuoteExact(ctx, "Q1", "Q5")
	scanFromCandidate(ctx, "Q8")
	parseFileRaw(ctx, "Q9")

	// ---- Q6: Quote prefixes every line and copies every byte
	{
		g := graph(p, quote)
		data := quote.Params[0]
		isByteAppend := func(c *ssa.Call, elem func(ssa.Value) bool) bool {
			if !isBuiltinCall(c, "append") || len(c.Call.Args) != 2 {
				return false
			}
			el := variadicElems(c.Call.Args[1])
			return len(el) == 1 && elem(el[0])
		}
		// "this byte starts a line" is written either with a carried previous byte (starting as a
		// newline) or with the index: i == 0 || data[i-1] == newline
		isPrev := func(v ssa.Value) bool {
			ph, ok := v.(*ssa.Phi)
			if !ok {
				return false
			}
			nl, loads := 0, 0
			for _, e := range ph.Edges {
				if k, isK := ssax.ConstInt(e); isK && k == '\n' {
					nl++
				} else if isElemLoad(data, nil)(e) {
					loads++
				} else {
					return false
				}
			}
			return nl == 1 && loads >= 1
		}
		isIdx := func(v ssa.Value) bool {
			ph, _, d, ok := counter(v)
			if !ok || d != 0 {
				return false
			}
			in := counterInit(ph)
			k, isK := ssax.ConstInt(in)
			return isK && k == 0
		}
		isPrevElem := isElemLoad(data, func(ix ssa.Value) bool {
			b, ok := ix.(*ssa.BinOp)
			return ok && b.Op == token.SUB && isIdx(b.X) && isConstIntV(1)(b.Y)
		})
		type atom struct {
			name string
			is   func(f ssax.Fact) (holds bool, ok bool)
		}
		mk := func(name string, x, y func(ssa.Value) bool) atom {
			return atom{name, func(f ssax.Fact) (bool, bool) {
				if cmpFact([]ssax.Fact{f}, token.EQL, x, y) {
					return true, true
				}
				if cmpFact([]ssax.Fact{f}, token.NEQ, x, y) {
					return false, true
				}
				return false, false
			}}
		}
		atoms := []atom{mk("previous byte == newline", isPrev, isConstIntV('\n')), mk("index == 0", isIdx, isConstIntV(0)), mk("data[i-1] == newline", isPrevElem, isConstIntV('\n'))}
		present := make([]bool, len(atoms))
		for _, b := range quote.Blocks {
			if !g.Reach[b.Index] {
				continue
			}
			for _, sc := range g.Succs[b.Index] {
				if f, ok := g.EdgeFact(b.Index, sc); ok {
					for k, a := range atoms {
						if _, is := a.is(f); is {
							present[k] = true
						}
					}
				}
			}
		}
		var gt, cp []*ssa.Call
		g.Instrs(func(i ssa.Instruction) {
			c, ok := i.(*ssa.Call)
			if !ok {
				return
			}
			if isByteAppend(c, isConstIntV('>')) {
				gt = append(gt, c)
			}
			if isByteAppend(c, isElemLoad(data, nil)) {
				cp = append(cp, c)
			}
		})
		complete := present[0] || (present[1] && present[2])
		if len(gt) != 1 || len(cp) != 1 || !complete {
			ctx.Unknown("Q6", "txtar.Quote#loop", quote.Pos(), "expected one append of '>' and one append of the current byte in a loop that tests for a line start (a carried previous byte, or index == 0 || data[i-1] == newline); found %d, %d, tests %v: shape not recognised", len(gt), len(cp), present)
		} else {
			why := ""
			// only at a line start: every path to the '>' append establishes one of the atoms
			if !onAllPaths(g, gt[0], nil, func(f ssax.Fact) bool {
				for k, a := range atoms {
					if holds, is := a.is(f); is && holds && present[k] {
						return true
					}
				}
				return false
			}) {
				why = "the '>' append can be reached without a line start having been established"
			}
			// at every line start: a path that reaches the copy without the '>' append has
			// every line-start test false
			gtBlock := gt[0].Block().Index
			for k, a := range atoms {
				if !present[k] {
					continue
				}
				a := a
				if !onAllPathsVia(g, cp[0], nil, func(f ssax.Fact) bool {
					holds, is := a.is(f)
					return is && !holds
				}, func(b int) bool { return b == gtBlock }) {
					why = "a byte can be copied without a '>' before it although '" + a.name + "' was not found false: some line starts get no prefix, and Unquote cannot restore them"
				}
			}
			if l, inLoop := innermostLoop(g, cp[0].Block().Index); !inLoop {
				why = "the copy is not in a loop"
			} else {
				for _, latch := range g.Preds[l.Header] {
					if l.Blocks[latch] && !g.DomBlock(cp[0].Block().Index, latch) {
						why = "an iteration can skip copying its byte"
					}
				}
			}
			ctx.Check(why == "", "Q6", "txtar.Quote#every-line-prefixed", gt[0].Pos(), "inside Quote's loop a '>' is appended exactly at line starts and every byte is copied %s", why)
		}
	}
	unquoteShape(ctx, "Q7")
	inputReadOnly(ctx, "RO", []*ssa.Function{nq, quote, unquote})

	// ---- Q2
	checkRefuse := func(f *ssa.Function, need func(facts []ssax.Fact, data ssa.Value) []string) {
		g := graph(p, f)
		data := f.Params[0]
		n := 0
		for _, r := range g.Returns() {
			if !ssax.IsNil(r.Results[1]) {
				continue
			}
			n++
			key := shortFn(f) + "#ok-return" + itoa(n)
			if ssax.IsNil(r.Results[0]) {
				// nil data, nil error: only acceptable for empty input
				if cmpFact(g.FactsAtInstr(r), token.EQL, isLenOf(data), isConstIntV(0)) {
					ctx.OK("Q2", key, r.Pos(), "nil result only for empty input")
				} else {
					ctx.Bad("Q2", key, r.Pos(), "returns (nil, nil) for input not known to be empty")
				}
				continue
			}
			missing := need(g.FactsAtInstr(r), data)
			if len(missing) == 0 {
				ctx.OK("Q2", key, r.Pos(), "success return dominated by all shape checks")
			} else {
				ctx.Bad("Q2", key, r.Pos(), "success return not dominated by: %v", missing)
			}
		}
		if n == 0 {
			ctx.Unknown("Q2", shortFn(f), f.Pos(), "no nil-error return found")
		}
	}
	lastByte := func(data ssa.Value) func(ssa.Value) bool { return isElemLoad(data, isLenMinus(data, 1)) }
	checkRefuse(quote, func(facts []ssax.Fact, data ssa.Value) []string {
		var miss []string
		if !cmpFact(facts, token.EQL, lastByte(data), isConstIntV('\n')) {
			miss = append(miss, "last byte == '\\n'")
		}
		if !hasFact(facts, true, isCallOf([]string{"unicode/utf8.Valid"}, isVal(data))) {
			miss = append(miss, "utf8.Valid(data)")
		}
		return miss
	})
	checkRefuse(unquote, func(facts []ssax.Fact, data ssa.Value) []string {
		var miss []string
		if !cmpFact(facts, token.EQL, lastByte(data), isConstIntV('\n')) {
			miss = append(miss, "last byte == '\\n'")
		}
		if !cmpFact(facts, token.EQL, isElemLoad(data, isConstIntV(0)), isConstIntV('>')) {
			miss = append(miss, "first byte == '>'")
		}
		return miss
	})

	// ---- Q3
	totality(ctx, []*ssa.Function{nq, quote, unquote}, totalOpts{rule: "Q3"})

	// ---- Q4
	quoteProtocol(ctx, "Q4", []string{"cmd/txtar-c", "testscript"})
}

// quoteProtocol checks every store into txtar.File.Data in the given packages.
func quoteProtocol(ctx *core.Ctx, rule string, pkgs []string) {
	p := ctx.P
	const NQ = core.ModPath + "/txtar.NeedsQuote"
	const Q = core.ModPath + "/txtar.Quote"
	for _, rel := range pkgs {
		sp := p.Pkg(rel)
		if sp == nil {
			ctx.Unknown(rule, rel, token.NoPos, "package %s not loaded", rel)
			continue
		}
		for _, f := range p.ModFuncs() {
			top := f
			for top.Parent() != nil {
				top = top.Parent()
			}
			if top.Pkg != sp {
				continue
			}
			g := graph(p, f)
			n := 0
			g.Instrs(func(i ssa.Instruction) {
				st, ok := i.(*ssa.Store)
				if !ok {
					return
				}
				fa, ok := st.Addr.(*ssa.FieldAddr)
				if !ok {
					return
				}
				fld := ssax.FieldOf(fa)
				if fld == nil || fld.Name() != "Data" || !isNamed(fa.X.Type(), txtarFile, "File") {
					return
				}
				n++
				key := shortFn(f) + "#store-Data" + itoa(n)
				ctx.Seen(f)
				// check value per incoming path
				var check func(v ssa.Value, facts []ssax.Fact, depth int) string
				check = func(v ssa.Value, facts []ssax.Fact, depth int) string {
					if hasFact(facts, false, isCallOf([]string{NQ}, sameData(v))) {
						return ""
					}
					if phi, ok := v.(*ssa.Phi); ok && depth < 4 {
						for k, e := range phi.Edges {
							pred := phi.Block().Preds[k]
							if !g.Reach[pred.Index] {
								continue
							}
							if why := check(e, factsOnEdge(g, pred, phi.Block()), depth+1); why != "" {
								return why
							}
						}
						return ""
					}
					if ex, ok := v.(*ssa.Extract); ok && ex.Index == 0 {
						if c, ok := ex.Tuple.(*ssa.Call); ok && ssax.CalleeName(&c.Call) == Q {
							errv := ssax.Extracted(c, 1)
							if errv != nil && ssax.KnownNil(facts, errv, true) {
								return ""
							}
							return "result of Quote used without its error known to be nil"
						}
					}
					if hasFact(facts, false, isCallOf([]string{NQ}, sameData(v))) {
						return ""
					}
					// NeedsQuote(x) false where v is derived from the same x by conversion
					for _, fct := range facts {
						if c, ok := fct.Cond.(*ssa.Call); ok && !fct.Val && ssax.CalleeName(&c.Call) == NQ {
							if sameData(c.Call.Args[0])(v) || sameData(v)(c.Call.Args[0]) {
								return ""
							}
						}
					}
					return "value stored without NeedsQuote having returned false for it"
				}
				if why := check(st.Val, g.FactsAtInstr(st), 0); why == "" {
					ctx.OK(rule, key, st.Pos(), "file body is NeedsQuote-negative or a successfully quoted value on every incoming path")
				} else {
					ctx.Bad(rule, key, st.Pos(), "%s", why)
				}
			})
		}
	}
}

// needsQuoteExact implements the NeedsQuote rules (C14.Q1 and Q5); C16 re-uses
// them because its quoting clause holds only if NeedsQuote is exact.
func needsQuoteExact(ctx *core.Ctx, q1, q5 string) {
	ctx.Rule(q1, "one marker predicate: the parser (Parse) and NeedsQuote both call the same marker-search function; the result component on which Parse's loop decides 'a marker was found' is the only component NeedsQuote's verdict may depend on", 1)
	ctx.Rule(q5, "normalisation agreement: Format terminates every body with a newline; NeedsQuote applies the marker search to the body normalised by the same final-newline fix the parser uses, so a last line that is a marker only once terminated is detected", 1)
	p := ctx.P
	parse := ctx.Need(q1, "txtar", "Parse")
	nq := ctx.Need(q1, "txtar", "NeedsQuote")
	if parse == nil || nq == nil {
		return
	}
	// ---- Q1
	// the search function: static callee common to Parse and NeedsQuote returning a tuple
	calleesOf := func(f *ssa.Function) map[*ssa.Function][]*ssa.Call {
		m := map[*ssa.Function][]*ssa.Call{}
		graph(p, f).Instrs(func(i ssa.Instruction) {
			if c, ok := i.(*ssa.Call); ok {
				if cal := c.Call.StaticCallee(); cal != nil && core.InModule(cal) && cal.Signature.Results().Len() > 1 {
					m[cal] = append(m[cal], c)
				}
			}
		})
		return m
	}
	pc, nc := calleesOf(parse), calleesOf(nq)
	var search *ssa.Function
	for f := range pc {
		if _, ok := nc[f]; ok {
			search = f
		}
	}
	if search == nil {
		ctx.Unknown(q1, "txtar.NeedsQuote", nq.Pos(), "Parse and NeedsQuote share no marker-search function: the sibling rule cannot be instantiated")
	} else {
		// discriminator: which Extract index of search's result decides Parse's loop
		disc := map[int]bool{}
		gp := graph(p, parse)
		gp.Instrs(func(i ssa.Instruction) {
			ifi, ok := i.(*ssa.If)
			if !ok {
				return
			}
			for idx := 0; idx < search.Signature.Results().Len(); idx++ {
				idx := idx
				if ssax.DerivedFrom(ifi.Cond, func(v ssa.Value) bool {
					e, ok := v.(*ssa.Extract)
					if !ok || e.Index != idx {
						return false
					}
					c, ok := e.Tuple.(*ssa.Call)
					return ok && c.Call.StaticCallee() == search
				}, nil) {
					disc[idx] = true
				}
			}
		})
		used := map[int]bool{}
		constReturn := false
		for _, r := range graph(p, nq).Returns() {
			if _, isConst := ssax.ConstBool(ssax.ReturnValues(r)[0]); isConst {
				constReturn = true
				ctx.Bad(q1, "txtar.NeedsQuote#constant-verdict", r.Pos(), "NeedsQuote returns a constant on this path without consulting the marker search: its verdict is exact only if every path decides by the search the parser uses (a shortcut test such as 'contains \" --\\n\"' misses CRLF-terminated and unterminated final marker lines)")
			}
			for idx := 0; idx < search.Signature.Results().Len(); idx++ {
				idx := idx
				if ssax.DerivedFrom(r.Results[0], func(v ssa.Value) bool {
					e, ok := v.(*ssa.Extract)
					if !ok || e.Index != idx {
						return false
					}
					c, ok := e.Tuple.(*ssa.Call)
					return ok && c.Call.StaticCallee() == search
				}, nil) {
					used[idx] = true
				}
			}
		}
		// the search's own discriminator (constant-empty on its no-marker return, known non-empty on a hit)
		sd, _, _ := discriminator(p, search)
		for k := range disc {
			if !sd[k] {
				delete(disc, k)
			}
		}
		if len(disc) == 0 {
			disc = sd
		}
		_ = constReturn
		same := len(disc) > 0 && len(used) > 0
		for k := range used {
			if !disc[k] {
				same = false
			}
		}
		names := func(m map[int]bool) []string {
			var out []string
			for k := range m {
				out = append(out, search.Signature.Results().At(k).Name()+"#"+itoa(k))
			}
			sort.Strings(out)
			return out
		}
		if same {
			ctx.OK(q1, "txtar.NeedsQuote", nq.Pos(), "NeedsQuote decides on %v of %s, the component Parse's loop tests (%v)", names(used), shortFn(search), names(disc))
		} else {
			ctx.Bad(q1, "txtar.NeedsQuote", nq.Pos(), "NeedsQuote decides on result component %v of %s but Parse recognises a marker by component %v: the two disagree whenever those components disagree (e.g. a marker on a final line without newline)", names(used), shortFn(search), names(disc))
		}
	}

	// ---- Q5: NeedsQuote must decide on the body as Format will write it
	if search != nil {
		var norm *ssa.Function
		graph(p, search).Instrs(func(i ssa.Instruction) {
			if c, ok := i.(*ssa.Call); ok {
				if cal := c.Call.StaticCallee(); cal != nil && core.InModule(cal) && cal.Signature.Params().Len() == 1 && cal.Signature.Results().Len() == 1 &&
					cal.Signature.Params().At(0).Type().String() == "[]byte" && cal.Signature.Results().At(0).Type().String() == "[]byte" {
					norm = cal
				}
			}
		})
		if norm == nil {
			ctx.Unknown(q5, "txtar.NeedsQuote#normalised", nq.Pos(), "final-newline normaliser of the marker search not found")
		} else {
			for _, c := range nc[search] {
				arg := c.Call.Args[0]
				ac, ok := arg.(*ssa.Call)
				okNorm := ok && ac.Call.StaticCallee() == norm && ac.Call.Args[0] == ssa.Value(nq.Params[0])
				ctx.Check(okNorm, q5, "txtar.NeedsQuote#normalised", c.Pos(), "NeedsQuote searches %s(data), the body with the final newline Format will add: a last line that becomes a marker only once terminated (e.g. \"-- x --\\r\" -> \"-- x --\\r\\n\") must count", shortFn(norm))
			}
		}
	}

}

// unquoteShape implements C14.Q7 (also used by C15, whose round trip restores quoted files with Unquote).
func unquoteShape(ctx *core.Ctx, rule string) {
	p := ctx.P
	ctx.Rule(rule, "Unquote removes one prefix per line: no cut-set trimming (Trim/TrimLeft/TrimRight with '>' in the set) and no Replace with a non-negative count on the data; a line that began with '>' before quoting begins with '>>' after it, and only the first may go", 1)
	unquote := ctx.Need(rule, "txtar", "Unquote")
	if unquote == nil {
		return
	}
	{
		g := graph(p, unquote)
		bad := ""
		n := 0
		g.Instrs(func(i ssa.Instruction) {
			c, ok := i.(*ssa.Call)
			if !ok {
				return
			}
			name := ssax.CalleeName(&c.Call)
			switch name {
			case "bytes.TrimLeft", "bytes.Trim", "bytes.TrimRight", "strings.TrimLeft", "strings.Trim", "strings.TrimRight":
				if cut, ok := ssax.ConstString(c.Call.Args[1]); ok && strings.Contains(cut, ">") {
					bad = name + " strips a run of '>' where Quote added exactly one"
				}
			case "bytes.TrimPrefix", "strings.TrimPrefix", "bytes.Replace", "bytes.ReplaceAll", "strings.Replace", "strings.ReplaceAll", "bytes.CutPrefix":
				n++
			}
			if (name == "bytes.Replace" || name == "strings.Replace") && len(c.Call.Args) == 4 {
				if k, ok := ssax.ConstInt(c.Call.Args[3]); ok && k >= 0 {
					bad = name + " with a non-negative count leaves later lines quoted"
				}
			}
		})
		ctx.Check(bad == "", rule, "txtar.Unquote#one-prefix-per-line", unquote.Pos(), "Unquote never strips a run of '>' bytes and never limits the number of lines it unquotes %s", bad)
	}

}
