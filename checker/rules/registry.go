// Package rules holds one rule table per property.
package rules

import (
	"sort"

	"verif/checker/core"
)

type Spec struct {
	Run func(*core.Ctx)
	// Configs selects the build configurations analysed in the thorough tier
	// (nil = all).
	Configs func(core.Config) bool
	// MayFailToLoad reports load failures that are an upstream condition of the
	// repository in that configuration rather than a verdict.
	MayFailToLoad func(core.Config, string) bool
}

var Registry = map[string]Spec{}

func IDs() []string {
	var ids []string
	for id := range Registry {
		ids = append(ids, id)
	}
	sort.Strings(ids)
	return ids
}

func notPlan9(c core.Config) bool { return c.GOOS != "plan9" }
