// Package rules holds one rule table per property.
package rules

import (
	"sort"

	"verif/checker/core"
)

type Spec struct {
	Run func(*core.Ctx)
	// Configs selects the build configurations analysed in the thorough tier
	// (nil = all).
	Configs func(core.Config) bool
	// MayFailToLoad reports load failures that are an upstream condition of the
	// repository in that configuration rather than a verdict.
	MayFailToLoad func(core.Config, string) bool
	// Packages lists the module-relative packages the property is anchored in; type errors
	// elsewhere in the module (in some configuration) do not prevent the analysis.
	Packages []string
}

var Registry = map[string]Spec{}

func IDs() []string {
	var ids []string
	for id := range Registry {
		ids = append(ids, id)
	}
	sort.Strings(ids)
	return ids
}

func notPlan9(c core.Config) bool { return c.GOOS != "plan9" }
