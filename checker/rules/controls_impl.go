package rules

func runControls(checkerDir string) ([]string, error) { return nil, nil }
