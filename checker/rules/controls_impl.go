package rules

import (
	"fmt"
	"go/token"
	"go/types"
	"os"
	"strings"

	"golang.org/x/tools/go/packages"
	"golang.org/x/tools/go/ssa"
	"golang.org/x/tools/go/ssa/ssautil"

	"verif/checker/boundx"
	"verif/checker/inl"
	"verif/checker/ssax"
)

// runControls loads the fixture package and requires each engine primitive to
// fire on the broken twin and stay silent on the sound one.
func runControls(checkerDir string) ([]string, error) {
	env := append(os.Environ(), "GOFLAGS=-mod=mod", "GOPROXY=off", "GOSUMDB=off", "GOWORK=off", "GOTOOLCHAIN=local", "GOOS=linux", "GOARCH=amd64", "CGO_ENABLED=0")
	pkgs, err := packages.Load(&packages.Config{Mode: packages.LoadAllSyntax, Dir: checkerDir, Env: env}, "./fixtures/ctl")
	if err != nil || len(pkgs) != 1 || len(pkgs[0].Errors) > 0 {
		return nil, fmt.Errorf("cannot load fixture package: %v %v", err, pkgs)
	}
	prog, sps := ssautil.AllPackages(pkgs, ssa.InstantiateGenerics)
	prog.Build()
	sp := sps[0]
	var fns []*ssa.Function
	for _, m := range sp.Members {
		if f, ok := m.(*ssa.Function); ok {
			fns = append(fns, f)
		}
	}
	tt := sp.Type("T")
	ptrTo := func(t *ssa.Type) types.Type { return types.NewPointer(t.Type()) }
	ms := prog.MethodSets.MethodSet(tt.Type())
	_ = ms
	method := func(name string) *ssa.Function {
		for _, m := range sp.Members {
			_ = m
		}
		ptr := prog.MethodSets.MethodSet(ptrTo(tt))
		sel := ptr.Lookup(sp.Pkg, name)
		if sel == nil {
			return nil
		}
		return prog.MethodValue(sel)
	}
	for _, n := range []string{"fatal", "LockGood", "LockBad"} {
		if f := method(n); f != nil {
			fns = append(fns, f)
		}
	}
	nr := ssax.ComputeNoRet(fns)
	env2 := boundx.NewEnv([]*ssa.Package{sp})
	g := func(name string) *ssax.Graph {
		f := sp.Func(name)
		if f == nil {
			f = method(name)
		}
		return ssax.NewGraph(f, nr)
	}
	var fired []string
	fail := func(format string, a ...any) ([]string, error) {
		return nil, fmt.Errorf(format, a...)
	}
	unproved := func(name string) int {
		n := 0
		for _, s := range boundx.New(g(name), env2, nil).Sites() {
			if !s.OK {
				n++
			}
		}
		return n
	}
	// bounds
	if unproved("BoundsBad") == 0 || unproved("BoundsGood") != 0 {
		return fail("bounds control: bad=%d good=%d", unproved("BoundsBad"), unproved("BoundsGood"))
	}
	fired = append(fired, "bounds")
	// no-return pruning
	if !nr.Names[ssax.FuncName(method("fatal"))] {
		return fail("no-return control: fatal not classified")
	}
	if unproved("GuardBad") == 0 || unproved("GuardGood") != 0 {
		return fail("guard control: bad=%d good=%d", unproved("GuardBad"), unproved("GuardGood"))
	}
	fired = append(fired, "no-return-pruning")
	// memory-equivalent loads
	if unproved("CanonBad") == 0 || unproved("CanonGood") != 0 {
		return fail("canon control: bad=%d good=%d", unproved("CanonBad"), unproved("CanonGood"))
	}
	fired = append(fired, "memory-equivalent-loads")
	// must-pass-through
	leaks := func(name string) int {
		gr := g(name)
		var open *ssa.Call
		for _, c := range gr.Calls("os.Open") {
			open = c
		}
		errv := ssax.Extracted(open, 1)
		n := 0
		for _, b := range gr.Fn.Blocks {
			if !gr.Reach[b.Index] || !ssax.KnownNil(gr.FactsAt(b.Index), errv, true) {
				continue
			}
			if id := gr.Idom(b.Index); id >= 0 && ssax.KnownNil(gr.FactsAt(id), errv, true) {
				continue
			}
			n += len(gr.MustPass(ssax.Point{Block: b.Index}, func(i ssa.Instruction) bool {
				c := ssax.CallOf(i)
				return c != nil && ssax.CalleeName(c) == "(*os.File).Close"
			}, false))
		}
		return n
	}
	if leaks("CloseBad") == 0 || leaks("CloseGood") != 0 {
		return fail("must-pass control: bad=%d good=%d", leaks("CloseBad"), leaks("CloseGood"))
	}
	fired = append(fired, "must-pass-through")
	// lockset
	held := func(name string) bool {
		f := method(name)
		delete(lockCache, f)
		gr := ssax.NewGraph(f, nr)
		li := &lockInfo{in: map[int]map[string]bool{}, g: gr}
		_ = li
		ok := false
		gr.Instrs(func(i ssa.Instruction) {
			u, isU := i.(*ssa.UnOp)
			if !isU || u.Op != token.MUL {
				return
			}
			fa, isFA := u.X.(*ssa.FieldAddr)
			if !isFA || ssax.FieldOf(fa).Name() != "count" {
				return
			}
			ok = locksetWith(gr, f, u)["t.mu"]
		})
		return ok
	}
	if held("LockBad") || !held("LockGood") {
		return fail("lockset control: bad=%v good=%v", held("LockBad"), held("LockGood"))
	}
	fired = append(fired, "lockset")
	// explorer
	normalAfterFail := func(name string) bool {
		gr := g(name)
		var st *ssa.Store
		gr.Instrs(func(i ssa.Instruction) {
			if s, ok := i.(*ssa.Store); ok {
				if k, ok := ssax.ConstBool(s.Val); ok && k {
					st = s
				}
			}
		})
		ex := &ssax.Explorer{G: gr}
		for _, e := range ex.Run(ssax.PointAt(st)) {
			if e.Kind == ssax.ExitReturn {
				return true
			}
		}
		return false
	}
	if !normalAfterFail("FlagBad") || normalAfterFail("FlagGood") {
		return fail("explorer control: bad=%v good=%v", normalAfterFail("FlagBad"), normalAfterFail("FlagGood"))
	}
	if !normalAfterFail("FieldFlagBad") || normalAfterFail("FieldFlagGood") {
		return fail("explorer control (struct fields): bad=%v good=%v", normalAfterFail("FieldFlagBad"), normalAfterFail("FieldFlagGood"))
	}
	fired = append(fired, "path-sensitive-explorer")
	// all paths
	guarded := func(name string) bool {
		gr := g(name)
		var use *ssa.Call
		var nameV ssa.Value
		for _, c := range gr.Calls(sp.Pkg.Path() + ".use") {
			use = c
			nameV = c.Call.Args[0]
		}
		return onAllPaths(gr, use, nameV, func(f ssax.Fact) bool {
			c, ok := f.Cond.(*ssa.Call)
			return ok && f.Val && (strings.HasSuffix(ssax.CalleeName(&c.Call), ".hasA") || strings.HasSuffix(ssax.CalleeName(&c.Call), ".hasD"))
		})
	}
	if guarded("AllPathsBad") || !guarded("AllPathsGood") {
		return fail("all-paths control: bad=%v good=%v", guarded("AllPathsBad"), guarded("AllPathsGood"))
	}
	fired = append(fired, "all-paths-disjunction")
	// edge facts
	gated := func(name string) bool {
		gr := g(name)
		for _, r := range gr.Returns() {
			if ssax.IsNil(r.Results[0]) {
				continue
			}
			return hasFact(gr.FactsAtInstr(r), true, func(v ssa.Value) bool { _, ok := v.(*ssa.Parameter); return ok }) &&
				hasFact(gr.FactsAtInstr(r), true, func(v ssa.Value) bool { b, ok := v.(*ssa.BinOp); return ok && b.Op == token.EQL })
		}
		return false
	}
	if gated("GateBad") || !gated("GateGood") {
		return fail("edge-fact control: bad=%v good=%v", gated("GateBad"), gated("GateGood"))
	}
	fired = append(fired, "edge-facts")
	// facts about phis (unfolded through the merge) feed the bounds engine
	if unproved("PhiBad") == 0 || unproved("PhiGood") != 0 {
		return fail("phi-fact control: bad=%d good=%d", unproved("PhiBad"), unproved("PhiGood"))
	}
	fired = append(fired, "phi-facts")
	// twin comparisons narrow merges
	knowsParam := func(name string) bool {
		gr := g(name)
		fn := gr.Fn
		q := fn.Params[len(fn.Params)-1]
		for _, c := range gr.Calls(sp.Pkg.Path() + ".use2") {
			for _, f := range gr.FactsAtInstr(c) {
				if os.Getenv("VERIF_DBG") != "" {
					fmt.Fprintf(os.Stderr, "%s: fact %v=%v nilof=%v\n", name, f.Cond, f.Val, f.NilOf)
				}
				if f.Cond == ssa.Value(q) && f.Val {
					return true
				}
			}
		}
		return false
	}
	if !knowsParam("TwinGood") || knowsParam("TwinBad") {
		return fail("merge-fact control: good=%v bad=%v", knowsParam("TwinGood"), knowsParam("TwinBad"))
	}
	fired = append(fired, "merge-facts")
	// counted loops
	rangeOf := func(name string) (int64, int64, string) {
		gr := g(name)
		for _, c := range gr.Calls(sp.Pkg.Path() + ".use2") {
			return bodyRange(gr, c, c.Call.Args[0])
		}
		return 0, 0, "no call"
	}
	for _, n := range []string{"CountGood", "CountClassic"} {
		if lo, hi, why := rangeOf(n); why != "" || lo != 0 || hi != 256 {
			return fail("counted-loop control: %s gives [%d,%d) %s", n, lo, hi, why)
		}
	}
	if lo, hi, why := rangeOf("CountBad"); why != "" || lo != 0 || hi != 255 {
		return fail("counted-loop control: CountBad gives [%d,%d) %s", lo, hi, why)
	}
	fired = append(fired, "counted-loops")
	// the normaliser dissolves a function the reference list does not have
	var overlay map[string][]byte
	npkgs := pkgs
	for round := 0; round < 4; round++ {
		next, _, _ := inl.Normalize(npkgs, checkerDir, "verif/checker/fixtures/ctl", overlay)
		if next == nil {
			break
		}
		overlay = next
		var err error
		npkgs, err = packages.Load(&packages.Config{Mode: packages.LoadAllSyntax, Dir: checkerDir, Env: env, Overlay: overlay}, "./fixtures/ctl")
		if err != nil || len(npkgs) != 1 || len(npkgs[0].Errors) > 0 {
			return fail("normaliser control: rewritten fixture does not load: %v %v", err, npkgs[0].Errors)
		}
	}
	if overlay == nil {
		return fail("normaliser control: nothing was rewritten")
	}
	nprog, nsps := ssautil.AllPackages(npkgs, ssa.InstantiateGenerics)
	nprog.Build()
	ng := ssax.NewGraph(nsps[0].Func("InlCaller"), nr)
	if len(ng.Calls("os.Open")) != 1 || len(ng.Calls(sp.Pkg.Path()+".inlOpen")) != 0 {
		return fail("normaliser control: os.Open calls in InlCaller=%d, calls of the helper=%d", len(ng.Calls("os.Open")), len(ng.Calls(sp.Pkg.Path()+".inlOpen")))
	}
	// and the merged error is seen through: Close is reached only when the open succeeded
	okThrough := false
	for _, c := range ng.Calls("(*os.File).Close") {
		open := ng.Calls("os.Open")[0]
		okThrough = ssax.KnownNil(ng.FactsAtInstr(c), ssax.Extracted(open, 1), true) || ng.Dominates(open, c)
	}
	if !okThrough {
		return fail("normaliser control: facts do not carry through the inlined helper")
	}
	// a loop over a constant table is written out: no loop left, both offsets tested as constants
	tg := ssax.NewGraph(nsps[0].Func("InlTable"), nr)
	consts := map[int64]bool{}
	loops := false
	tg.Instrs(func(i ssa.Instruction) {
		if ia, ok := i.(*ssa.IndexAddr); ok {
			if k, isK := ssax.ConstInt(ia.Index); isK {
				consts[k] = true
			}
		}
	})
	loops = len(loopsOf(tg)) > 0
	if !consts[1] || !consts[3] || loops || len(tg.Calls(sp.Pkg.Path()+".inlLayout")) != 0 {
		return fail("normaliser control: table loop not written out (constant offsets seen %v, loop left %v)", consts, loops)
	}
	// a helper whose defers come first is merged with the deferred call made after its body
	dg := ssax.NewGraph(nsps[0].Func("InlDeferCaller"), nr)
	nDefer := 0
	dg.Instrs(func(i ssa.Instruction) {
		if _, ok := i.(*ssa.Defer); ok {
			nDefer++
		}
	})
	stats, closes := dg.Calls("(*os.File).Stat"), dg.Calls("(*os.File).Close")
	if len(stats) != 1 || len(closes) != 1 || nDefer != 0 || len(dg.Calls(sp.Pkg.Path()+".inlStatAndClose")) != 0 || !dg.Dominates(stats[0], closes[0]) {
		return fail("normaliser control: leading-defer merge (Stat calls %d, Close calls %d, defers left %d)", len(stats), len(closes), nDefer)
	}
	fired = append(fired, "normaliser")
	return fired, nil
}
