package rules

import (
	"go/types"

	"golang.org/x/tools/go/ssa"

	"verif/checker/core"
	"verif/checker/ssax"
)

// writeSite is a store into a struct field or package-level variable.
type writeSite struct {
	Fn    *ssa.Function
	Instr ssa.Instruction
	Field *types.Var  // non-nil for a field write
	Glob  *ssa.Global // non-nil for a package-level variable
	Base  ssa.Value   // for field writes: the struct pointer
	Kind  string      // store | mapupdate | addr-escape
}

// rootOf walks an address back to its root object.
func rootOf(v ssa.Value) (fld *types.Var, base ssa.Value, glob *ssa.Global) {
	for depth := 0; depth < 10; depth++ {
		switch x := v.(type) {
		case *ssa.FieldAddr:
			f := ssax.FieldOf(x)
			// outermost named field on the path wins; keep walking for globals
			if _, _, g := rootOf(x.X); g != nil {
				return f, x.X, g
			}
			return f, x.X, nil
		case *ssa.IndexAddr:
			v = x.X
		case *ssa.Global:
			return nil, nil, x
		case *ssa.UnOp:
			v = x.X
		case *ssa.Lookup:
			v = x.X
		default:
			return nil, nil, nil
		}
	}
	return nil, nil, nil
}

// writesIn lists field and global writes performed directly by f.
func writesIn(p *core.Prog, f *ssa.Function) []writeSite {
	var out []writeSite
	g := graph(p, f)
	g.Instrs(func(i ssa.Instruction) {
		switch x := i.(type) {
		case *ssa.Store:
			fld, base, gl := rootOf(x.Addr)
			if fld != nil || gl != nil {
				out = append(out, writeSite{f, i, fld, gl, base, "store"})
			}
		case *ssa.MapUpdate:
			fld, base, gl := rootOf(x.Map)
			if fld != nil || gl != nil {
				out = append(out, writeSite{f, i, fld, gl, base, "mapupdate"})
			}
		}
	})
	return out
}

// fieldWriters returns, for a struct type's field name, all functions in the
// module that store to it.
func fieldWriters(p *core.Prog, pkgPath, typeName, field string) []writeSite {
	var out []writeSite
	for _, f := range p.ModFuncs() {
		for _, w := range writesIn(p, f) {
			if w.Field != nil && w.Field.Name() == field && isNamed(w.Base.Type(), pkgPath, typeName) {
				out = append(out, w)
			}
		}
	}
	return out
}

// heldMutexAt reports whether a sync.Mutex/RWMutex Lock on some object
// dominates instr without an intervening Unlock on all paths (simple must-hold).
func lockHeldAt(p *core.Prog, f *ssa.Function, at ssa.Instruction) bool {
	held := locksetAt(p, f, at)
	return len(held) > 0
}
