package rules

import (
	"fmt"
	"go/constant"
	"go/token"
	"strings"

	"golang.org/x/tools/go/ssa"

	"verif/checker/core"
	"verif/checker/ssax"
)

func init() { Registry["C18"] = Spec{Run: runC18, Packages: []string{"imports"}} }

const importsPkg = core.ModPath + "/imports"

// loopsOf returns the natural loops (header, member blocks) of a function.
type natLoop struct {
	Header int
	Blocks map[int]bool
}

func loopsOf(g *ssax.Graph) []natLoop {
	var out []natLoop
	byHeader := map[int]*natLoop{}
	for b := range g.Succs {
		if !g.Reach[b] {
			continue
		}
		for _, h := range g.Succs[b] {
			if !g.DomBlock(h, b) {
				continue
			}
			l := byHeader[h]
			if l == nil {
				l = &natLoop{Header: h, Blocks: map[int]bool{h: true}}
				byHeader[h] = l
			}
			// collect blocks that reach b without passing h
			stack := []int{b}
			for len(stack) > 0 {
				x := stack[len(stack)-1]
				stack = stack[:len(stack)-1]
				if l.Blocks[x] {
					continue
				}
				l.Blocks[x] = true
				stack = append(stack, g.Preds[x]...)
			}
		}
	}
	for _, l := range byHeader {
		out = append(out, *l)
	}
	return out
}

func runC18(ctx *core.Ctx) {
	c18SpaceClass(ctx)
	ctx.Trusted = append(ctx.Trusted, "go/types, go/ssa", "bufio.Reader.ReadByte/Peek/Discard behave as documented")
	p := ctx.P
	ctx.Rule("RI1", "only bytes read: importReader.buf grows only where the byte just returned by a successful ReadByte is appended; every other assignment re-slices it; ReadImports and ReadComments return (a prefix of) that buffer", 4)
	ctx.Rule("RI2", "syntax-error fallback: when the recorded error is the syntax sentinel and syntax errors are not requested, the error is cleared and the reader drains the input in a loop guarded by err/eof before the whole buffer is returned", 1)
	ctx.Rule("RI3", "byte-order mark: the keyword matcher compares raw bytes and the space-skipper does not skip 0xEF, so a leading UTF-8 BOM must be recognised (a comparison with or Peek/Discard of the bytes EF BB BF / U+FEFF) on every path before the first keyword is read", 1)
	ctx.Rule("RI5", "lookahead discipline: the byte on which the identifier and keyword readers decide 'the token ends here' is obtained with peekByte, never with a consuming read", 3)
	ctx.Rule("RI6", "raw reads inside tokens: every peekByte/nextByte call inside a loop of readKeyword, readIdent or readString passes skipSpace=false", 4)
	ctx.Rule("RI7", "identifier byte class: the predicate the identifier reader uses is a pure combination of comparisons of its byte with constants, and the set it accepts - computed exactly over the 256 byte values by splitting the value set at every comparison - is [A-Za-z0-9_] plus every byte >= 0x80", 1)
	ctx.Rule("RI10", "line comments: in peekByte the small loop that skips a // comment compares the current byte with '\\n' only", 0)
	ctx.Rule("RI9", "import names: readImport consumes a single byte as the whole name only on paths where that byte was found equal to '.'; every other name goes through the identifier reader", 1)
	ctx.Rule("RI8", "escapes in interpreted strings: readString contains a consuming read that is executed exactly when the byte just read is a backslash", 1)
	ctx.Rule("RI4", "loop guards: every loop in the functions reachable from ReadImports/ReadComments has an exit whose condition depends on the reader's err/eof state (directly or through peekByte/nextByte, which return 0 once an error is set); the explicit panic is reachable only behind the error-iteration counter", 5)

	ri := ctx.Need("RI1", "imports", "ReadImports")
	rc := ctx.Need("RI1", "imports", "ReadComments")
	if ri == nil || rc == nil {
		return
	}
	isBufLoad := func(v ssa.Value) bool {
		return isFieldLoad("buf")(v)
	}
	// ---- RI1 writers of buf
	nw := 0
	for _, f := range p.ModFuncs() {
		top := f
		for top.Parent() != nil {
			top = top.Parent()
		}
		if top.Pkg != p.Pkg("imports") {
			continue
		}
		g := graph(p, f)
		for _, a := range fieldAccesses(g, importsPkg, "importReader", "buf") {
			st, ok := a.At.(*ssa.Store)
			if !ok || !a.Write {
				if a.Write {
					nw++
					ctx.Bad("RI1", shortFn(f)+"#buf-escape"+itoa(nw), a.At.Pos(), "address of importReader.buf escapes")
				}
				continue
			}
			nw++
			key := shortFn(f) + "#buf-write" + itoa(nw)
			switch v := st.Val.(type) {
			case *ssa.Slice:
				ctx.Check(isBufLoad(v.X), "RI1", key, st.Pos(), "buf re-sliced from itself")
			case *ssa.Call:
				if ssax.CalleeName(&v.Call) != "builtin.append" || !isBufLoad(v.Call.Args[0]) {
					ctx.Bad("RI1", key, st.Pos(), "buf assigned from %s", v)
					continue
				}
				el := variadicElems(v.Call.Args[1])
				okByte := false
				if len(el) == 1 {
					if e, ok := el[0].(*ssa.Extract); ok && e.Index == 0 {
						if c, ok := e.Tuple.(*ssa.Call); ok && ssax.CalleeName(&c.Call) == "(*bufio.Reader).ReadByte" {
							okByte = ssax.KnownNil(g.FactsAtInstr(st), ssax.Extracted(c, 1), true)
						}
					}
				}
				ctx.Check(okByte, "RI1", key, st.Pos(), "buf grows by exactly the byte a successful ReadByte just returned")
			default:
				if ssax.IsNil(st.Val) {
					ctx.OKTrivial("RI1", key, st.Pos(), "buf reset")
				} else {
					ctx.Bad("RI1", key, st.Pos(), "buf assigned a value that is not derived from itself")
				}
			}
		}
	}
	for _, f := range []*ssa.Function{ri, rc} {
		g := graph(p, f)
		for k, r := range g.Returns() {
			v := ssax.ReturnValues(r)[0]
			ok := isBufLoad(v)
			if sl, isSl := v.(*ssa.Slice); isSl {
				ok = isBufLoad(sl.X)
			}
			// the reader must be the one constructed here
			ctx.Check(ok, "RI1", shortFn(f)+"#return"+itoa(k+1), r.Pos(), "returns the read buffer or a prefix of it")
		}
	}
	// ---- RI2
	{
		g := graph(p, ri)
		rep := ri.Params[1]
		found := false
		g.Instrs(func(i ssa.Instruction) {
			st, ok := i.(*ssa.Store)
			if !ok || !ssax.IsNil(st.Val) {
				return
			}
			fa, ok := st.Addr.(*ssa.FieldAddr)
			if !ok || ssax.FieldOf(fa) == nil || ssax.FieldOf(fa).Name() != "err" {
				return
			}
			facts := g.FactsAtInstr(st)
			isSentinel := cmpFact(facts, token.EQL, isFieldLoad("err"), func(v ssa.Value) bool {
				u, ok := v.(*ssa.UnOp)
				if !ok {
					return false
				}
				gl, ok := u.X.(*ssa.Global)
				return ok && gl.Name() == "errSyntax"
			})
			notRequested := hasFact(facts, false, isVal(rep))
			// drain loop after the store: a readByte call in a loop whose exit depends on err/eof, before the final return
			drain := false
			for _, l := range loopsOf(g) {
				if !g.DomBlock(st.Block().Index, l.Header) {
					continue
				}
				hasRead := false
				for b := range l.Blocks {
					for _, ins := range ri.Blocks[b].Instrs {
						if c, ok := ins.(*ssa.Call); ok && strings.HasSuffix(ssax.CalleeName(&c.Call), ".readByte") {
							hasRead = true
						}
					}
				}
				if hasRead && loopGuarded(g, l) {
					drain = true
				}
			}
			// whole buffer returned afterwards
			whole := false
			for _, r := range g.Returns() {
				if hit, _ := g.ReachableWithout(ssax.PointAfter(st), func(i ssa.Instruction) bool { return i == ssa.Instruction(r) }, nil); hit != nil {
					whole = isBufLoad(ssax.ReturnValues(r)[0])
				}
			}
			found = true
			ctx.Check(isSentinel && notRequested && drain && whole, "RI2", "imports.ReadImports#fallback", st.Pos(), "error cleared only for the syntax sentinel (%v) when not requested (%v), input drained in a guarded loop (%v), whole buffer returned (%v)", isSentinel, notRequested, drain, whole)
		})
		if !found {
			ctx.Bad("RI2", "imports.ReadImports#fallback", ri.Pos(), "no syntax-error fallback: a file with a syntax error is returned truncated and a later full parse reports different errors")
		}
	}
	// ---- RI3
	{
		g := graph(p, ri)
		var firstKw *ssa.Call
		g.Instrs(func(i ssa.Instruction) {
			if c, ok := i.(*ssa.Call); ok && firstKw == nil && strings.HasSuffix(ssax.CalleeName(&c.Call), ".readKeyword") {
				firstKw = c
			}
		})
		if firstKw == nil {
			ctx.Unknown("RI3", "imports.ReadImports#bom", ri.Pos(), "no readKeyword call found")
		} else {
			// does the skipper skip 0xEF? (if it did, the BOM would be harmless)
			bomConst := func(v ssa.Value) bool {
				c, ok := v.(*ssa.Const)
				if !ok || c.Value == nil {
					return false
				}
				switch c.Value.Kind() {
				case constant.Int:
					k, _ := constant.Int64Val(c.Value)
					return k == 0xEF || k == 0xBB || k == 0xBF || k == 0xFEFF
				case constant.String:
					s := constant.StringVal(c.Value)
					return strings.Contains(s, "\xef\xbb\xbf")
				}
				return false
			}
			recognised := false
			var where ssa.Instruction
			check := func(fn *ssa.Function, mustDominate bool) {
				fg := graph(p, fn)
				fg.Instrs(func(i ssa.Instruction) {
					hit := false
					for _, op := range i.Operands(nil) {
						if *op != nil && bomConst(*op) {
							hit = true
						}
						if *op != nil {
							if u, ok := (*op).(*ssa.UnOp); ok {
								if gl, ok := u.X.(*ssa.Global); ok {
									if s, ok := info(p).env.GBytes[gl]; ok && strings.Contains(s, "\xef\xbb\xbf") {
										hit = true
									}
								}
							}
						}
					}
					if !hit {
						return
					}
					if mustDominate {
						// the recognition may be conditional (Peek can fail on a short input): it must
						// come before the first keyword on the paths it lies on, never after it
						before, _ := g.ReachableWithout(ssax.PointAt(i), func(x ssa.Instruction) bool { return x == ssa.Instruction(firstKw) }, nil)
						after, _ := g.ReachableWithout(ssax.PointAfter(firstKw), func(x ssa.Instruction) bool { return x == i }, nil)
						if before == nil || after != nil {
							return
						}
					}
					recognised = true
					where = i
				})
			}
			check(ri, true)
			// callees executed before the first keyword
			g.Instrs(func(i ssa.Instruction) {
				if c, ok := i.(*ssa.Call); ok && g.Dominates(c, firstKw) {
					if cal := c.Call.StaticCallee(); cal != nil && core.InModule(cal) {
						for _, fn := range reachableMod(p, []*ssa.Function{cal}, nil) {
							check(fn, false)
						}
					}
				}
			})
			if recognised {
				ctx.OK("RI3", "imports.ReadImports#bom", where.Pos(), "a leading byte-order mark is recognised before the first keyword is matched")
			} else {
				ctx.Bad("RI3", "imports.ReadImports#bom", firstKw.Pos(), "nothing before the first readKeyword recognises a UTF-8 byte-order mark: for input \"\\xEF\\xBB\\xBFpackage p; import \\\"fmt\\\"\" the keyword match fails on 0xEF and no imports are reported, while go/parser accepts the file")
			}
		}
	}
	// ---- RI5/RI6/RI7: token discipline of the byte reader
	{
		peek := ctx.Need("RI5", "imports", "(*importReader).peekByte")
		next := ctx.Need("RI5", "imports", "(*importReader).nextByte")
		rid := ctx.Need("RI5", "imports", "(*importReader).readIdent")
		rkw := ctx.Need("RI5", "imports", "(*importReader).readKeyword")
		rstr := ctx.Need("RI6", "imports", "(*importReader).readString")
		if peek != nil && next != nil && rid != nil && rkw != nil && rstr != nil {
			// the byte class used by the identifier reader
			var class *ssa.Function
			graph(p, rid).Instrs(func(i ssa.Instruction) {
				if c, ok := i.(*ssa.Call); ok {
					if cal := c.Call.StaticCallee(); cal != nil && core.InModule(cal) && cal.Signature.Params().Len() == 1 && cal.Signature.Results().Len() == 1 &&
						cal.Signature.Params().At(0).Type().String() == "byte" && cal.Signature.Results().At(0).Type().String() == "bool" {
						class = cal
					}
				}
			})
			if class == nil {
				ctx.Unknown("RI7", "imports.readIdent#class", rid.Pos(), "the identifier reader uses no byte-class predicate")
			} else {
				ctx.Seen(class)
				acc, ok, why := byteClass(class)
				if !ok {
					ctx.Bad("RI7", "imports."+class.Name()+"#class", class.Pos(), "the set of identifier bytes cannot be established from comparisons of the byte with constants (%s); the reader must accept every byte of a multi-byte letter, so the class has to be total on 0x80..0xFF", why)
				} else {
					var diff []string
					for c := 0; c < 256; c++ {
						want := c >= 0x80 || c == '_' || ('0' <= c && c <= '9') || ('a' <= c && c <= 'z') || ('A' <= c && c <= 'Z')
						if acc[c] != want && len(diff) < 6 {
							diff = append(diff, fmt.Sprintf("%#02x accepted=%v", c, acc[c]))
						}
					}
					ctx.Check(len(diff) == 0, "RI7", "imports."+class.Name()+"#class", class.Pos(), "identifier bytes are exactly [A-Za-z0-9_] and 0x80..0xFF %v", diff)
				}
				// RI5: the class test looks ahead, it never consumes
				n := 0
				for _, f := range []*ssa.Function{rid, rkw} {
					graph(p, f).Instrs(func(i ssa.Instruction) {
						c, ok := i.(*ssa.Call)
						if !ok || c.Call.StaticCallee() != class {
							return
						}
						n++
						arg, ok := c.Call.Args[0].(*ssa.Call)
						ctx.Check(ok && arg.Call.StaticCallee() == peek, "RI5", shortFn(f)+"#lookahead"+itoa(n), c.Pos(), "the byte tested for 'still part of the identifier' comes from peekByte: the byte that ends the token stays unread for the next token (a consuming read would swallow a quote or comment start that directly follows the name)")
					})
				}
				if n == 0 {
					ctx.Bad("RI5", "imports#lookahead", rid.Pos(), "no class test found in the identifier and keyword readers")
				}
			}
			// RI6: inside a token nothing is skipped
			n := 0
			for _, f := range []*ssa.Function{rid, rkw, rstr} {
				g := graph(p, f)
				g.Instrs(func(i ssa.Instruction) {
					c, ok := i.(*ssa.Call)
					if !ok || (c.Call.StaticCallee() != peek && c.Call.StaticCallee() != next) {
						return
					}
					if _, inLoop := innermostLoop(g, c.Block().Index); !inLoop {
						return
					}
					n++
					k, isK := ssax.ConstBool(c.Call.Args[1])
					ctx.Check(isK && !k, "RI6", shortFn(f)+"#raw"+itoa(n), c.Pos(), "bytes inside a keyword, identifier or string literal are read without skipping spaces and comments (skipping there would drop a '/' or blank that belongs to an import path)")
				})
			}
			if n == 0 {
				ctx.Bad("RI6", "imports#raw", rstr.Pos(), "no in-token reads found")
			}
			// RI9: in an import clause a single byte is taken as the name only when it is the dot
			if rimp := p.Func("imports", "(*importReader).readImport"); rimp != nil {
				ig := graph(p, rimp)
				n := 0
				isPeeked := func(v ssa.Value) bool {
					c, ok := v.(*ssa.Call)
					return ok && c.Call.StaticCallee() == peek
				}
				ig.Instrs(func(i ssa.Instruction) {
					st, ok := i.(*ssa.Store)
					if !ok || !isFieldAddrOf("peek")(st.Addr) {
						return
					}
					n++
					dot := onAllPaths(ig, st, nil, func(f ssax.Fact) bool {
						return cmpFact([]ssax.Fact{f}, token.EQL, isPeeked, isConstIntV('.'))
					})
					ctx.Check(dot, "RI9", "imports.readImport#one-byte-name"+itoa(n), st.Pos(), "a one-byte import name is consumed only for '.' (an identifier such as _x or _1 must be read as an identifier; taking its first byte alone derails the clause)")
				})
				if n == 0 {
					ctx.Note("RI9", "imports.readImport#one-byte-name", rimp.Pos(), "readImport consumes no single byte itself")
				}
			}
			// RI10: a line comment ends at a newline and nowhere else
			{
				g := graph(p, peek)
				n := 0
				for _, l := range loopsOf(g) {
					// the loop that skips a line comment: it does nothing but read bytes
					onlyReads, reads := true, 0
					ks := map[int64]bool{}
					for bi := range l.Blocks {
						for _, ins := range peek.Blocks[bi].Instrs {
							switch x := ins.(type) {
							case *ssa.Call:
								if cal := x.Call.StaticCallee(); cal != nil && cal.Name() == "readByte" {
									reads++
								} else {
									onlyReads = false
								}
							case *ssa.If:
								if b, isB := x.Cond.(*ssa.BinOp); isB && (b.Op == token.EQL || b.Op == token.NEQ) {
									if k, isK := ssax.ConstInt(b.Y); isK && b.X.Type().String() == "byte" {
										ks[k] = true
									}
								}
							}
						}
					}
					if !onlyReads || reads == 0 || !ks['\n'] {
						continue
					}
					n++
					only := len(ks) == 1
					ctx.Check(only, "RI10", "imports.peekByte#line-comment"+itoa(n), peek.Blocks[l.Header].Instrs[0].Pos(), "the loop that skips a // comment stops at '\\n' only (byte constants tested: %d); a bare carriage return does not end a comment in Go", len(ks))
				}
				if n == 0 {
					ctx.Note("RI10", "imports.peekByte#line-comment", peek.Pos(), "no small loop testing for newline found in peekByte; clause not decided")
				}
			}
			// RI3b: the mark is dropped only when it was actually seen
			{
				g := graph(p, ri)
				n := 0
				for _, d := range g.Calls("(*bufio.Reader).Discard") {
					n++
					facts := g.FactsAtInstr(d)
					var peeked, perr ssa.Value
					for _, pc := range g.Calls("(*bufio.Reader).Peek") {
						if g.Dominates(pc, d) {
							peeked, perr = ssax.Extracted(pc, 0), ssax.Extracted(pc, 1)
						}
					}
					okErr := perr != nil && ssax.KnownNil(facts, perr, true)
					okCmp := peeked != nil && hasFact(facts, true, func(v ssa.Value) bool {
						c, ok := v.(*ssa.Call)
						if !ok || len(c.Call.Args) != 2 {
							return false
						}
						switch ssax.CalleeName(&c.Call) {
						case "bytes.Equal":
							return c.Call.Args[0] == peeked || c.Call.Args[1] == peeked
						case "bytes.HasPrefix":
							return c.Call.Args[0] == peeked
						}
						return false
					})
					ctx.Check(okErr && okCmp, "RI3", "imports.ReadImports#bom-discard"+itoa(n), d.Pos(), "bytes are discarded only after a successful Peek (%v) whose result was found to be the mark (%v): a short or failed Peek must leave the input alone, it is returned to the caller as read", okErr, okCmp)
				}
			}
			// RI8: a backslash inside an interpreted string takes the next byte with it
			{
				g := graph(p, rstr)
				esc := false
				isRead := func(v ssa.Value) bool {
					c, ok := v.(*ssa.Call)
					return ok && (c.Call.StaticCallee() == next || c.Call.StaticCallee() == peek)
				}
				g.Instrs(func(i ssa.Instruction) {
					c, ok := i.(*ssa.Call)
					if !ok || c.Call.StaticCallee() != next {
						return
					}
					if cmpFact(g.FactsAtInstr(c), token.EQL, isRead, isConstIntV('\\')) {
						esc = true
					}
				})
				ctx.Check(esc, "RI8", "imports.readString#escape", rstr.Pos(), "after a backslash the string reader consumes one more byte before it looks for the closing quote (otherwise \"a\\\"b\" ends at the escaped quote, and a path written with an escape is rejected)")
			}
		}
	}
	// ---- RI4
	{
		n := 0
		for _, f := range reachableMod(p, []*ssa.Function{ri, rc}, nil) {
			g := graph(p, f)
			ctx.Seen(f)
			for _, l := range loopsOf(g) {
				n++
				ctx.Check(loopGuarded(g, l), "RI4", shortFn(f)+"#loop"+itoa(n), f.Blocks[l.Header].Instrs[0].Pos(), "loop has an exit that depends on the reader's err/eof state")
				spin := spinsUnderError(p, g, l)
				ctx.Check(spin == "", "RI4", shortFn(f)+"#loop"+itoa(n)+":exits-on-error", f.Blocks[l.Header].Instrs[0].Pos(), "evaluated with the reader in its error state (err != nil, peekByte/nextByte/readByte yield 0) the loop cannot come back to its head %s", spin)
			}
			g.Instrs(func(i ssa.Instruction) {
				pn, ok := i.(*ssa.Panic)
				if !ok {
					return
				}
				n++
				facts := g.FactsAtInstr(pn)
				behind := cmpFact(facts, token.GTR, func(v ssa.Value) bool {
					return ssax.DerivedFrom(v, isFieldLoad("nerr"), nil)
				}, func(v ssa.Value) bool { k, ok := ssax.ConstInt(v); return ok && k >= 1000 }) && cmpFact(facts, token.NEQ, isFieldLoad("err"), func(v ssa.Value) bool { return ssax.IsNil(v) })
				ctx.Check(behind, "RI4", shortFn(f)+"#panic"+itoa(n), pn.Pos(), "explicit panic only after an error was recorded and the iteration counter passed its limit")
			})
		}
	}
}

// loopGuarded: some branch inside the loop leaves it and its condition depends
// on the reader state (fields err/eof) or on peekByte/nextByte/readByte results.
func loopGuarded(g *ssax.Graph, l natLoop) bool {
	for b := range l.Blocks {
		blk := g.Fn.Blocks[b]
		ifi, ok := blk.Instrs[len(blk.Instrs)-1].(*ssa.If)
		if !ok {
			continue
		}
		exits := false
		for _, s := range g.Succs[b] {
			if !l.Blocks[s] {
				exits = true
			}
		}
		if !exits {
			continue
		}
		dep := ssax.DerivedFrom(ifi.Cond, func(v ssa.Value) bool {
			if isFieldLoad("err")(v) || isFieldLoad("eof")(v) {
				return true
			}
			if c, ok := v.(*ssa.Call); ok {
				n := ssax.CalleeName(&c.Call)
				return strings.HasSuffix(n, ".peekByte") || strings.HasSuffix(n, ".nextByte") || strings.HasSuffix(n, ".readByte")
			}
			return false
		}, func(c *ssa.Call) bool { return true })
		if dep {
			return true
		}
		// range over a constant-length string (keyword) is bounded
		if ssax.DerivedFrom(ifi.Cond, func(v ssa.Value) bool {
			c, ok := v.(*ssa.Call)
			if !ok {
				return false
			}
			b, ok := c.Call.Value.(*ssa.Builtin)
			return ok && b.Name() == "len"
		}, nil) {
			return true
		}
	}
	return false
}

// evalErrState evaluates a condition with the reader in its error state.
func evalErrState(p *core.Prog, v ssa.Value, depth int) (int64, bool) {
	if k, ok := ssax.ConstInt(v); ok {
		return k, true
	}
	if k, ok := ssax.ConstBool(v); ok {
		if k {
			return 1, true
		}
		return 0, true
	}
	bi := func(c bool) (int64, bool) {
		if c {
			return 1, true
		}
		return 0, true
	}
	switch x := v.(type) {
	case *ssa.Convert:
		return evalErrState(p, x.X, depth)
	case *ssa.UnOp:
		if x.Op == token.NOT {
			k, ok := evalErrState(p, x.X, depth)
			return 1 - k, ok
		}
	case *ssa.Call:
		n := ssax.CalleeName(&x.Call)
		if strings.HasSuffix(n, ".peekByte") || strings.HasSuffix(n, ".nextByte") || strings.HasSuffix(n, ".readByte") {
			return 0, true
		}
		// a pure helper on constant arguments (isIdent)
		if cal := x.Call.StaticCallee(); cal != nil && core.InModule(cal) && cal.Signature.Recv() == nil && depth < 2 {
			args := map[ssa.Value]int64{}
			for i, a := range x.Call.Args {
				k, ok := evalErrState(p, a, depth+1)
				if !ok {
					return 0, false
				}
				args[cal.Params[i]] = k
			}
			return interpPure(p, cal, args)
		}
	case *ssa.BinOp:
		if y, eq, ok := ssax.NilCheck(x); ok && isFieldLoad("err")(y) {
			return bi(!eq) // err != nil
		}
		a, ok1 := evalErrState(p, x.X, depth)
		b, ok2 := evalErrState(p, x.Y, depth)
		if !ok1 || !ok2 {
			return 0, false
		}
		switch x.Op {
		case token.EQL:
			return bi(a == b)
		case token.NEQ:
			return bi(a != b)
		case token.LSS:
			return bi(a < b)
		case token.LEQ:
			return bi(a <= b)
		case token.GTR:
			return bi(a > b)
		case token.GEQ:
			return bi(a >= b)
		}
	}
	return 0, false
}

// interpPure runs a loop-free pure function on constant arguments by following
// its branches (constant folding through a helper; nothing from /repo is executed).
func interpPure(p *core.Prog, f *ssa.Function, env map[ssa.Value]int64) (int64, bool) {
	if len(f.Blocks) == 0 {
		return 0, false
	}
	blk := f.Blocks[0]
	var prev *ssa.BasicBlock
	for steps := 0; steps < 200; steps++ {
		for _, ins := range blk.Instrs {
			switch x := ins.(type) {
			case *ssa.Phi:
				for k, pr := range blk.Preds {
					if pr == prev {
						v, ok := evalInt(x.Edges[k], env)
						if !ok {
							return 0, false
						}
						env[x] = v
					}
				}
			case *ssa.BinOp, *ssa.UnOp, *ssa.Convert:
				if v, ok := evalInt(ins.(ssa.Value), env); ok {
					env[ins.(ssa.Value)] = v
				}
			case *ssa.If:
				c, ok := evalInt(x.Cond, env)
				if !ok {
					return 0, false
				}
				prev = blk
				if c != 0 {
					blk = blk.Succs[0]
				} else {
					blk = blk.Succs[1]
				}
			case *ssa.Jump:
				prev = blk
				blk = blk.Succs[0]
			case *ssa.Return:
				if len(x.Results) != 1 {
					return 0, false
				}
				return evalInt(x.Results[0], env)
			case *ssa.DebugRef:
			default:
				return 0, false
			}
		}
	}
	return 0, false
}

// spinsUnderError reports a way to get from the loop head back to it with the
// reader in its error state; counted loops (an induction variable compared
// with a loop-invariant bound) are exempt.
func spinsUnderError(p *core.Prog, g *ssax.Graph, l natLoop) string {
	fn := g.Fn
	// counted loop?
	hdr := fn.Blocks[l.Header]
	counted := func(b *ssa.BasicBlock) bool {
		ifi, ok := b.Instrs[len(b.Instrs)-1].(*ssa.If)
		if !ok {
			return false
		}
		c, ok := ifi.Cond.(*ssa.BinOp)
		if !ok || c.Op != token.LSS {
			return false
		}
		// x = phi + 1 (or phi) on the left, length/constant on the right
		return ssax.DerivedFrom(c.X, func(v ssa.Value) bool {
			ph, ok := v.(*ssa.Phi)
			return ok && l.Blocks[ph.Block().Index]
		}, nil) && !ssax.DerivedFrom(c.Y, func(v ssa.Value) bool {
			cc, ok := v.(*ssa.Call)
			return ok && cc.Call.StaticCallee() != nil
		}, nil)
	}
	for b := range l.Blocks {
		exits := false
		for _, s2 := range g.Succs[b] {
			if !l.Blocks[s2] {
				exits = true
			}
		}
		if exits && counted(fn.Blocks[b]) {
			return ""
		}
	}
	_ = hdr
	seen := map[int]bool{}
	var path []int
	var walk func(b int, first bool) bool
	walk = func(b int, first bool) bool {
		if b == l.Header && !first {
			return true
		}
		if seen[b] || !l.Blocks[b] {
			return false
		}
		seen[b] = true
		path = append(path, b)
		blk := fn.Blocks[b]
		succs := g.Succs[b]
		if ifi, ok := blk.Instrs[len(blk.Instrs)-1].(*ssa.If); ok && len(succs) == 2 {
			if k, ok := evalErrState(p, ifi.Cond, 0); ok {
				if k != 0 {
					succs = []int{blk.Succs[0].Index}
				} else {
					succs = []int{blk.Succs[1].Index}
				}
			}
		}
		for _, s2 := range succs {
			if walk(s2, false) {
				return true
			}
		}
		path = path[:len(path)-1]
		return false
	}
	if walk(l.Header, true) {
		return "(it can: " + ssax.TrailString(path) + " -> head; the loop then spins until the iteration-counter panic)"
	}
	return ""
}

// byteClass computes the exact set of byte values for which a loop-free
// predicate func(byte) bool returns true, by propagating the set of possible
// argument values through the function and splitting it at every comparison
// of the argument with a constant. Anything else the result depends on makes
// the computation fail.
func byteClass(f *ssa.Function) (acc [256]bool, ok bool, why string) {
	if len(f.Params) != 1 || len(f.Blocks) == 0 {
		return acc, false, "not a one-argument function"
	}
	par := f.Params[0]
	isPar := func(v ssa.Value) bool {
		for {
			switch x := v.(type) {
			case *ssa.Convert:
				v = x.X
				continue
			case *ssa.ChangeType:
				v = x.X
				continue
			}
			break
		}
		return v == ssa.Value(par)
	}
	type set = [256]bool
	fail := ""
	var truth func(v ssa.Value, s set, env map[*ssa.Phi]ssa.Value, depth int) (set, bool)
	truth = func(v ssa.Value, s set, env map[*ssa.Phi]ssa.Value, depth int) (set, bool) {
		var out set
		if depth > 50 {
			return out, false
		}
		if k, isK := ssax.ConstBool(v); isK {
			if k {
				return s, true
			}
			return out, true
		}
		switch x := v.(type) {
		case *ssa.Phi:
			if e, has := env[x]; has {
				return truth(e, s, env, depth+1)
			}
		case *ssa.UnOp:
			if x.Op == token.NOT {
				t, ok := truth(x.X, s, env, depth+1)
				if !ok {
					return out, false
				}
				for c := range s {
					out[c] = s[c] && !t[c]
				}
				return out, true
			}
		case *ssa.BinOp:
			var k int64
			var isK, flip bool
			if isPar(x.X) {
				k, isK = ssax.ConstInt(x.Y)
			} else if isPar(x.Y) {
				k, isK = ssax.ConstInt(x.X)
				flip = true
			}
			if isK {
				for c := range s {
					if !s[c] {
						continue
					}
					a, b := int64(c), k
					if flip {
						a, b = b, a
					}
					switch x.Op {
					case token.LSS:
						out[c] = a < b
					case token.LEQ:
						out[c] = a <= b
					case token.GTR:
						out[c] = a > b
					case token.GEQ:
						out[c] = a >= b
					case token.EQL:
						out[c] = a == b
					case token.NEQ:
						out[c] = a != b
					default:
						return out, false
					}
				}
				return out, true
			}
		}
		fail = "the result depends on " + v.String()
		return out, false
	}
	good := true
	var walk func(b, prev *ssa.BasicBlock, s set, env map[*ssa.Phi]ssa.Value, depth int)
	walk = func(b, prev *ssa.BasicBlock, s set, env map[*ssa.Phi]ssa.Value, depth int) {
		if !good {
			return
		}
		if depth > 200 {
			good, fail = false, "the predicate loops"
			return
		}
		empty := true
		for _, v := range s {
			if v {
				empty = false
			}
		}
		if empty {
			return
		}
		env2 := map[*ssa.Phi]ssa.Value{}
		for k, v := range env {
			env2[k] = v
		}
		for _, ins := range b.Instrs {
			switch x := ins.(type) {
			case *ssa.Phi:
				for k, pr := range b.Preds {
					if pr == prev {
						e := x.Edges[k]
						if ph, isPhi := e.(*ssa.Phi); isPhi {
							if r, has := env[ph]; has {
								e = r
							}
						}
						env2[x] = e
					}
				}
			case *ssa.If:
				t, ok := truth(x.Cond, s, env2, 0)
				if !ok {
					good = false
					return
				}
				var f set
				for c := range s {
					f[c] = s[c] && !t[c]
				}
				walk(b.Succs[0], b, t, env2, depth+1)
				walk(b.Succs[1], b, f, env2, depth+1)
				return
			case *ssa.Jump:
				walk(b.Succs[0], b, s, env2, depth+1)
				return
			case *ssa.Return:
				if len(x.Results) != 1 {
					good, fail = false, "not a predicate"
					return
				}
				t, ok := truth(x.Results[0], s, env2, 0)
				if !ok {
					good = false
					return
				}
				for c := range t {
					if t[c] {
						acc[c] = true
					}
				}
				return
			case *ssa.BinOp, *ssa.UnOp, *ssa.Convert, *ssa.ChangeType, *ssa.DebugRef:
			default:
				good, fail = false, "the predicate does more than compare: "+ins.String()
				return
			}
		}
	}
	var all set
	for c := range all {
		all[c] = true
	}
	walk(f.Blocks[0], nil, all, map[*ssa.Phi]ssa.Value{}, 0)
	return acc, good, fail
}
