package rules

import (
	"sort"
	"strings"

	"golang.org/x/tools/go/ssa"

	"verif/checker/core"
	"verif/checker/ssax"
)

// Lockset engine (E4): forward must-analysis of the mutexes definitely held,
// keyed by the access path of the mutex ("w.mu", "hashDebug.Mutex").

type lockInfo struct {
	in map[int]map[string]bool // per block: locks held at entry (nil = unreachable/top)
	g  *ssax.Graph
}

var lockCache = map[*ssa.Function]*lockInfo{}

func lockOp(i ssa.Instruction) (key string, acquire bool, ok bool) {
	c, isCall := i.(*ssa.Call)
	if !isCall {
		return "", false, false
	}
	n := ssax.CalleeName(&c.Call)
	switch n {
	case "(*sync.Mutex).Lock", "(*sync.RWMutex).Lock", "(*sync.RWMutex).RLock":
		return ssax.AccessPath(c.Call.Args[0]), true, true
	case "(*sync.Mutex).Unlock", "(*sync.RWMutex).Unlock", "(*sync.RWMutex).RUnlock":
		return ssax.AccessPath(c.Call.Args[0]), false, true
	case "(sync.Locker).Lock":
		return ssax.AccessPath(c.Call.Value), true, true
	case "(sync.Locker).Unlock":
		return ssax.AccessPath(c.Call.Value), false, true
	}
	return "", false, false
}

func locksets(p *core.Prog, f *ssa.Function) *lockInfo {
	if li, ok := lockCache[f]; ok {
		return li
	}
	return locksetsOn(graph(p, f), f)
}

// locksetWith is locksetAt for a graph built outside a core.Prog (engine controls).
func locksetWith(g *ssax.Graph, f *ssa.Function, at ssa.Instruction) map[string]bool {
	li, ok := lockCache[f]
	if !ok {
		li = locksetsOn(g, f)
	}
	s, ok := li.in[at.Block().Index]
	if !ok {
		return nil
	}
	r := map[string]bool{}
	for k := range s {
		r[k] = true
	}
	for _, i := range at.Block().Instrs {
		if i == at {
			break
		}
		if k, acq, ok := lockOp(i); ok {
			if acq {
				r[k] = true
			} else {
				delete(r, k)
			}
		}
	}
	return r
}

func locksetsOn(g *ssax.Graph, f *ssa.Function) *lockInfo {
	li := &lockInfo{in: map[int]map[string]bool{}, g: g}
	lockCache[f] = li
	if len(f.Blocks) == 0 {
		return li
	}
	out := map[int]map[string]bool{}
	transfer := func(b int, s map[string]bool) map[string]bool {
		r := map[string]bool{}
		for k := range s {
			r[k] = true
		}
		blk := f.Blocks[b]
		end := len(blk.Instrs)
		if c := g.Cut[b]; c >= 0 {
			end = c + 1
		}
		for _, i := range blk.Instrs[:end] {
			if k, acq, ok := lockOp(i); ok {
				if acq {
					r[k] = true
				} else {
					delete(r, k)
				}
			}
		}
		return r
	}
	li.in[0] = map[string]bool{}
	work := []int{0}
	for len(work) > 0 {
		b := work[0]
		work = work[1:]
		o := transfer(b, li.in[b])
		if prev, ok := out[b]; ok && sameSet(prev, o) {
			continue
		}
		out[b] = o
		for _, s := range g.Succs[b] {
			var ni map[string]bool
			first := true
			for _, pr := range g.Preds[s] {
				po, ok := out[pr]
				if !ok {
					continue // not yet computed: top
				}
				if first {
					ni = map[string]bool{}
					for k := range po {
						ni[k] = true
					}
					first = false
				} else {
					for k := range ni {
						if !po[k] {
							delete(ni, k)
						}
					}
				}
			}
			if prev, ok := li.in[s]; !ok || !sameSet(prev, ni) {
				li.in[s] = ni
				work = append(work, s)
			} else if _, done := out[s]; !done {
				work = append(work, s)
			}
		}
	}
	return li
}

func sameSet(a, b map[string]bool) bool {
	if len(a) != len(b) {
		return false
	}
	for k := range a {
		if !b[k] {
			return false
		}
	}
	return true
}

// locksetAt returns the locks definitely held just before instr executes.
func locksetAt(p *core.Prog, f *ssa.Function, at ssa.Instruction) map[string]bool {
	li := locksets(p, f)
	b := at.Block().Index
	s, ok := li.in[b]
	if !ok {
		return nil
	}
	r := map[string]bool{}
	for k := range s {
		r[k] = true
	}
	for _, i := range at.Block().Instrs {
		if i == at {
			break
		}
		if k, acq, ok := lockOp(i); ok {
			if acq {
				r[k] = true
			} else {
				delete(r, k)
			}
		}
	}
	return r
}

func setString(s map[string]bool) string {
	var ks []string
	for k := range s {
		ks = append(ks, k)
	}
	sort.Strings(ks)
	return "{" + strings.Join(ks, ",") + "}"
}
