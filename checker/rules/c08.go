package rules

import (
	"fmt"
	"go/token"
	"go/types"
	"strings"

	"golang.org/x/tools/go/ssa"

	"verif/checker/core"
	"verif/checker/ssax"
)

func init() { Registry["C08"] = Spec{Run: runC08, Packages: []string{"diff"}} }

func runC08(ctx *core.Ctx) {
	ctx.Trusted = append(ctx.Trusted, "go/types, go/ssa", "fmt.Fprintf, bytes.Equal, strings.SplitAfter")
	p := ctx.P
	ctx.Rule("F1", "identity clause: Diff returns nil exactly on the true edge of bytes.Equal(old, new) of its two text parameters; every other return yields the output buffer after the header was written", 2)
	ctx.Rule("F2", "header: the first three writes are Fprintf with formats \"diff %s %s\\n\", \"--- %s\\n\", \"+++ %s\\n\" and operands (oldName,newName), (oldName), (newName), in that order", 3)
	ctx.Rule("F3", "body/count pairing: a line appended with prefix '-' comes from the old side and increments only the old count; '+' from the new side and only the new count; ' ' increments both; the hunk header prints (chunk.x, count.x, chunk.y, count.y) in that order; both counts and the chunk text are reset after a hunk is emitted", 6)
	ctx.Rule("F4", "missing-final-newline convention: the marker text is appended to the last line exactly on the branch where the last segment is non-empty, otherwise the empty segment is dropped", 1)
	ctx.Rule("F5", "consumer: testscript's cmp prints the diff of exactly the two texts it compared", 1)
	d := ctx.Need("F1", "diff", "Diff")
	if d == nil {
		return
	}
	g := graph(p, d)
	oldN, oldT, newN, newT := d.Params[0], d.Params[1], d.Params[2], d.Params[3]
	// ---- F1
	eqs := g.Calls("bytes.Equal")
	nNil := 0
	for k, r := range g.Returns() {
		v := ssax.ReturnValues(r)[0]
		if ssax.IsNil(v) {
			nNil++
			ok := len(eqs) > 0 && hasFact(g.FactsAtInstr(r), true, isCallOf([]string{"bytes.Equal"}, isVal(oldT), isVal(newT)))
			ctx.Check(ok, "F1", "diff.Diff#nil-return"+itoa(k+1), r.Pos(), "nil is returned only when bytes.Equal(old, new) is true")
			continue
		}
		// non-nil: not on the equal edge, is the buffer's Bytes(), after three header writes
		notEq := hasFact(g.FactsAtInstr(r), false, isCallOf([]string{"bytes.Equal"}, isVal(oldT), isVal(newT)))
		c, isCall := v.(*ssa.Call)
		buf := isCall && ssax.CalleeName(&c.Call) == "(*bytes.Buffer).Bytes"
		if buf {
			// the buffer is a fresh local of this call (a pooled or shared buffer would be overwritten by the next call)
			_, local := c.Call.Args[0].(*ssa.Alloc)
			buf = local
		}
		hdr := 0
		for _, fp := range g.Calls("fmt.Fprintf") {
			if g.Dominates(fp, r) {
				hdr++
			}
		}
		ctx.Check(notEq && buf && hdr >= 3, "F1", "diff.Diff#diff-return"+itoa(k+1), r.Pos(), "a diff is returned only for unequal texts (%v), it is the output buffer (%v) and the %d header writes precede it, so it is never empty", notEq, buf, hdr)
	}
	if nNil == 0 {
		ctx.Bad("F1", "diff.Diff#nil-return", d.Pos(), "Diff never returns nil")
	}
	// ---- F2
	fps := g.Calls("fmt.Fprintf")
	want := []struct {
		f   string
		ops []ssa.Value
	}{{"diff %s %s\n", []ssa.Value{oldN, newN}}, {"--- %s\n", []ssa.Value{oldN}}, {"+++ %s\n", []ssa.Value{newN}}}
	for k, w := range want {
		ok := k < len(fps)
		if ok {
			f, _ := ssax.ConstString(fps[k].Call.Args[1])
			ops := variadicElems(fps[k].Call.Args[2])
			ok = f == w.f && len(ops) == len(w.ops)
			if ok {
				for j := range ops {
					if ssax.Strip(ops[j]) != w.ops[j] {
						ok = false
					}
				}
			}
			if k > 0 && !g.Dominates(fps[k-1], fps[k]) {
				ok = false
			}
		}
		pos := d.Pos()
		if k < len(fps) {
			pos = fps[k].Pos()
		}
		ctx.Check(ok, "F2", "diff.Diff#header"+itoa(k+1), pos, "header line %d is %q with the right names", k+1, w.f)
	}
	// ---- F3
	// the two line tables
	var xs, ys ssa.Value
	for _, c := range g.Calls(core.ModPath + "/diff.lines") {
		if c.Call.Args[0] == ssa.Value(oldT) {
			xs = c
		}
		if c.Call.Args[0] == ssa.Value(newT) {
			ys = c
		}
	}
	// The running line counts are whatever the hunk header prints as its second and fourth
	// number; the hunk start is what it prints as first and third. Both are named by location
	// (local variable and field path), so that "count.x", "h.count.x" through a pointer and a
	// by-value copy are the same thing.
	var countLoc, startLoc memLoc
	haveHdr := false
	for _, fp := range fps {
		f, _ := ssax.ConstString(fp.Call.Args[1])
		if !strings.HasPrefix(f, "@@") {
			continue
		}
		ops := variadicElems(fp.Call.Args[2])
		var parents []memLoc
		var flds []string
		for _, o := range ops {
			l, ok := readLoc(ssax.Strip(o))
			if !ok {
				break
			}
			par, fld := l.parent()
			parents = append(parents, par)
			flds = append(flds, fld)
		}
		if len(parents) == 4 && parents[0] == parents[2] && parents[1] == parents[3] && parents[0] != parents[1] && strings.Join(flds, ",") == "x,x,y,y" {
			startLoc, countLoc, haveHdr = parents[0], parents[1], true
		}
	}
	countField := func(st *ssa.Store) string {
		if !haveHdr {
			return ""
		}
		l, ok := addrLoc(st.Addr)
		if !ok {
			return ""
		}
		par, fld := l.parent()
		if par != countLoc {
			return ""
		}
		return fld
	}
	// lin writes an integer value as a linear form over symbols (locations, other values)
	type linForm struct {
		k    int64
		coef map[string]int64
		locs []memLoc
	}
	var lin func(v ssa.Value, sign int64, out *linForm, depth int)
	lin = func(v ssa.Value, sign int64, out *linForm, depth int) {
		v = ssax.Strip(v)
		if k, ok := ssax.ConstInt(v); ok {
			out.k += sign * k
			return
		}
		if depth < 6 {
			switch x := v.(type) {
			case *ssa.BinOp:
				if x.Op == token.ADD {
					lin(x.X, sign, out, depth+1)
					lin(x.Y, sign, out, depth+1)
					return
				}
				if x.Op == token.SUB {
					lin(x.X, sign, out, depth+1)
					lin(x.Y, -sign, out, depth+1)
					return
				}
			case *ssa.Call:
				if isBuiltinCall(x, "len") {
					if sl, ok := x.Call.Args[0].(*ssa.Slice); ok && sl.High != nil && sl.Max == nil {
						lin(sl.High, sign, out, depth+1)
						if sl.Low != nil {
							lin(sl.Low, -sign, out, depth+1)
						}
						return
					}
				}
			}
		}
		if l, ok := readLoc(v); ok {
			out.coef["L:"+l.String()] += sign
			out.locs = append(out.locs, l)
			return
		}
		out.coef[fmt.Sprintf("V:%p", v)] += sign
	}
	sameLin := func(a, b ssa.Value) (bool, []memLoc) {
		fa, fb := &linForm{coef: map[string]int64{}}, &linForm{coef: map[string]int64{}}
		lin(a, 1, fa, 0)
		lin(b, 1, fb, 0)
		if fa.k != fb.k {
			return false, nil
		}
		for k, c := range fa.coef {
			if fb.coef[k] != c {
				return false, nil
			}
		}
		for k, c := range fb.coef {
			if fa.coef[k] != c {
				return false, nil
			}
		}
		return true, append(fa.locs, fb.locs...)
	}
	// bulkIncrements: the loop that appends the prefixed lines ranges over a slice, and right after
	// it a count field is increased by that slice's length (written as High-Low, len(slice), or any
	// linear equivalent) - the same total as one increment per line.
	bulkIncrements := func(b *ssa.BinOp) map[string]int {
		inc := map[string]int{}
		l, inLoop := innermostLoop(g, b.Block().Index)
		if !inLoop {
			return inc
		}
		ld, ok := ssax.Strip(b.Y).(*ssa.UnOp)
		if !ok || ld.Op != token.MUL {
			return inc
		}
		ia, ok := ld.X.(*ssa.IndexAddr)
		if !ok {
			return inc
		}
		seq := ia.X
		// the loop runs over the whole of seq: counted from 0 against len(seq), no other way out
		var exitTo = -1
		for _, ex := range loopExits(g, l) {
			ce, isC := exitIsCounted(g, l, ex[0], ex[1])
			if !isC {
				return inc
			}
			ln, isLn := ce.Bound.(*ssa.Call)
			if !isLn || !isBuiltinCall(ln, "len") || ln.Call.Args[0] != seq {
				return inc
			}
			if a, isA := ssax.ConstInt(ce.Init); !isA || a+ce.E != 0 {
				return inc
			}
			exitTo = ex[1]
		}
		if exitTo < 0 {
			return inc
		}
		// the number of iterations, as a value: len(seq)
		var nLen ssa.Value
		for _, r := range ssax.Referrers(seq) {
			if c, isC := r.(*ssa.Call); isC && isBuiltinCall(c, "len") {
				nLen = c
			}
		}
		if nLen == nil {
			return inc
		}
		// stores in the straight-line code after the loop
		blk := exitTo
		for hops := 0; hops < 3; hops++ {
			for _, ins := range g.Fn.Blocks[blk].Instrs {
				st, isSt := ins.(*ssa.Store)
				if !isSt {
					continue
				}
				fld := countField(st)
				if fld == "" {
					continue
				}
				add, isAdd := st.Val.(*ssa.BinOp)
				if !isAdd || add.Op != token.ADD {
					inc[fld] += 100
					continue
				}
				if cur, isCur := readLoc(add.X); !isCur || "L:"+cur.String() != "L:"+countLoc.child(fld).String() {
					inc[fld] += 100
					continue
				}
				same, locs := sameLin(add.Y, nLen)
				if !same {
					inc[fld] += 100
					continue
				}
				// the locations the two forms read must not be written between the slice and the add
				clean := true
				written := func(ins ssa.Instruction) bool {
					w, isW := ins.(*ssa.Store)
					if !isW {
						return false
					}
					wl, okW := addrLoc(w.Addr)
					if !okW {
						return false
					}
					for _, rl := range locs {
						if wl.root == rl.root && (strings.HasPrefix(rl.path, wl.path) || strings.HasPrefix(wl.path, rl.path)) {
							return true
						}
					}
					return false
				}
				for bi := range l.Blocks {
					for _, ins := range g.Fn.Blocks[bi].Instrs {
						if written(ins) {
							clean = false
						}
					}
				}
				for _, ins := range g.Fn.Blocks[blk].Instrs {
					if ins == ssa.Instruction(st) {
						break
					}
					if written(ins) {
						clean = false
					}
				}
				if si, isI := seq.(ssa.Instruction); isI && si.Block() != nil && !l.Blocks[si.Block().Index] {
					after := false
					for _, ins := range si.Block().Instrs {
						if after && written(ins) {
							clean = false
						}
						if ins == si {
							after = true
						}
					}
				}
				if clean {
					inc[fld]++
				} else {
					inc[fld] += 100
				}
			}
			succ := g.Succs[blk]
			if len(succ) != 1 || len(g.Preds[succ[0]]) != 1 {
				break
			}
			blk = succ[0]
		}
		return inc
	}
	n := 0
	g.Instrs(func(i ssa.Instruction) {
		b, ok := i.(*ssa.BinOp)
		if !ok || b.Op != token.ADD {
			return
		}
		pfx, ok := ssax.ConstString(b.X)
		if !ok || (pfx != "-" && pfx != "+" && pfx != " ") {
			return
		}
		n++
		key := "diff.Diff#line" + itoa(n) + ":" + map[string]string{"-": "minus", "+": "plus", " ": "context"}[pfx]
		// source side
		fromX := xs != nil && ssax.DerivedFrom(b.Y, isVal(xs), nil)
		fromY := ys != nil && ssax.DerivedFrom(b.Y, isVal(ys), nil)
		// increments in the same block
		inc := map[string]int{}
		for _, ins := range b.Block().Instrs {
			if st, ok := ins.(*ssa.Store); ok {
				if f := countField(st); f != "" {
					if add, ok := st.Val.(*ssa.BinOp); ok && add.Op == token.ADD && isConstIntV(1)(add.Y) {
						inc[f]++
					} else {
						inc[f] += 100
					}
				}
			}
		}
		how := "per line"
		if len(inc) == 0 {
			inc = bulkIncrements(b)
			how = "by the number of lines, after the loop"
		}
		var ok2 bool
		switch pfx {
		case "-":
			ok2 = fromX && !fromY && inc["x"] == 1 && inc["y"] == 0
		case "+":
			ok2 = fromY && !fromX && inc["x"] == 0 && inc["y"] == 1
		default:
			ok2 = (fromX || fromY) && inc["x"] == 1 && inc["y"] == 1
		}
		ctx.Check(ok2 && haveHdr, "F3", key, b.Pos(), "prefix %q: line from old=%v new=%v; count.x += %d, count.y += %d %s", pfx, fromX, fromY, inc["x"], inc["y"], how)
	})
	for _, fp := range fps {
		f, _ := ssax.ConstString(fp.Call.Args[1])
		if !strings.HasPrefix(f, "@@") {
			continue
		}
		ctx.Check(f == "@@ -%d,%d +%d,%d @@\n" && haveHdr, "F3", "diff.Diff#hunk-header", fp.Pos(), "hunk header %q prints start.x, count.x, start.y, count.y of one start pair (%s) and one count pair (%s)", f, startLoc.String(), countLoc.String())
		// resets after emission: stores of 0 to count.x and count.y dominated by the header write, and ctext re-sliced to [:0]
		reset := map[string]bool{}
		g.Instrs(func(i ssa.Instruction) {
			st, ok := i.(*ssa.Store)
			if !ok || !g.Dominates(fp, st) {
				return
			}
			if fld := countField(st); fld != "" && isConstIntV(0)(st.Val) && st.Block() == fp.Block() || (fld != "" && isConstIntV(0)(st.Val) && g.DomBlock(fp.Block().Index, st.Block().Index)) {
				reset[fld] = true
			}
			// count = pair{}: the whole struct is zeroed
			if c, isC := st.Val.(*ssa.Const); isC && c.Value == nil && haveHdr {
				if l, okL := addrLoc(st.Addr); okL && l == countLoc {
					reset["x"], reset["y"] = true, true
				}
			}
		})
		ctextReset := false
		g.Instrs(func(i ssa.Instruction) {
			sl, ok := i.(*ssa.Slice)
			if ok && sl.High != nil && isConstIntV(0)(sl.High) && g.DomBlock(fp.Block().Index, sl.Block().Index) {
				ctextReset = true
			}
		})
		ctx.Check(reset["x"] && reset["y"] && ctextReset, "F3", "diff.Diff#hunk-reset", fp.Pos(), "after a hunk is written count.x (%v), count.y (%v) and the chunk text (%v) are reset", reset["x"], reset["y"], ctextReset)
	}
	// ---- F6 context arithmetic
	{
		// pairLoad: a read of field x or y of some pair-typed location
		pairLoad := func(v ssa.Value) (memLoc, string, bool) {
			l, ok := readLoc(v)
			if !ok {
				return memLoc{}, "", false
			}
			par, fld := l.parent()
			if fld != "x" && fld != "y" {
				return memLoc{}, "", false
			}
			return par, fld, true
		}
		// commonCount: the number of matching lines between two positions - end.f - start.f, or the
		// length of the table slice [start.f:end.f]
		commonCount := func(v ssa.Value) bool {
			if d, ok := v.(*ssa.BinOp); ok && d.Op == token.SUB {
				a1, f1, ok1 := pairLoad(d.X)
				a2, f2, ok2 := pairLoad(d.Y)
				return ok1 && ok2 && a1 != a2 && f1 == f2
			}
			if c, ok := v.(*ssa.Call); ok && isBuiltinCall(c, "len") {
				if sl, ok := c.Call.Args[0].(*ssa.Slice); ok && sl.Low != nil && sl.High != nil && (sl.X == xs || sl.X == ys) {
					a1, f1, ok1 := pairLoad(sl.High)
					a2, f2, ok2 := pairLoad(sl.Low)
					return ok1 && ok2 && a1 != a2 && f1 == f2
				}
			}
			return false
		}
		var M, K, Ct, Cl int64 = -1, -1, -1, -1
		g.Instrs(func(i ssa.Instruction) {
			switch x := i.(type) {
			case *ssa.BinOp:
				if x.Op == token.LSS {
					if k, ok := ssax.ConstInt(x.Y); ok {
						if commonCount(x.X) {
							// guarded by len(ctext) > 0 ?
							isLen := func(v ssa.Value) bool {
								c, ok := v.(*ssa.Call)
								if !ok || !isBuiltinCall(c, "len") {
									return false
								}
								// not the count of common lines itself
								return !commonCount(c)
							}
							guarded := cmpFact(g.FactsAtInstr(x), token.GTR, isLen, isConstIntV(0)) || cmpFact(g.FactsAtInstr(x), token.NEQ, isLen, isConstIntV(0))
							if guarded {
								M = k
							} else {
								K = k
							}
						}
					}
				}
				if x.Op == token.SUB {
					if k, ok := ssax.ConstInt(x.Y); ok {
						if _, _, isPair := pairLoad(x.X); isPair {
							// stored into a pair field (new chunk start)?
							for _, r := range ssax.Referrers(x) {
								if st, ok := r.(*ssa.Store); ok {
									if _, okL := addrLoc(st.Addr); okL {
										if _, isFA := st.Addr.(*ssa.FieldAddr); isFA {
											Cl = k
										}
									}
								}
							}
						}
					}
				}
			case *ssa.Call:
				if ssax.CalleeName(&x.Call) == "builtin.min" {
					for _, a := range x.Call.Args {
						if k, ok := ssax.ConstInt(a); ok {
							Ct = k
						}
					}
				}
			}
		})
		ctx.Rule("F6", "context arithmetic: with trailing context min(.,Ct) after a hunk and the next hunk starting Cl lines before the next change, two changes are kept in one hunk whenever fewer than M common lines separate them; hunks cannot overlap only if M >= Ct+Cl, and the next hunk's start index stays inside the matched run only if the unconditional merge bound K >= Cl", 1)
		if M < 0 || K < 0 || Ct < 0 || Cl < 0 {
			ctx.Unknown("F6", "diff.Diff#context-arithmetic", d.Pos(), "context constants not recognised (M=%d K=%d Ct=%d Cl=%d)", M, K, Ct, Cl)
		} else {
			ctx.Check(M >= Ct+Cl && K >= Cl, "F6", "diff.Diff#context-arithmetic", d.Pos(), "merge threshold M=%d, trailing context Ct=%d, leading context Cl=%d, unconditional bound K=%d: need M >= Ct+Cl (no overlapping hunks) and K >= Cl", M, Ct, Cl, K)
		}
	}
	// ---- F7 occurrence-count encoding in the anchor search
	ctx.Rule("F7", "occurrence encoding of the anchored matcher: each side counts a line 'zero, once, many' by saturating decrements (step a for old, b for new); 'many' needs two decrements to be possible (threshold <= -2*step), the old side's values must not reach the new side's step (2a < b), and a line is an anchor exactly when its code is -(a+b): unique on both sides", 1)
	if tg := p.Func("diff", "tgs"); tg != nil {
		tgg := graph(p, tg)
		ctx.Seen(tg)
		type enc struct {
			side      ssa.Value
			step, thr int64
		}
		var encs []enc
		var uniq []int64
		tgg.Instrs(func(i ssa.Instruction) {
			mu, ok := i.(*ssa.MapUpdate)
			if ok {
				sub, ok := mu.Value.(*ssa.BinOp)
				if !ok || sub.Op != token.SUB {
					return
				}
				step, ok := ssax.ConstInt(sub.Y)
				if !ok {
					return
				}
				lk, ok := sub.X.(*ssa.Lookup)
				if !ok || lk.X != mu.Map {
					return
				}
				// guard c > T on the same lookup
				for _, f := range tgg.FactsAtInstr(mu) {
					b, ok := f.Cond.(*ssa.BinOp)
					if ok && f.Val && b.Op == token.GTR && b.X == ssa.Value(lk) {
						if t, ok := ssax.ConstInt(b.Y); ok {
							var side ssa.Value
							ssax.DerivedFrom(lk.Index, func(v ssa.Value) bool {
								if pp, ok := v.(*ssa.Parameter); ok {
									side = pp
									return true
								}
								return false
							}, nil)
							encs = append(encs, enc{side, step, t})
						}
					}
				}
			}
			if b, ok := i.(*ssa.BinOp); ok && b.Op == token.EQL {
				if _, isLk := b.X.(*ssa.Lookup); isLk {
					if k, ok := ssax.ConstInt(b.Y); ok {
						uniq = append(uniq, k)
					}
				}
			}
		})
		if len(encs) != 2 || len(uniq) < 1 {
			ctx.Unknown("F7", "diff.tgs#encoding", tg.Pos(), "occurrence encoding not recognised (%d saturating counters, %d uniqueness tests)", len(encs), len(uniq))
		} else {
			a, b := encs[0], encs[1]
			if a.step > b.step {
				a, b = b, a
			}
			ok := a.thr <= -2*a.step && b.thr <= -2*b.step && -a.thr < b.step && a.side != b.side
			u := false
			for _, k := range uniq {
				if k == -(a.step + b.step) {
					u = true
				}
			}
			ctx.Check(ok && u, "F7", "diff.tgs#encoding", tg.Pos(), "steps %d/%d with saturation thresholds %d/%d, uniqueness code %v: 'many' distinguishable from 'once' on both sides (%v), anchor test is -(a+b) (%v)", a.step, b.step, a.thr, b.thr, uniq, ok, u)
		}
	} else {
		ctx.Unknown("F7", "diff.tgs", token.NoPos, "anchor matcher not found")
	}
	// ---- F9 coordinate discipline
	c08Coordinates(ctx, d, xs, ys)
	c08Round6(ctx, d, xs, ys)
	// ---- F10: the anchor search sees the whole of both line tables; the line splitter drops only a truly empty tail
	ctx.Rule("F10", "whole tables: the anchor search (the function returning the matching pairs) receives the complete line tables of old and new, in that order; the trailing sentinel it returns is then (len(old lines), len(new lines)) - on trimmed tables the sentinel falls short of the end and the last hunk may never be flushed", 1)
	ctx.Rule("F11", "the line splitter removes the last element of the split only when that element is the empty string itself (text ended in a newline); anything else after the last newline - blanks included - is a line", 1)
	{
		n := 0
		g.Instrs(func(i ssa.Instruction) {
			c, ok := i.(*ssa.Call)
			if !ok {
				return
			}
			cal := c.Call.StaticCallee()
			if cal == nil || !core.InModule(cal) || len(c.Call.Args) != 2 || cal.Signature.Results().Len() != 1 {
				return
			}
			if _, isSl := cal.Signature.Results().At(0).Type().Underlying().(*types.Slice); !isSl || !isSeqT(c.Call.Args[0].Type()) || !isSeqT(c.Call.Args[1].Type()) {
				return
			}
			if c.Call.Args[0].Type().String() != "[]string" {
				return
			}
			n++
			ctx.Check(xs != nil && c.Call.Args[0] == xs && c.Call.Args[1] == ys, "F10", "diff.Diff#anchor-search-input"+itoa(n), c.Pos(), "%s is given the full line tables of old and new", shortFn(cal))
		})
		if n == 0 {
			ctx.Unknown("F10", "diff.Diff#anchor-search-input", d.Pos(), "no call taking the two line tables found")
		}
	}
	if ln := p.Func("diff", "lines"); ln != nil {
		lg := graph(p, ln)
		n := 0
		lg.Instrs(func(i ssa.Instruction) {
			sl, ok := i.(*ssa.Slice)
			if !ok || sl.High == nil || sl.Low != nil || sl.X.Type().String() != "[]string" {
				return
			}
			// l = l[:len(l)-1]: only when the last element equals ""
			n++
			exact := cmpFact(lg.FactsAtInstr(sl), token.EQL, isElemLoad(sl.X, nil), isConstStr(""))
			ctx.Check(exact, "F11", "diff.lines#drop-last"+itoa(n), sl.Pos(), "the last element is dropped only when it is \"\" itself")
		})
		if n == 0 {
			ctx.Unknown("F11", "diff.lines#drop-last", ln.Pos(), "the splitter never drops the empty tail")
		}
	}
	// ---- F4
	if l := ctx.Need("F4", "diff", "lines"); l != nil {
		lg := graph(p, l)
		// the text is split as it is: SplitAfter(string(x), "\n") of the parameter itself
		okSplit := false
		for _, c := range lg.Calls("strings.SplitAfter", "bytes.SplitAfter") {
			arg := c.Call.Args[0]
			if cv, ok := arg.(*ssa.Convert); ok {
				arg = cv.X
			}
			okSplit = arg == ssa.Value(l.Params[0]) && isConstStr("\n")(c.Call.Args[1])
		}
		ctx.Check(okSplit, "F4", "diff.lines#split-verbatim", l.Pos(), "lines splits the text itself after each \\n, byte for byte (no normalisation such as CRLF folding: Diff decides identity on the raw bytes)")
		ok := false
		lg.Instrs(func(i ssa.Instruction) {
			b, isB := i.(*ssa.BinOp)
			if !isB || b.Op != token.ADD {
				return
			}
			s, isS := ssax.ConstString(b.Y)
			if !isS || !strings.Contains(s, "No newline at end of file") {
				return
			}
			// on the branch where the last element != ""
			if cmpFact(lg.FactsAtInstr(b), token.NEQ, anyVal, isConstStr("")) && strings.HasPrefix(s, "\n\\ ") && strings.HasSuffix(s, "\n") {
				ok = true
			}
		})
		drop := false
		lg.Instrs(func(i ssa.Instruction) {
			sl, isS := i.(*ssa.Slice)
			if isS && sl.High != nil && cmpFact(lg.FactsAtInstr(sl), token.EQL, anyVal, isConstStr("")) {
				drop = true
			}
		})
		ctx.Check(ok && drop, "F4", "diff.lines#no-newline-marker", l.Pos(), "marker \"\\n\\\\ No newline at end of file\\n\" appended only to a non-empty last segment (%v); an empty last segment is dropped (%v)", ok, drop)
	}
	// ---- F8 lines() is total
	ctx.Rule("F8", "lines() cannot panic on any text (bounds engine; strings.SplitAfter with a non-empty separator yields at least one element)", 2)
	if l := p.Func("diff", "lines"); l != nil {
		totality(ctx, []*ssa.Function{l}, totalOpts{rule: "F8"})
	}
	// ---- F5 consumer
	if len(p.TypeErrs[core.ModPath+"/testscript"]) > 0 {
		ctx.Note("F5", "testscript.doCmdCmp#diff-operands", token.NoPos, "package testscript does not type-check in this configuration (an upstream condition); the consumer rule is evaluated in the other configurations")
	} else if cmp := ctx.Need("F5", "testscript", "(*TestScript).doCmdCmp"); cmp != nil {
		cg := graph(p, cmp)
		calls := cg.Calls(core.ModPath + "/diff.Diff")
		if len(calls) != 1 {
			ctx.Bad("F5", "testscript.doCmdCmp#diff-operands", cmp.Pos(), "expected one diff.Diff call, found %d", len(calls))
		} else {
			c := calls[0]
			// the compared texts: operands of the string equality that decides the command
			var t1, t2 ssa.Value
			cg.Instrs(func(i ssa.Instruction) {
				b, ok := i.(*ssa.BinOp)
				if ok && b.Op == token.EQL && isSeqT(b.X.Type()) && cg.Dominates(b, c) {
					if _, isC := ssax.ConstString(b.Y); !isC {
						if _, isC := ssax.ConstString(b.X); !isC {
							t1, t2 = b.X, b.Y
						}
					}
				}
			})
			same := func(arg, text ssa.Value) bool {
				cv, ok := arg.(*ssa.Convert)
				return ok && text != nil && cv.X == text
			}
			ok := t1 != nil && same(c.Call.Args[1], t1) && same(c.Call.Args[3], t2)
			ctx.Check(ok, "F5", "testscript.doCmdCmp#diff-operands", c.Pos(), "the diff printed on failure is computed from the very two texts whose equality was tested (for cmpenv: the expanded text)")
			// ... and printed as data: it reaches the logger only as an operand of a constant format
			// (used as the format, every '%' in a changed line is rewritten and lines are glued together)
			asData := true
			n := 0
			for _, lc := range graph(p, cmp).Instrs2Calls(func(lc *ssa.Call) bool {
				n := ssax.CalleeName(&lc.Call)
				return strings.HasSuffix(n, "TestScript).Logf") || strings.HasSuffix(n, "TestScript).Fatalf") || n == "fmt.Fprintf" || n == "fmt.Sprintf" || n == "fmt.Printf"
			}) {
				fi := 1
				if nm := ssax.CalleeName(&lc.Call); nm == "fmt.Sprintf" || nm == "fmt.Printf" {
					fi = 0
				}
				if fi >= len(lc.Call.Args) {
					continue
				}
				n++
				if _, isConst := ssax.ConstString(lc.Call.Args[fi]); !isConst {
					if ssax.DerivedFrom(lc.Call.Args[fi], isVal(c), func(*ssa.Call) bool { return false }) {
						asData = false
					}
				}
			}
			ctx.Check(asData, "F5", "testscript.doCmdCmp#diff-as-data", c.Pos(), "the diff text is never the format string of a formatting call (%d formatting calls examined)", n)
		}
	}
}

// c08Coordinates: every index, slice bound and comparison in Diff keeps the old
// side (x: lines of old, pair.x, len(x)) and the new side (y) apart.
func c08Coordinates(ctx *core.Ctx, d *ssa.Function, xs, ys ssa.Value) {
	ctx.Rule("F9", "coordinate discipline: positions in the old text (fields .x of the pair values, len of the old line table) index and are compared only with old-side quantities, and likewise for the new side (.y); a mixed comparison or index (e.g. start.y > done.x) walks into lines already emitted", 10)
	p := ctx.P
	g := graph(p, d)
	if xs == nil || ys == nil {
		ctx.Unknown("F9", "diff.Diff#tables", d.Pos(), "line tables not found")
		return
	}
	memo := map[ssa.Value]string{}
	var dim func(v ssa.Value, depth int) string
	dim = func(v ssa.Value, depth int) string {
		if r, ok := memo[v]; ok {
			return r
		}
		if depth > 8 {
			return "?"
		}
		memo[v] = "?"
		r := "?"
		switch x := v.(type) {
		case *ssa.Const:
			r = "*"
		case *ssa.UnOp:
			if fa, ok := x.X.(*ssa.FieldAddr); ok && x.Op == token.MUL {
				if f := ssax.FieldOf(fa); f != nil && isNamed(fa.X.Type(), core.ModPath+"/diff", "pair") {
					r = strings.ToUpper(f.Name())
				}
			}
		case *ssa.Field:
			if f := ssax.FieldOf(x); f != nil && isNamed(x.X.Type(), core.ModPath+"/diff", "pair") {
				r = strings.ToUpper(f.Name())
			}
		case *ssa.Call:
			if b, ok := x.Call.Value.(*ssa.Builtin); ok && b.Name() == "len" {
				switch x.Call.Args[0] {
				case xs:
					r = "X"
				case ys:
					r = "Y"
				}
			}
			if b, ok := x.Call.Value.(*ssa.Builtin); ok && (b.Name() == "min" || b.Name() == "max") {
				r = "*"
				for _, a := range x.Call.Args {
					da := dim(a, depth+1)
					if da == "X" || da == "Y" {
						if r != "*" && r != da {
							r = "!"
						} else {
							r = da
						}
					}
				}
			}
		case *ssa.BinOp:
			if x.Op == token.ADD || x.Op == token.SUB {
				a, b := dim(x.X, depth+1), dim(x.Y, depth+1)
				switch {
				case a == "*" || a == "?":
					r = b
				case b == "*" || b == "?":
					r = a
				case a == b && x.Op == token.SUB:
					r = "*" // a difference of two positions on one side is a plain count
				case a == b:
					r = a
				default:
					r = "!"
				}
			}
		case *ssa.Phi:
			r = "*"
			for _, e := range x.Edges {
				de := dim(e, depth+1)
				if de == "X" || de == "Y" {
					if r != "*" && r != de {
						r = "!"
					} else {
						r = de
					}
				}
			}
		case *ssa.Convert:
			r = dim(x.X, depth+1)
		}
		memo[v] = r
		return r
	}
	compat := func(a, b string) bool {
		return a == b || a == "*" || b == "*" || a == "?" || b == "?"
	}
	n := 0
	g.Instrs(func(i ssa.Instruction) {
		switch x := i.(type) {
		case *ssa.BinOp:
			switch x.Op {
			case token.LSS, token.LEQ, token.GTR, token.GEQ, token.EQL, token.NEQ:
			default:
				return
			}
			if !isIntT(x.X.Type()) {
				return
			}
			a, b := dim(x.X, 0), dim(x.Y, 0)
			if (a != "X" && a != "Y") || (b != "X" && b != "Y") {
				return
			}
			n++
			ctx.Check(compat(a, b), "F9", "diff.Diff#compare"+itoa(n), x.Pos(), "comparison between a %s-side and a %s-side position", a, b)
		case *ssa.IndexAddr:
			want := ""
			switch x.X {
			case xs:
				want = "X"
			case ys:
				want = "Y"
			default:
				return
			}
			di := dim(x.Index, 0)
			n++
			ctx.Check(compat(di, want), "F9", "diff.Diff#index"+itoa(n), x.Pos(), "%s-side line table indexed with a %s-side position", want, di)
		case *ssa.Slice:
			want := ""
			switch x.X {
			case xs:
				want = "X"
			case ys:
				want = "Y"
			default:
				return
			}
			for _, bnd := range []ssa.Value{x.Low, x.High} {
				if bnd == nil {
					continue
				}
				n++
				ctx.Check(compat(dim(bnd, 0), want), "F9", "diff.Diff#slice"+itoa(n), x.Pos(), "%s-side line table sliced with a %s-side bound", want, dim(bnd, 0))
			}
		}
	})
}

// structOrigin follows a local struct that is a whole-value copy of another local
// struct (a by-value parameter of a function merged into its caller) to the
// original, as long as the copy's own fields are not written.
func structOrigin(al *ssa.Alloc) *ssa.Alloc {
	for depth := 0; depth < 4; depth++ {
		var src *ssa.Alloc
		whole := 0
		fieldWrites := false
		for _, r := range ssax.Referrers(al) {
			switch x := r.(type) {
			case *ssa.Store:
				if x.Addr == ssa.Value(al) {
					whole++
					if ld, ok := x.Val.(*ssa.UnOp); ok && ld.Op == token.MUL {
						if b, ok := ld.X.(*ssa.Alloc); ok {
							src = b
						}
					}
				}
			case *ssa.FieldAddr:
				for _, rr := range ssax.Referrers(x) {
					if st, ok := rr.(*ssa.Store); ok && st.Addr == ssa.Value(x) {
						fieldWrites = true
					}
				}
			}
		}
		if whole != 1 || src == nil || fieldWrites {
			return al
		}
		al = src
	}
	return al
}

// memLoc names a storage location of the function: a local variable (its Alloc, followed
// through whole-value copies) and a field path inside it.
type memLoc struct {
	root ssa.Value
	path string
}

func (l memLoc) String() string {
	name := "?"
	if al, ok := l.root.(*ssa.Alloc); ok && al.Comment != "" {
		name = al.Comment
	} else if l.root != nil {
		name = l.root.Name()
	}
	return name + l.path
}

func (l memLoc) parent() (memLoc, string) {
	k := strings.LastIndex(l.path, ".")
	if k < 0 {
		return l, ""
	}
	return memLoc{l.root, l.path[:k]}, l.path[k+1:]
}

func (l memLoc) child(f string) memLoc { return memLoc{l.root, l.path + "." + f} }

// addrLoc resolves an address to the location it denotes.
func addrLoc(a ssa.Value) (memLoc, bool) {
	switch x := a.(type) {
	case *ssa.Alloc:
		return memLoc{structOrigin(x), ""}, true
	case *ssa.FieldAddr:
		l, ok := addrLoc(x.X)
		if !ok {
			return memLoc{}, false
		}
		f := ssax.FieldOf(x)
		if f == nil {
			return memLoc{}, false
		}
		return l.child(f.Name()), true
	}
	return memLoc{}, false
}

// readLoc resolves a value that is a read of a location: a load through an address, or a
// field selected from a loaded struct value.
func readLoc(v ssa.Value) (memLoc, bool) {
	switch x := v.(type) {
	case *ssa.UnOp:
		if x.Op == token.MUL {
			return addrLoc(x.X)
		}
	case *ssa.Field:
		if l, ok := readLoc(x.X); ok {
			if f := ssax.FieldOf(x); f != nil {
				return l.child(f.Name()), true
			}
		}
	}
	return memLoc{}, false
}
