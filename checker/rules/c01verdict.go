package rules

import (
	"go/token"
	"strings"

	"golang.org/x/tools/go/ssa"

	"verif/checker/core"
	"verif/checker/ssax"
)

type atomFn func(v ssa.Value, nilness bool) ssax.Abs

// continuation explores from start and reports whether a normal continuation
// (return, or the next loop iteration when perIter) is reachable, and whether
// every abnormal end is a Fatalf.
func continuation(g *ssax.Graph, start ssax.Point, assume atomFn, perIter bool) (normal bool, fatal int, overflow bool, witness string) {
	ex := &ssax.Explorer{G: g, Assume: assume, StopAtStart: perIter}
	for _, e := range ex.Run(start) {
		switch e.Kind {
		case ssax.ExitReturn, ssax.ExitRevisit:
			normal = true
			witness = strings.Join(e.Trail, " > ")
		case ssax.ExitCut:
			if ssax.IsCallTo(e.Last, tsFatalf) {
				fatal++
			}
		}
	}
	return normal, fatal, ex.Overflow, witness
}

func combine(fs ...atomFn) atomFn {
	return func(v ssa.Value, nilness bool) ssax.Abs {
		for _, f := range fs {
			if f == nil {
				continue
			}
			if a := f(v, nilness); a != ssax.Unknown {
				return a
			}
		}
		return ssax.Unknown
	}
}

func boolAtom(m func(ssa.Value) bool, val bool) atomFn {
	return func(v ssa.Value, nilness bool) ssax.Abs {
		if !nilness && m(v) {
			return ssax.AbsOf(val)
		}
		return ssax.Unknown
	}
}

func nilAtom(m func(ssa.Value) bool, isNil bool) atomFn {
	return func(v ssa.Value, nilness bool) ssax.Abs {
		if nilness && m(v) {
			return ssax.AbsOf(isNil)
		}
		return ssax.Unknown
	}
}

// ctxErr matches ts.ctxt.Err().
func isCtxErr(v ssa.Value) bool {
	c, ok := v.(*ssa.Call)
	return ok && c.Call.IsInvoke() && c.Call.Method.Name() == "Err" && strings.Contains(c.Call.Method.FullName(), "context.Context")
}

type implications struct{ I1, I2, I3, I4, Timeout bool }

func checkVerdict(ctx *core.Ctx, key string, pos token.Pos, g *ssax.Graph, start ssax.Point, neg func(bool) atomFn, outcome func(success bool) atomFn, extra atomFn, perIter bool, want implications) {
	live := nilAtom(isCtxErr, true)     // context not expired
	expired := nilAtom(isCtxErr, false) // context expired
	type row struct {
		id      string
		neg     bool
		success bool
		ctx     atomFn
		normal  bool // expected: a normal continuation exists
		on      bool
		text    string
	}
	rows := []row{
		{"I1", true, true, live, false, want.I1, "negated and the command succeeded => the line must fail"},
		{"I2", false, false, live, false, want.I2, "not negated and the command failed => the line must fail"},
		{"I3", false, true, live, true, want.I3, "not negated and the command succeeded => the line must be able to pass"},
		{"I4", true, false, live, true, want.I4, "negated and the command failed => the line must be able to pass"},
		{"T-neg", true, false, expired, false, want.Timeout, "context expired and the command failed => the line fails even when negated"},
		{"T-pos", false, false, expired, false, want.Timeout, "context expired and the command failed => the line fails"},
	}
	for _, r := range rows {
		if !r.on {
			continue
		}
		normal, fatal, overflow, wit := continuation(g, start, combine(neg(r.neg), outcome(r.success), r.ctx, extra), perIter)
		ok := normal == r.normal && !overflow
		if !r.normal {
			ok = ok && fatal > 0
		}
		detail := ""
		if normal {
			detail = "normal continuation via " + wit
		}
		ctx.Check(ok, "V8", key+":"+r.id, pos, "%s (normal continuation reachable=%v, Fatalf ends=%d) %s", r.text, normal, fatal, detail)
	}
}

func c01Verdicts(ctx *core.Ctx, cmds map[string]*ssa.Function) {
	p := ctx.P
	paramAtom := func(par ssa.Value) func(bool) atomFn {
		return func(val bool) atomFn { return boolAtom(isVal(par), val) }
	}
	negField := func(val bool) atomFn { return boolAtom(isFieldLoad("neg"), val) }
	noUpdate := boolAtom(isFieldLoad("UpdateScripts"), false)

	// (a)/(b) exec
	if f := cmds["exec"]; f != nil {
		g := graph(p, f)
		for _, c := range g.Calls("(*" + tsPkg + ".TestScript).exec") {
			errv := ssax.Extracted(c, 2)
			checkVerdict(ctx, "testscript.cmdExec#foreground", c.Pos(), g, ssax.PointAfter(c), paramAtom(f.Params[1]),
				func(s bool) atomFn { return nilAtom(isVal(errv), s) }, nil, false, implications{true, true, true, true, true})
		}
		for _, c := range g.Calls("(*" + tsPkg + ".TestScript).execBackground") {
			errv := ssax.Extracted(c, 1)
			checkVerdict(ctx, "testscript.cmdExec#background-start", c.Pos(), g, ssax.PointAfter(c), paramAtom(f.Params[1]),
				func(s bool) atomFn { return nilAtom(isVal(errv), s) }, nil, false, implications{false, true, true, true, false})
		}
	}
	// (c) waitBackground
	isSuccess := func(v ssa.Value) bool {
		c, ok := v.(*ssa.Call)
		return ok && ssax.CalleeName(&c.Call) == "(*os.ProcessState).Success"
	}
	if f := ctx.Need("V8", "testscript", "(*TestScript).waitBackground"); f != nil {
		g := graph(p, f)
		cs := p.Func("testscript", "(*TestScript).waitBackground").Params[1]
		for _, c := range g.Instrs2Calls(func(c *ssa.Call) bool { return isSuccess(c) }) {
			checkVerdict(ctx, "testscript.waitBackground#status", c.Pos(), g, ssax.PointAt(c), negField,
				func(s bool) atomFn { return boolAtom(isSuccess, s) }, boolAtom(isVal(cs), true), true, implications{true, true, true, true, true})
		}
		// checkStatus=false: never Fatalf
		_, fatal, overflow, _ := continuation(g, ssax.Point{Block: 0}, boolAtom(isVal(cs), false), false)
		ctx.Check(fatal == 0 && !overflow, "V8", "testscript.waitBackground#end-of-script", f.Pos(), "with checkStatus=false (end of script, background status ignored) no path reaches Fatalf (Fatalf ends: %d)", fatal)
		// every caller passes a constant
		for _, caller := range p.ModFuncs() {
			for k, c := range graph(p, caller).Calls(ssax.FuncName(f)) {
				_, isConst := ssax.ConstBool(c.Call.Args[1])
				ctx.Check(isConst, "V8", shortFn(caller)+"#waitBackground-arg"+itoa(k+1), c.Pos(), "waitBackground is called with a constant checkStatus")
			}
		}
	}
	if f := ctx.Need("V8", "testscript", "(*TestScript).waitBackgroundOne"); f != nil {
		g := graph(p, f)
		for _, c := range g.Instrs2Calls(func(c *ssa.Call) bool { return isSuccess(c) }) {
			checkVerdict(ctx, "testscript.waitBackgroundOne#status", c.Pos(), g, ssax.PointAt(c), negField,
				func(s bool) atomFn { return boolAtom(isSuccess, s) }, nil, false, implications{true, true, true, true, true})
		}
	}
	// (e) scriptMatch
	if f := ctx.Need("V8", "testscript", "scriptMatch"); f != nil {
		g := graph(p, f)
		isMatch := func(v ssa.Value) bool {
			c, ok := v.(*ssa.Call)
			return ok && ssax.CalleeName(&c.Call) == "(*regexp.Regexp).MatchString"
		}
		n := len(g.Instrs2Calls(func(c *ssa.Call) bool { return isMatch(c) }))
		if n == 0 {
			ctx.Bad("V8", "testscript.scriptMatch#match", f.Pos(), "no regexp match found")
		} else {
			// start after the pattern compiled: the Check(err) call following regexp.Compile
			start := ssax.Point{Block: 0}
			for _, c := range g.Calls("regexp.Compile") {
				start = ssax.PointAfter(c)
			}
			checkVerdict(ctx, "testscript.scriptMatch#match", f.Pos(), g, start, paramAtom(f.Params[1]),
				func(s bool) atomFn { return boolAtom(isMatch, s) }, nil, false, implications{true, true, true, true, false})
		}
	}
	// (e2) -count=N is exact: all matches are counted and any difference fails
	if f := p.Func("testscript", "scriptMatch"); f != nil {
		g := graph(p, f)
		calls := g.Calls("(*regexp.Regexp).FindAllString", "(*regexp.Regexp).FindAllStringIndex", "(*regexp.Regexp).FindAllIndex")
		if len(calls) == 0 {
			ctx.Bad("V8", "testscript.scriptMatch#count-exact", f.Pos(), "-count=N: no counting of matches found")
		}
		for k, c := range calls {
			lim, isK := ssax.ConstInt(c.Call.Args[len(c.Call.Args)-1])
			all := isK && lim < 0
			// the Fatalf that reports the mismatch is on a != edge between the count and N
			neq := false
			for _, fc := range g.Calls(tsFatalf) {
				if cmpFact(g.FactsAtInstr(fc), token.NEQ, isLenOf(c), anyVal) {
					neq = true
				}
			}
			ctx.Check(all && neq, "V8", "testscript.scriptMatch#count-exact"+itoa(k+1), c.Pos(), "-count=N counts every match (limit < 0: %v) and fails on any difference (count != N: %v); a capped count accepts too many matches", all, neq)
		}
	}
	// (f) doCmdCmp
	if f := ctx.Need("V8", "testscript", "(*TestScript).doCmdCmp"); f != nil {
		g := graph(p, f)
		var eq *ssa.BinOp
		g.Instrs(func(i ssa.Instruction) {
			b, ok := i.(*ssa.BinOp)
			if ok && b.Op == token.EQL && isSeqT(b.X.Type()) {
				if _, c1 := ssax.ConstString(b.X); !c1 {
					if _, c2 := ssax.ConstString(b.Y); !c2 {
						// the content comparison: operands derive from file contents, not from the two names
						if ssax.DerivedFrom(b.X, func(v ssa.Value) bool {
							c, ok := v.(*ssa.Call)
							return ok && strings.HasSuffix(ssax.CalleeName(&c.Call), ".ReadFile")
						}, nil) {
							eq = b
						}
					}
				}
			}
		})
		if eq == nil {
			ctx.Bad("V8", "testscript.doCmdCmp#compare", f.Pos(), "content comparison not found")
		} else {
			checkVerdict(ctx, "testscript.doCmdCmp#compare", eq.Pos(), g, ssax.PointAfter(eq), paramAtom(f.Params[1]),
				func(s bool) atomFn { return boolAtom(isVal(eq), s) }, noUpdate, false, implications{true, true, true, true, false})
		}
	}
	// (g) exists
	if f := cmds["exists"]; f != nil {
		g := graph(p, f)
		for _, c := range g.Calls("os.Stat") {
			errv := ssax.Extracted(c, 1)
			checkVerdict(ctx, "testscript.cmdExists#stat", c.Pos(), g, ssax.PointAfter(c), paramAtom(f.Params[1]),
				func(s bool) atomFn { return nilAtom(isVal(errv), s) }, nil, true, implications{true, true, true, true, false})
		}
	}
	// (h) gotooltest go
	if f := p.Func("gotooltest", "cmdGo"); f != nil {
		g := graph(p, f)
		ctx.Seen(f)
		for _, c := range g.Calls("(*" + tsPkg + ".TestScript).Exec") {
			checkVerdict(ctx, "gotooltest.cmdGo#exec", c.Pos(), g, ssax.PointAfter(c), paramAtom(f.Params[1]),
				func(s bool) atomFn { return nilAtom(isVal(c), s) }, nil, false, implications{true, true, true, true, false})
		}
	}
}

// mayRaise: can f reach Fatalf/Check (transitively) under constant bindings of its parameters?
func mayRaise(p *core.Prog, f *ssa.Function, bind map[ssa.Value]ssax.Abs, depth int, seen map[*ssa.Function]bool) (bool, string) {
	if f == nil || f.Blocks == nil || !core.InModule(f) || depth > 4 {
		return false, ""
	}
	if catches(p, f) {
		return false, ""
	}
	if seen[f] {
		return false, ""
	}
	seen[f] = true
	defer delete(seen, f)
	g := graph(p, f)
	raised, where := false, ""
	ex := &ssax.Explorer{G: g, Assume: func(v ssa.Value, nilness bool) ssax.Abs {
		if a, ok := bind[v]; ok && !nilness {
			return a
		}
		return ssax.Unknown
	}, Visit: func(i ssa.Instruction) ssax.Action {
		c := ssax.CallOf(i)
		if c == nil {
			return ssax.Continue
		}
		if _, isGo := i.(*ssa.Go); isGo {
			return ssax.Continue
		}
		n := ssax.CalleeName(c)
		if n == tsFatalf || n == tsCheck {
			raised, where = true, shortFn(f)+" -> "+n[strings.LastIndex(n, ".")+1:]+" at "+p.Pos(i.Pos())
			return ssax.Continue
		}
		if cal := c.StaticCallee(); cal != nil {
			b2 := map[ssa.Value]ssax.Abs{}
			for ai, a := range c.Args {
				if k, ok := ssax.ConstBool(a); ok && ai < len(cal.Params) {
					b2[cal.Params[ai]] = ssax.AbsOf(k)
				}
			}
			if r, w := mayRaise(p, cal, b2, depth+1, seen); r {
				raised, where = true, shortFn(f)+" -> "+w
			}
		}
		return ssax.Continue
	}}
	ex.Run(ssax.Point{Block: 0})
	return raised, where
}

// catches: f registers `defer catchFailNow(...)` in its entry block.
func catches(p *core.Prog, f *ssa.Function) bool {
	if len(f.Blocks) == 0 {
		return false
	}
	for _, i := range f.Blocks[0].Instrs {
		if d, ok := i.(*ssa.Defer); ok {
			if cal := d.Call.StaticCallee(); cal != nil && cal.Name() == "catchFailNow" {
				return true
			}
		}
	}
	return false
}

func c01FatalScope(ctx *core.Ctx) {
	p := ctx.P
	run := p.Func("testscript", "(*TestScript).run")
	runT := p.Func("testscript", "RunT")
	if run == nil || runT == nil {
		ctx.Unknown("V11", "testscript.run", token.NoPos, "run/RunT not found")
		return
	}
	// frames outside any catch: run, its closures, RunT's closures
	var frames []*ssa.Function
	var add func(f *ssa.Function)
	add = func(f *ssa.Function) {
		frames = append(frames, f)
		for _, a := range f.AnonFuncs {
			add(a)
		}
	}
	add(run)
	for _, a := range runT.AnonFuncs {
		add(a)
	}
	n := 0
	for _, f := range frames {
		g := graph(p, f)
		ctx.Seen(f)
		g.Instrs(func(i ssa.Instruction) {
			c := ssax.CallOf(i)
			if c == nil {
				return
			}
			if _, isGo := i.(*ssa.Go); isGo {
				return
			}
			cal := c.StaticCallee()
			name := ssax.CalleeName(c)
			direct := name == tsFatalf || name == tsCheck
			if cal == nil && !direct {
				return
			}
			if cal != nil && (!core.InModule(cal) || cal.Pkg != p.Pkg("testscript")) && !direct {
				return
			}
			if cal == run || (cal != nil && cal.Parent() != nil && !direct) {
				return // closures are frames themselves; run is analysed as a frame
			}
			bind := map[ssa.Value]ssax.Abs{}
			if cal != nil {
				for ai, a := range c.Args {
					if k, ok := ssax.ConstBool(a); ok && ai < len(cal.Params) {
						bind[cal.Params[ai]] = ssax.AbsOf(k)
					}
					if ssax.IsNil(a) && ai < len(cal.Params) {
						// nil slice: len == 0; handled by the callee's own guards (not bound)
					}
				}
			}
			raises, where := direct, name
			if !direct {
				raises, where = mayRaise(p, cal, bind, 0, map[*ssa.Function]bool{})
			}
			n++
			kind := "call"
			if _, isDefer := i.(*ssa.Defer); isDefer {
				kind = "deferred call"
			}
			key := shortFn(f) + "#" + kind + ":" + strings.TrimPrefix(name, "(*"+tsPkg+".TestScript).")
			if !raises {
				ctx.OK("V11", key, i.Pos(), "%s of %s outside a catch frame cannot raise the sentinel under the arguments passed (or the callee installs its own catch frame)", kind, shortFn(cal))
			} else {
				ctx.Bad("V11", key, i.Pos(), "%s outside any catch frame can raise the Fatalf sentinel (%s): the panic escapes run without T.FailNow, so the harness sees a raw 'fail now!' panic (or, under a recovering T, a pass) instead of a failed script", kind, where)
			}
		})
	}
}
