package rules

import (
	"go/token"
	"strings"

	"golang.org/x/tools/go/ssa"

	"verif/checker/core"
	"verif/checker/ssax"
)

// Rules added after the fifth seeding round (C14, C15, C16, C17, C19).

// c16Round5: every copy of the entry is updated, with the recorded bytes, and only for cmp.
func c16Round5(ctx *core.Ctx) {
	p := ctx.P
	ctx.Rule("U12", "every entry of that name is rewritten: the loop over the archive's files in applyScriptUpdates runs to the end of the list (entry names may repeat; the last copy is the one the script sees, so stopping at the first leaves the effective entry stale)", 1)
	ctx.Rule("U13", "what is written is what was recorded: the bytes stored into the entry derive from the recorded content by conversion and quoting only - no Trim/Replace/Fields call on the way (trailing blank lines, say, are content)", 1)
	ctx.Rule("U14", "cmpenv never updates: the flag that keeps cmpenv out of the update branch of doCmdCmp is the function's own parameter, read-only (a copy that is cleared 'when nothing was expanded' lets cmpenv rewrite its golden file)", 1)
	if au := p.Func("testscript", "(*TestScript).applyScriptUpdates"); au != nil {
		g := graph(p, au)
		n := 0
		for k, l := range elementLoops(g, func(v ssa.Value) bool { return isFieldLoad("Files")(v) }) {
			n++
			ux := uncountedExits(g, l)
			ctx.Check(len(ux) == 0, "U12", "testscript.applyScriptUpdates#files-loop"+itoa(k+1), au.Blocks[l.Header].Instrs[0].Pos(), "the loop over the archive's files is left only at the end of the list")
		}
		if n == 0 {
			ctx.Unknown("U12", "testscript.applyScriptUpdates#files-loop", au.Pos(), "no loop over the archive's files found")
		}
		m := 0
		g.Instrs(func(i ssa.Instruction) {
			st, ok := i.(*ssa.Store)
			if !ok {
				return
			}
			fa, ok := st.Addr.(*ssa.FieldAddr)
			if !ok || !isNamed(fa.X.Type(), txtarFile, "File") || ssax.FieldOf(fa) == nil || ssax.FieldOf(fa).Name() != "Data" {
				return
			}
			m++
			culprit := ""
			ssax.DerivedFrom(st.Val, func(v ssa.Value) bool {
				if c, ok := v.(*ssa.Call); ok {
					nm := ssax.CalleeName(&c.Call)
					if (strings.HasPrefix(nm, "bytes.") || strings.HasPrefix(nm, "strings.")) && !strings.HasSuffix(nm, ".Clone") {
						culprit = nm
					}
				}
				return false
			}, nil)
			ctx.Check(culprit == "", "U13", "testscript.applyScriptUpdates#data"+itoa(m), st.Pos(), "the stored bytes are the recorded content, possibly quoted %s", culprit)
		})
		if m == 0 {
			ctx.Unknown("U13", "testscript.applyScriptUpdates#data", au.Pos(), "no store into an entry's Data found")
		}
	}
	if cmp := p.Func("testscript", "(*TestScript).doCmdCmp"); cmp != nil && len(cmp.Params) >= 4 {
		g := graph(p, cmp)
		envP := cmp.Params[3]
		m := 0
		g.Instrs(func(i ssa.Instruction) {
			ifi, ok := i.(*ssa.If)
			if !ok {
				return
			}
			// the gate: a condition involving Params.UpdateScripts
			usesUpdate := ssax.DerivedFrom(ifi.Cond, func(v ssa.Value) bool { return isFieldLoad("UpdateScripts")(v) }, nil)
			if !usesUpdate {
				return
			}
			m++
			// every boolean that takes part in the gate and is not the UpdateScripts flag must be the env parameter itself
			okEnv := true
			var leaves func(v ssa.Value, depth int)
			leaves = func(v ssa.Value, depth int) {
				v, _ = stripNotB(v, true)
				if depth > 6 {
					return
				}
				switch x := v.(type) {
				case *ssa.Phi:
					for _, e := range x.Edges {
						if _, isK := ssax.ConstBool(e); isK {
							continue
						}
						leaves(e, depth+1)
					}
				case *ssa.Parameter:
					if x != envP {
						okEnv = false
					}
				case *ssa.UnOp:
					if x.Op == token.MUL && isFieldLoad("UpdateScripts")(x) {
						return
					}
					if x.Op == token.MUL {
						// a local copy of the flag
						okEnv = false
					}
				}
			}
			leaves(ifi.Cond, 0)
			ctx.Check(okEnv, "U14", "testscript.doCmdCmp#update-gate"+itoa(m), ifi.Pos(), "the update branch is closed to cmpenv by the env parameter itself")
		})
		// the parameter is never assigned (go/ssa turns an assigned parameter into a cell or phi; seeing a store
		// through its cell, or a phi merged from it and a constant in a gate, is what the check above catches)
		if m == 0 {
			ctx.Unknown("U14", "testscript.doCmdCmp#update-gate", cmp.Pos(), "no condition on Params.UpdateScripts found in doCmdCmp")
		}
	}
}

// c14Round5: the quoting functions do not read their input through a tokenising reader.
func c14Round5(ctx *core.Ctx) {
	p := ctx.P
	ctx.Rule("Q10", "byte-preserving: Quote, Unquote and NeedsQuote do not read their input through bufio.Scanner/Reader or strings/bytes.Fields (a Scanner drops the CR of CRLF lines and stops at a 64 KiB line without a word)", 1)
	n := 0
	for _, nm := range []string{"Quote", "Unquote", "NeedsQuote"} {
		f := p.Func("txtar", nm)
		if f == nil {
			continue
		}
		for _, fn := range reachableMod(p, []*ssa.Function{f}, nil) {
			n++
			bad := ""
			graph(p, fn).Instrs(func(i ssa.Instruction) {
				if c := ssax.CallOf(i); c != nil {
					cn := ssax.CalleeName(c)
					if strings.HasPrefix(cn, "bufio.") || strings.HasPrefix(cn, "(*bufio.") || cn == "bytes.Fields" || cn == "strings.Fields" {
						bad = cn
					}
				}
			})
			ctx.Check(bad == "", "Q10", "txtar."+nm+"#"+shortFn(fn)+"#byte-preserving", fn.Pos(), "no tokenising reader on the way %s", bad)
		}
	}
	if n == 0 {
		ctx.Unknown("Q10", "txtar#quoting-functions", token.NoPos, "quoting functions not found")
	}
}

// c15Round5: txtar-x parses the whole of standard input.
func c15Round5(ctx *core.Ctx) {
	p := ctx.P
	ctx.Rule("X10", "the whole archive is read: txtar-x hands io.ReadAll the standard input itself (a LimitReader in between cuts a large archive short, and the cut entry is still extracted with exit status 0)", 1)
	m := p.Func("cmd/txtar-x", "main")
	if m == nil {
		ctx.Unknown("X10", "txtar-x.main", token.NoPos, "main not found")
		return
	}
	n := 0
	for _, f := range reachableMod(p, []*ssa.Function{m}, nil) {
		if f.Pkg != m.Pkg {
			continue
		}
		for _, c := range graph(p, f).Calls("io.ReadAll") {
			n++
			src := ssax.Strip(c.Call.Args[0])
			ok := false
			if u, isU := src.(*ssa.UnOp); isU && u.Op == token.MUL {
				if gl, isG := u.X.(*ssa.Global); isG && gl.Name() == "Stdin" && gl.Pkg != nil && gl.Pkg.Pkg.Path() == "os" {
					ok = true
				}
			}
			ctx.Check(ok, "X10", shortFn(f)+"#read-all"+itoa(n), c.Pos(), "io.ReadAll reads os.Stdin directly")
		}
	}
	if n == 0 {
		ctx.Note("X10", "txtar-x#read-all", m.Pos(), "txtar-x does not use io.ReadAll; clause not decided")
	}
}

// c17Round5: only the watcher decides when a command's Wait gives up.
func c17Round5(ctx *core.Ctx) {
	p := ctx.P
	ctx.Rule("DL9", "no second timer on commands: package testscript never sets exec.Cmd.WaitDelay or Cmd.Cancel (WaitDelay also runs when the command exits normally and fails a command that finished in time but left a child holding its output)", 0)
	n := 0
	for _, f := range p.ModFuncs() {
		top := f
		for top.Parent() != nil {
			top = top.Parent()
		}
		if top.Pkg != p.Pkg("testscript") {
			continue
		}
		graph(p, f).Instrs(func(i ssa.Instruction) {
			st, ok := i.(*ssa.Store)
			if !ok {
				return
			}
			fa, ok := st.Addr.(*ssa.FieldAddr)
			if !ok || !isNamed(fa.X.Type(), "os/exec", "Cmd") || ssax.FieldOf(fa) == nil {
				return
			}
			if nm := ssax.FieldOf(fa).Name(); nm == "WaitDelay" || nm == "Cancel" {
				n++
				ctx.Bad("DL9", shortFn(f)+"#cmd-"+nm+itoa(n), st.Pos(), "exec.Cmd.%s is set: os/exec then enforces a deadline of its own on this command", nm)
			}
		})
	}
	if n == 0 {
		ctx.OK("DL9", "testscript#no-cmd-timers", token.NoPos, "no store to Cmd.WaitDelay or Cmd.Cancel in package testscript")
	}
	// DL10: once the command runs, the watcher is the next thing that happens
	ctx.Rule("DL10", "nothing between start and watch: in the foreground exec no call lies between the successful Cmd.Start and waitOrStop (a synchronous write of the script's stdin into a pipe there blocks for ever on a command that does not read, and the deadline is never enforced)", 1)
	if ex := p.Func("testscript", "(*TestScript).exec"); ex != nil {
		g := graph(p, ex)
		starts := g.Calls("(*os/exec.Cmd).Start")
		k := 0
		for _, st := range starts {
			k++
			var culprit ssa.Instruction
			var watch []*ssa.Call
			g.Instrs(func(i ssa.Instruction) {
				if c, ok := i.(*ssa.Call); ok && strings.HasSuffix(ssax.CalleeName(&c.Call), ".waitOrStop") {
					watch = append(watch, c)
				}
			})
			g.Instrs(func(i ssa.Instruction) {
				c, ok := i.(*ssa.Call)
				if !ok || culprit != nil || strings.HasSuffix(ssax.CalleeName(&c.Call), ".waitOrStop") {
					return
				}
				if _, isB := c.Call.Value.(*ssa.Builtin); isB {
					return
				}
				// only what happens where Start is known to have succeeded
				if !g.Dominates(st, c) || !ssax.KnownNil(g.FactsAtInstr(c), st, true) {
					return
				}
				for _, w := range watch {
					if g.Dominates(w, c) {
						return
					}
				}
				culprit = c
			})
			var hit ssa.Instruction = culprit
			where := ""
			if culprit != nil {
				where = "found " + culprit.String()
			}
			ctx.Check(hit == nil, "DL10", "testscript.exec#start-then-watch"+itoa(k), st.Pos(), "after a successful Start the next call is waitOrStop %s", where)
		}
		if k == 0 {
			ctx.Note("DL10", "testscript.exec#start-then-watch", ex.Pos(), "exec does not start a command")
		}
	}
}

// c19Round5: the _test suffix is looked through before anything is read as GOOS or GOARCH.
func c19Round5(ctx *core.Ctx) {
	p := ctx.P
	ctx.Rule("B10", "_test is looked through first: in MatchFile every look-up in the known-OS and known-architecture tables comes after the test of the last name element against \"test\" (x_windows_amd64_test.go is constrained by windows and amd64, not by amd64 alone)", 1)
	mf := p.Func("imports", "MatchFile")
	if mf == nil {
		ctx.Unknown("B10", "imports.MatchFile", token.NoPos, "MatchFile not found")
		return
	}
	g := graph(p, mf)
	var testCmp ssa.Instruction
	g.Instrs(func(i ssa.Instruction) {
		if b, ok := i.(*ssa.BinOp); ok && (b.Op == token.EQL || b.Op == token.NEQ) && (isConstStr("test")(b.X) || isConstStr("test")(b.Y)) {
			testCmp = b
		}
	})
	n := 0
	g.Instrs(func(i ssa.Instruction) {
		lk, ok := i.(*ssa.Lookup)
		if !ok {
			return
		}
		u, ok := lk.X.(*ssa.UnOp)
		if !ok {
			return
		}
		gl, ok := u.X.(*ssa.Global)
		if !ok || (gl.Name() != "KnownOS" && gl.Name() != "KnownArch") {
			return
		}
		n++
		after := testCmp != nil
		if after {
			// the comparison with "test" cannot still lie ahead of this look-up
			hit, _ := g.ReachableWithout(ssax.PointAfter(lk), func(j ssa.Instruction) bool { return j == testCmp }, nil)
			after = hit == nil
		}
		ctx.Check(after, "B10", "imports.MatchFile#"+gl.Name()+"-lookup"+itoa(n), lk.Pos(), "the look-up comes after the _test element was considered")
	})
	if n == 0 {
		ctx.Unknown("B10", "imports.MatchFile#lookups", mf.Pos(), "MatchFile does not consult the known-name tables")
	}
}

// fixNLShape (round 6): the final-newline fix leaves empty data empty.
func fixNLShape(ctx *core.Ctx, rule string) {
	p := ctx.P
	ctx.Rule(rule, "an empty chunk stays empty: txtar's final-newline fix returns something other than its argument only for data known to be non-empty (a newline added to nothing turns a trailing empty file into a one-byte file, and an empty input into a one-line comment)", 1)
	f := p.Func("txtar", "fixNL")
	if f == nil || len(f.Params) != 1 {
		ctx.Note(rule, "txtar.fixNL", token.NoPos, "no fixNL function; clause not decided")
		return
	}
	g := graph(p, f)
	prm := f.Params[0]
	n := 0
	for _, r := range g.Returns() {
		rv := ssax.ReturnValues(r)[0]
		if rv == ssa.Value(prm) {
			continue
		}
		n++
		facts := g.FactsAtInstr(r)
		nonEmpty := cmpFact(facts, token.NEQ, isLenOf(prm), isConstIntV(0)) || cmpFact(facts, token.GTR, isLenOf(prm), isConstIntV(0)) || cmpFact(facts, token.GEQ, isLenOf(prm), isConstIntV(1))
		ctx.Check(nonEmpty, rule, "txtar.fixNL#changed-return"+itoa(n), r.Pos(), "a changed copy is returned only for non-empty data")
	}
	if n == 0 {
		ctx.Note(rule, "txtar.fixNL#changed-return", f.Pos(), "fixNL never returns anything but its argument")
	}
}

// mkAbsShape (round 6): MkAbs yields the argument itself (absolute) or filepath.Join(cd, argument) - a
// cleaned path, which is what the archive-entry table is keyed by.
func mkAbsShape(ctx *core.Ctx, rule string) {
	p := ctx.P
	ctx.Rule(rule, "MkAbs returns clean paths: every return of MkAbs is its argument (found absolute) or filepath.Join(TestScript.cd, argument); a concatenation 'when there is nothing to clean' keeps './x' and 'a//b' as written, and the look-up of archive entries by path (which decides whether cmp may update a file) misses", 1)
	f := p.Func("testscript", "(*TestScript).MkAbs")
	if f == nil || len(f.Params) < 2 {
		ctx.Unknown(rule, "testscript.MkAbs", token.NoPos, "MkAbs not found")
		return
	}
	g := graph(p, f)
	n := 0
	for _, r := range g.Returns() {
		n++
		ok := true
		for _, v := range g.ResolveAll(ssax.ReturnValues(r)[0], r) {
			if v == ssa.Value(f.Params[1]) {
				continue
			}
			c, isC := v.(*ssa.Call)
			if !isC || ssax.CalleeName(&c.Call) != "path/filepath.Join" {
				ok = false
				continue
			}
			el := variadicElems(c.Call.Args[0])
			if len(el) != 2 || !isFieldLoad("cd")(el[0]) || el[1] != ssa.Value(f.Params[1]) {
				ok = false
			}
		}
		ctx.Check(ok, rule, "testscript.MkAbs#return"+itoa(n), r.Pos(), "the result is the argument or filepath.Join(cd, argument)")
	}
}
