package rules

import (
	"fmt"
	"go/token"
	"go/types"
	"sort"
	"strings"

	"golang.org/x/tools/go/ssa"

	"verif/checker/boundx"
	"verif/checker/core"
	"verif/checker/ssax"
)

// shared per-program caches
type progInfo struct {
	nr  *ssax.NoRet
	env *boundx.Env
	gs  map[*ssa.Function]*ssax.Graph
}

var infoCache = map[*core.Prog]*progInfo{}

func info(p *core.Prog) *progInfo {
	if pi, ok := infoCache[p]; ok {
		return pi
	}
	pi := &progInfo{gs: map[*ssa.Function]*ssax.Graph{}}
	pi.nr = ssax.ComputeNoRet(p.ModFuncs())
	var pkgs []*ssa.Package
	for path, sp := range p.SSAPkgs {
		if strings.HasPrefix(path, core.ModPath) {
			pkgs = append(pkgs, sp)
		}
	}
	sort.Slice(pkgs, func(i, j int) bool { return pkgs[i].Pkg.Path() < pkgs[j].Pkg.Path() })
	pi.env = boundx.NewEnv(pkgs)
	infoCache[p] = pi
	return pi
}

func graph(p *core.Prog, f *ssa.Function) *ssax.Graph {
	pi := info(p)
	if g, ok := pi.gs[f]; ok {
		return g
	}
	g := ssax.NewGraph(f, pi.nr)
	pi.gs[f] = g
	return g
}

// reachableMod returns the module functions reachable from entries through
// static calls, closures created in them, and deferred/go calls.
func reachableMod(p *core.Prog, entries []*ssa.Function, stop func(*ssa.Function) bool) []*ssa.Function {
	seen := map[*ssa.Function]bool{}
	var order []*ssa.Function
	var visit func(f *ssa.Function)
	visit = func(f *ssa.Function) {
		if f == nil || seen[f] || f.Blocks == nil || !core.InModule(f) {
			return
		}
		if stop != nil && stop(f) {
			return
		}
		seen[f] = true
		order = append(order, f)
		g := graph(p, f)
		g.Instrs(func(i ssa.Instruction) {
			if c := ssax.CallOf(i); c != nil {
				visit(c.StaticCallee())
				if c.IsInvoke() {
					// interface call: every module type that implements the interface may be the receiver
					for _, m := range moduleImplementations(p, c) {
						visit(m)
					}
				}
			}
			if mc, ok := i.(*ssa.MakeClosure); ok {
				visit(mc.Fn.(*ssa.Function))
			}
			// function values passed as arguments (method values, funcs)
			for _, op := range i.Operands(nil) {
				if fn, ok := (*op).(*ssa.Function); ok {
					visit(fn)
				}
			}
		})
	}
	for _, e := range entries {
		visit(e)
	}
	return order
}

type totalOpts struct {
	rule string
	// allowPanic decides whether an explicit panic instruction is acceptable
	// (e.g. behind an iteration counter); returns a reason or "".
	allowPanic func(*ssa.Panic) string
	// assertOK may discharge a non-comma-ok type assertion.
	assertOK func(*ssa.TypeAssert) string
	// assume may discharge a site by a stated assumption (returns the text).
	assume func(fn *ssa.Function, s boundx.Site) string
	// stop prevents descending into a function (treated as trusted).
	stop func(*ssa.Function) bool
	// entriesArePublic: entry parameters carry no preconditions.
}

func siteOrdinalKey(fn *ssa.Function, kind string, n int) string {
	return fmt.Sprintf("%s#%s%d", shortFn(fn), kind, n)
}

func shortFn(fn *ssa.Function) string {
	s := ssax.FuncName(fn)
	s = strings.ReplaceAll(s, core.ModPath+"/", "")
	s = strings.ReplaceAll(s, core.ModPath, "")
	return s
}

// totality checks that no function reachable from entries can panic on an
// index, slice, type assertion, division or explicit panic.
// fieldsWritten: names of struct fields a function may write, transitively.
var fwCache = map[*ssa.Function]map[string]bool{}

func fieldsWritten(p *core.Prog, f *ssa.Function) map[string]bool {
	if m, ok := fwCache[f]; ok {
		return m
	}
	m := map[string]bool{}
	fwCache[f] = m
	for _, r := range reachableMod(p, []*ssa.Function{f}, nil) {
		for _, w := range writesIn(p, r) {
			if w.Field != nil {
				m[w.Field.Name()] = true
			}
		}
	}
	return m
}

func totality(ctx *core.Ctx, entries []*ssa.Function, o totalOpts) {
	p := ctx.P
	boundx.CalleeWrites = func(c *ssa.CallCommon, field string) bool {
		cal := c.StaticCallee()
		if cal == nil {
			// interface or function-value call: may run module code only through a closure or a
			// method of a module type; be conservative for function values, trust library interfaces
			if c.IsInvoke() {
				pk := c.Method.Pkg()
				return pk != nil && strings.HasPrefix(pk.Path(), core.ModPath)
			}
			return true
		}
		if !core.InModule(cal) {
			return false
		}
		return fieldsWritten(p, cal)[field]
	}
	fns := reachableMod(p, entries, o.stop)
	isEntry := map[*ssa.Function]bool{}
	for _, e := range entries {
		isEntry[e] = true
	}
	// interprocedural Houdini over parameter preconditions
	type pc struct {
		fn   *ssa.Function
		par  *ssa.Parameter
		k    int64
		kind string // "len>=" or "int>="
	}
	var cands []pc
	callers := map[*ssa.Function][]*ssa.Call{}
	unknownCallers := map[*ssa.Function]bool{}
	inSet := map[*ssa.Function]bool{}
	for _, f := range fns {
		inSet[f] = true
	}
	for _, f := range fns {
		graph(p, f).Instrs(func(i ssa.Instruction) {
			switch c := i.(type) {
			case *ssa.Call:
				if cal := c.Call.StaticCallee(); cal != nil && inSet[cal] {
					callers[cal] = append(callers[cal], c)
				}
			case *ssa.Go, *ssa.Defer:
				if cal := ssax.CallOf(i).StaticCallee(); cal != nil {
					unknownCallers[cal] = true
				}
			}
			for _, op := range i.Operands(nil) {
				if fn, ok := (*op).(*ssa.Function); ok {
					if c, isCall := i.(*ssa.Call); !isCall || c.Call.Value != fn {
						unknownCallers[fn] = true
					}
				}
			}
		})
	}
	for _, f := range fns {
		if isEntry[f] || unknownCallers[f] || len(callers[f]) == 0 || f.Parent() != nil {
			continue
		}
		if f.Object() != nil && f.Object().Exported() {
			continue // exported API: callers outside the analysed set exist
		}
		for _, par := range f.Params {
			if isSeqT(par.Type()) {
				for k := int64(1); k <= 3; k++ {
					cands = append(cands, pc{f, par, k, "len>="})
				}
			} else if isIntT(par.Type()) {
				cands = append(cands, pc{f, par, 0, "int>="})
			}
		}
	}
	alive := make([]bool, len(cands))
	for i := range alive {
		alive[i] = true
	}
	var ans map[*ssa.Function]*boundx.Analysis
	build := func() {
		ans = map[*ssa.Function]*boundx.Analysis{}
		for _, f := range fns {
			var pre []boundx.Aff
			for i, c := range cands {
				if alive[i] && c.fn == f {
					if c.kind == "len>=" {
						pre = append(pre, boundx.Sym("len("+c.par.Name()+")").Sub(boundx.K(c.k)))
					} else {
						pre = append(pre, boundx.Sym(c.par.Name()).Sub(boundx.K(c.k)))
					}
				}
			}
			ans[f] = boundx.New(graph(p, f), info(p).env, pre)
		}
	}
	for iter := 0; iter < 8; iter++ {
		build()
		changed := false
		for i, c := range cands {
			if !alive[i] {
				continue
			}
			idx := -1
			for k, par := range c.fn.Params {
				if par == c.par {
					idx = k
				}
			}
			for _, call := range callers[c.fn] {
				ca := ans[call.Parent()]
				arg := call.Call.Args[idx]
				var goal boundx.Aff
				if c.kind == "len>=" {
					goal = ca.L(arg).Sub(boundx.K(c.k))
				} else {
					goal = ca.I(arg).Sub(boundx.K(c.k))
				}
				if !ca.Entailed(call, goal) {
					alive[i] = false
					changed = true
					break
				}
			}
		}
		if !changed {
			break
		}
	}
	for i, c := range cands {
		if alive[i] {
			ctx.Note(o.rule, "precondition:"+shortFn(c.fn)+":"+c.par.Name()+c.kind+fmt.Sprint(c.k), c.fn.Pos(), "established at all %d call sites among the analysed functions", len(callers[c.fn]))
		}
	}
	for _, f := range fns {
		ctx.Seen(f)
		a := ans[f]
		counts := map[string]int{}
		for _, s := range a.Sites() {
			counts[s.Kind]++
			key := siteOrdinalKey(f, s.Kind, counts[s.Kind])
			if s.OK {
				ctx.OK(o.rule, key, s.Instr.Pos(), "%s in bounds on every path (facts from dominating guards, library predicates and loop invariants)", s.Kind)
				continue
			}
			if o.assume != nil {
				if why := o.assume(f, s); why != "" {
					ctx.AssumeOb(o.rule, key, s.Instr.Pos(), "%s not derivable from code facts; assumed: %s", s.Kind, why)
					ctx.Assume = append(ctx.Assume, why)
					continue
				}
			}
			ctx.Bad(o.rule, key, s.Instr.Pos(), "%s expression %s may be out of range: cannot establish %s; %s", s.Kind, s.Expr, strings.Join(s.Failed, " and "), s.Known)
		}
		// other panic sources
		g := graph(p, f)
		n := map[string]int{}
		g.Instrs(func(i ssa.Instruction) {
			switch x := i.(type) {
			case *ssa.Panic:
				n["panic"]++
				key := siteOrdinalKey(f, "panic", n["panic"])
				why := ""
				if o.allowPanic != nil {
					why = o.allowPanic(x)
				}
				if why == "" {
					why = panicUnreachable(g, x)
				}
				if why != "" {
					ctx.OK(o.rule, key, x.Pos(), "explicit panic accepted: %s", why)
				} else {
					ctx.Bad(o.rule, key, x.Pos(), "explicit panic reachable in a function required to be total")
				}
			case *ssa.TypeAssert:
				if x.CommaOk {
					return
				}
				n["assert"]++
				key := siteOrdinalKey(f, "assert", n["assert"])
				why := ""
				if o.assertOK != nil {
					why = o.assertOK(x)
				}
				if why != "" {
					ctx.OK(o.rule, key, x.Pos(), "type assertion cannot fail: %s", why)
				} else {
					ctx.Bad(o.rule, key, x.Pos(), "non-comma-ok type assertion to %s may panic", x.AssertedType)
				}
			case *ssa.BinOp:
				if (x.Op == token.QUO || x.Op == token.REM) && isIntT(x.X.Type()) {
					n["div"]++
					key := siteOrdinalKey(f, "div", n["div"])
					if k, ok := ssax.ConstInt(x.Y); ok && k != 0 {
						ctx.OKTrivial(o.rule, key, x.Pos(), "division by non-zero constant")
					} else if a.Entailed(x, a.I(x.Y).Sub(boundx.K(1))) {
						ctx.OK(o.rule, key, x.Pos(), "divisor proved positive")
					} else {
						ctx.Bad(o.rule, key, x.Pos(), "integer division: divisor not proved non-zero")
					}
				}
			case *ssa.Call:
				// a result that is only valid when the accompanying error is nil (os.Stat's FileInfo,
				// os.Open's *File, ...) is used - method call on it - only where that error was found nil
				var recv ssa.Value
				if x.Call.IsInvoke() {
					recv = x.Call.Value
				} else if cal := x.Call.StaticCallee(); cal != nil && cal.Signature.Recv() != nil && len(x.Call.Args) > 0 {
					recv = x.Call.Args[0]
				}
				ex, isEx := recv.(*ssa.Extract)
				if !isEx || ex.Index != 0 {
					return
				}
				src, isCall := ex.Tuple.(*ssa.Call)
				if !isCall {
					return
				}
				switch ssax.CalleeName(&src.Call) {
				case "os.Stat", "os.Lstat", "(*os.File).Stat", "os.Open", "os.OpenFile", "os.Create", "os.ReadDir":
				default:
					return
				}
				sig, _ := src.Call.Value.Type().Underlying().(*types.Signature)
				if sig == nil || sig.Results().Len() != 2 {
					return
				}
				// Close/Name on a nil *os.File do not panic; everything on a nil interface does
				if _, isPtr := recv.Type().Underlying().(*types.Pointer); isPtr {
					return
				}
				n["result"]++
				key := siteOrdinalKey(f, "result", n["result"])
				errv := ssax.Extracted(src, 1)
				asserted := false
				if errv != nil {
					// ts.Check(err) and the like: a module function that returns only when its error argument is nil
					g.Instrs(func(j ssa.Instruction) {
						ac, ok := j.(*ssa.Call)
						if !ok || asserted || !g.Dominates(ac, x) {
							return
						}
						cal := ac.Call.StaticCallee()
						if cal == nil || !core.InModule(cal) || cal.Blocks == nil {
							return
						}
						for k, a := range ac.Call.Args {
							if a == errv && k < len(cal.Params) && returnsOnlyOnNil(p, cal, cal.Params[k]) {
								asserted = true
							}
						}
					})
				}
				if errv != nil && (asserted || ssax.KnownNil(g.FactsAtInstr(x), errv, true)) {
					ctx.OK(o.rule, key, x.Pos(), "result of %s used only where its error was found nil", ssax.CalleeName(&src.Call))
				} else {
					ctx.Bad(o.rule, key, x.Pos(), "method called on the result of %s where its error is not known to be nil: the result is nil when the call failed, and the method call panics", ssax.CalleeName(&src.Call))
				}
			case *ssa.MakeSlice:
				if _, ok := ssax.ConstInt(x.Len); ok {
					return
				}
				n["make"]++
				key := siteOrdinalKey(f, "make", n["make"])
				if a.Entailed(x, a.I(x.Len)) {
					ctx.OK(o.rule, key, x.Pos(), "make length proved non-negative")
				} else {
					ctx.Bad(o.rule, key, x.Pos(), "make([]T, n): n not proved non-negative")
				}
			}
		})
	}
}

func isSeqT(t types.Type) bool {
	if b, ok := t.Underlying().(*types.Basic); ok {
		return b.Info()&types.IsString != 0
	}
	_, ok := t.Underlying().(*types.Slice)
	return ok
}

func isIntT(t types.Type) bool {
	b, ok := t.Underlying().(*types.Basic)
	return ok && b.Info()&types.IsInteger != 0
}

var implCache = map[*core.Prog]map[string][]*ssa.Function{}

// moduleImplementations resolves an interface method call to the methods of the
// module's own named types that implement the interface (class-hierarchy
// resolution restricted to the module; go/pointer is not available).
func moduleImplementations(p *core.Prog, c *ssa.CallCommon) []*ssa.Function {
	iface, ok := c.Value.Type().Underlying().(*types.Interface)
	if !ok {
		return nil
	}
	key := c.Value.Type().String() + "." + c.Method.Name()
	if implCache[p] == nil {
		implCache[p] = map[string][]*ssa.Function{}
	}
	if r, ok := implCache[p][key]; ok {
		return r
	}
	var out []*ssa.Function
	for path, sp := range p.SSAPkgs {
		if !strings.HasPrefix(path, core.ModPath) {
			continue
		}
		for _, mem := range sp.Members {
			tn, ok := mem.(*ssa.Type)
			if !ok {
				continue
			}
			if _, isIface := tn.Type().Underlying().(*types.Interface); isIface {
				continue
			}
			for _, t := range []types.Type{tn.Type(), types.NewPointer(tn.Type())} {
				if !types.Implements(t, iface) {
					continue
				}
				sel := p.SSA.MethodSets.MethodSet(t).Lookup(c.Method.Pkg(), c.Method.Name())
				if sel == nil {
					continue
				}
				if fn := p.SSA.MethodValue(sel); fn != nil {
					out = append(out, fn)
				}
			}
		}
	}
	sort.Slice(out, func(i, j int) bool { return out[i].String() < out[j].String() })
	implCache[p][key] = out
	return out
}

// panicUnreachable recognises the "cannot happen" arm of a selection nested in
// a selection over the same value: at the panic some comparisons x == K are
// known false (the inner switch's cases), while every path to it established
// x == K' for one of those very constants (the outer case list). No path can do
// both, so the panic is unreachable. Returns the reason, or "".
func panicUnreachable(g *ssax.Graph, pn *ssa.Panic) string {
	type eq struct {
		x ssa.Value
		k string
	}
	constKey := func(v ssa.Value) (string, bool) {
		if s, ok := ssax.ConstString(v); ok {
			return "s:" + s, true
		}
		if k, ok := ssax.ConstInt(v); ok {
			return "i:" + itoa(int(k)), true
		}
		return "", false
	}
	asEq := func(f ssax.Fact) (e eq, holds bool, ok bool) {
		b, isB := f.Cond.(*ssa.BinOp)
		if !isB || (b.Op != token.EQL && b.Op != token.NEQ) {
			return eq{}, false, false
		}
		x, kv := b.X, b.Y
		k, isK := constKey(kv)
		if !isK {
			x, kv = b.Y, b.X
			if k, isK = constKey(kv); !isK {
				return eq{}, false, false
			}
		}
		return eq{x, k}, (b.Op == token.EQL) == f.Val, true
	}
	excluded := map[eq]bool{}
	for _, f := range g.FactsAtInstr(pn) {
		if e, holds, ok := asEq(f); ok && !holds {
			excluded[e] = true
		}
	}
	if len(excluded) == 0 {
		return ""
	}
	if onAllPaths(g, pn, nil, func(f ssax.Fact) bool {
		e, holds, ok := asEq(f)
		return ok && holds && excluded[e]
	}) {
		return "every path to it established that the value equals one of the constants the enclosing tests have just excluded (a 'cannot happen' arm)"
	}
	return ""
}

// returnsOnlyOnNil reports whether every return of f is reached only with the
// parameter par known nil (f is an assertion such as Check(err)).
func returnsOnlyOnNil(p *core.Prog, f *ssa.Function, par *ssa.Parameter) bool {
	g := graph(p, f)
	rets := g.Returns()
	if len(rets) == 0 {
		return false
	}
	for _, r := range rets {
		if !ssax.KnownNil(g.FactsAtInstr(r), par, true) {
			return false
		}
	}
	return true
}
