package rules

import (
	"fmt"
	"go/token"
	"go/types"
	"sort"
	"strings"

	"golang.org/x/tools/go/ssa"

	"verif/checker/core"
	"verif/checker/ssax"
)

func init() {
	Registry["C06"] = Spec{Run: runC06, Packages: []string{"lockedfile"}}
}

const lfPkg = core.ModPath + "/lockedfile"
const flPkg = core.ModPath + "/lockedfile/internal/filelock"

// evalInt evaluates an integer/bool SSA value under bindings of values to constants.
func evalInt(v ssa.Value, env map[ssa.Value]int64) (int64, bool) {
	if k, ok := env[v]; ok {
		return k, true
	}
	if k, ok := ssax.ConstInt(v); ok {
		return k, true
	}
	if k, ok := ssax.ConstBool(v); ok {
		if k {
			return 1, true
		}
		return 0, true
	}
	switch x := v.(type) {
	case *ssa.Convert:
		return evalInt(x.X, env)
	case *ssa.UnOp:
		if x.Op == token.NOT {
			k, ok := evalInt(x.X, env)
			return 1 - k, ok
		}
	case *ssa.BinOp:
		a, ok1 := evalInt(x.X, env)
		b, ok2 := evalInt(x.Y, env)
		if !ok1 || !ok2 {
			return 0, false
		}
		bi := func(c bool) (int64, bool) {
			if c {
				return 1, true
			}
			return 0, true
		}
		switch x.Op {
		case token.AND:
			return a & b, true
		case token.OR:
			return a | b, true
		case token.AND_NOT:
			return a &^ b, true
		case token.XOR:
			return a ^ b, true
		case token.ADD:
			return a + b, true
		case token.SUB:
			return a - b, true
		case token.EQL:
			return bi(a == b)
		case token.NEQ:
			return bi(a != b)
		case token.LSS:
			return bi(a < b)
		case token.GTR:
			return bi(a > b)
		case token.LEQ:
			return bi(a <= b)
		case token.GEQ:
			return bi(a >= b)
		}
	}
	return 0, false
}

// reachUnder explores the pruned CFG from start, following only the branch a
// condition evaluates to under env (both when it cannot be evaluated), and
// returns the names of the calls it can reach.
func reachUnder(g *ssax.Graph, start int, env map[ssa.Value]int64) map[string]bool {
	out := map[string]bool{}
	seen := map[int]bool{}
	var walk func(b int)
	walk = func(b int) {
		if seen[b] {
			return
		}
		seen[b] = true
		blk := g.Fn.Blocks[b]
		end := len(blk.Instrs)
		if c := g.Cut[b]; c >= 0 {
			end = c + 1
		}
		for _, i := range blk.Instrs[:end] {
			if c, ok := i.(*ssa.Call); ok {
				out[ssax.CalleeName(&c.Call)] = true
			}
		}
		if len(g.Succs[b]) == 2 {
			if ifi, ok := blk.Instrs[len(blk.Instrs)-1].(*ssa.If); ok {
				if k, ok := evalInt(ifi.Cond, env); ok {
					if k != 0 {
						walk(blk.Succs[0].Index)
					} else {
						walk(blk.Succs[1].Index)
					}
					return
				}
			}
		}
		for _, s := range g.Succs[b] {
			walk(s)
		}
	}
	walk(start)
	return out
}

func setNames(m map[string]bool, filter func(string) bool) []string {
	var out []string
	for k := range m {
		if filter(k) {
			out = append(out, k[strings.LastIndex(k, ".")+1:])
		}
	}
	sort.Strings(out)
	return out
}

func runC06(ctx *core.Ctx) {
	ctx.Trusted = append(ctx.Trusted, "go/types, go/ssa", "advisory-lock semantics of flock(2)/fcntl(2)/LockFileEx: an exclusive lock excludes every other holder across processes, shared locks exclude only exclusive ones, locks attach to the open file description and die with it")
	p := ctx.P
	plan9 := p.Cfg.GOOS == "plan9"
	ctx.Rule("L1", "mode selection: evaluated for each access-mode constant, the dispatch in openFile reaches RLock only for O_RDONLY and Lock only for O_WRONLY and O_RDWR; Create, Edit, Write and Mutex.Lock pass a constant flag whose access mode is O_WRONLY or O_RDWR, Open passes O_RDONLY", 6)
	ctx.Rule("L2", "lock before return: every return of a non-nil file from openFile knows the lock call's error to be nil and cannot be reached after an Unlock; every failing return after the OS open succeeded closes the file", 2)
	ctx.Rule("L3", "one open file description per File: openFile opens once; the embedded *os.File is stored only in OpenFile", 2)
	ctx.Rule("L4", "held until Close: filelock.Unlock is called only from closeFile and openFile's failure path; closeFile unlocks strictly before it closes; File.Close reaches closeFile once, behind the closed flag; nothing in package lockedfile removes or renames a file (the lock lives on the inode)", 4)
	ctx.Rule("L5", "OS binding: the lock-type constants have the values of the platform's shared/exclusive/unlock constants, and the lock call retries on EINTR and returns every other error", 3)
	ctx.Rule("L7", "release survives a panic in caller-supplied code: each call of a function-typed parameter made while a locked File is held is dominated by a defer that closes the File, in the function itself or in all its callers", 1)
	ctx.Rule("L8", "no effect before the lock: the flag word of the OS open that precedes the lock call has the O_TRUNC bit cleared whatever the caller passed", 1)
	ctx.Rule("L6", "acquire/release pairing: Read, Write and Transform close the File they opened on every path; Mutex.Lock hands the File to the returned function, which closes it", 4)

	of := ctx.Need("L1", "lockedfile", "openFile")
	OpenFile := ctx.Need("L3", "lockedfile", "OpenFile")
	if of == nil || OpenFile == nil {
		return
	}
	g := graph(p, of)
	flagP := of.Params[1]
	if !plan9 {
		// ---- L1
		opens := g.Calls("os.OpenFile")
		if len(opens) != 1 {
			ctx.Bad("L3", "lockedfile.openFile#open-once", of.Pos(), "os.OpenFile called %d times", len(opens))
			return
		}
		ctx.OK("L3", "lockedfile.openFile#open-once", opens[0].Pos(), "exactly one OS open per openFile")
		{
			// ---- L8: the open itself changes nothing
			trunc := osFlag(p, "O_TRUNC")
			okT := true
			for _, fl := range []int64{-1, trunc, trunc | osFlag(p, "O_RDWR") | osFlag(p, "O_CREATE"), trunc | osFlag(p, "O_WRONLY")} {
				v, evalOK := evalInt(opens[0].Call.Args[1], map[ssa.Value]int64{flagP: fl})
				if !evalOK || v&trunc != 0 {
					okT = false
				}
			}
			ctx.Check(okT, "L8", "lockedfile.openFile#no-effect-before-lock", opens[0].Pos(), "the OS open made before the lock is taken has O_TRUNC cleared for every caller flag (with it the kernel empties the file while another holder - reader or writer - still holds its lock)")
		}
		open := opens[0]
		oerr := ssax.Extracted(open, 1)
		start := -1
		for _, b := range of.Blocks {
			if g.Reach[b.Index] && ssax.KnownNil(g.FactsAt(b.Index), oerr, true) && (start < 0 || g.DomBlock(b.Index, start)) {
				start = b.Index
			}
		}
		if start < 0 {
			ctx.Bad("L1", "lockedfile.openFile#dispatch", open.Pos(), "open error not checked")
			return
		}
		isLock := func(n string) bool { return strings.HasPrefix(n, flPkg+".") }
		modes := []struct {
			name string
			val  int64
			want string
		}{{"O_RDONLY", osFlag(p, "O_RDONLY"), "RLock"}, {"O_WRONLY", osFlag(p, "O_WRONLY"), "Lock"}, {"O_RDWR", osFlag(p, "O_RDWR"), "Lock"}}
		for _, m := range modes {
			for _, extra := range []int64{0, osFlag(p, "O_CREATE"), osFlag(p, "O_CREATE") | osFlag(p, "O_TRUNC")} {
				got := setNames(reachUnder(g, start, map[ssa.Value]int64{flagP: m.val | extra}), func(n string) bool {
					return isLock(n) && (strings.HasSuffix(n, ".Lock") || strings.HasSuffix(n, ".RLock"))
				})
				ok := len(got) == 1 && got[0] == m.want
				ctx.Check(ok, "L1", fmt.Sprintf("lockedfile.openFile#mode:%s|%#x", m.name, extra), open.Pos(), "with access mode %s the dispatch reaches %v, want exactly [%s]", m.name, got, m.want)
			}
		}
	}
	// callers of OpenFile inside the package
	want := map[string]string{"Open": "read", "Create": "write", "Edit": "write", "Write": "write", "(*Mutex).Lock": "write"}
	seenCaller := map[string]bool{}
	for _, f := range p.ModFuncs() {
		if f.Pkg != p.Pkg("lockedfile") {
			continue
		}
		for _, c := range graph(p, f).Calls(ssax.FuncName(OpenFile)) {
			name := f.Name()
			if f.Signature.Recv() != nil {
				name = "(*Mutex)." + f.Name()
			}
			fl, ok := ssax.ConstInt(c.Call.Args[1])
			acc := fl & (osFlag(p, "O_WRONLY") | osFlag(p, "O_RDWR") | osFlag(p, "O_RDONLY"))
			kind := "read"
			if acc == osFlag(p, "O_WRONLY") || acc == osFlag(p, "O_RDWR") {
				kind = "write"
			}
			w, known := want[name]
			if !known {
				ctx.Note("L1", "lockedfile."+name+"#flag", c.Pos(), "caller of OpenFile outside the property's list (flag %#x, %s lock)", fl, kind)
				continue
			}
			seenCaller[name] = true
			ctx.Check(ok && kind == w, "L1", "lockedfile."+name+"#flag", c.Pos(), "%s opens with constant flag %#x: %s lock (the property requires a %s lock)", name, fl, kind, w)
		}
	}
	// an operation may also get its lock through another operation of the list (Mutex.Lock via Edit)
	lockKind := func(f *ssa.Function) (kinds []string) {
		for _, c := range graph(p, f).Instrs2Calls(func(c *ssa.Call) bool {
			cal := c.Call.StaticCallee()
			return cal != nil && cal.Pkg == p.Pkg("lockedfile") && cal != OpenFile
		}) {
			cal := c.Call.StaticCallee()
			name := cal.Name()
			if cal.Signature.Recv() != nil {
				name = "(*Mutex)." + cal.Name()
			}
			if w, known := want[name]; known && seenCaller[name] {
				kinds = append(kinds, w)
			}
		}
		return
	}
	for n := range want {
		if seenCaller[n] {
			continue
		}
		var fn *ssa.Function
		if strings.HasPrefix(n, "(*Mutex).") {
			fn = p.Func("lockedfile", "(*Mutex)."+strings.TrimPrefix(n, "(*Mutex)."))
		} else {
			fn = p.Func("lockedfile", n)
		}
		var kinds []string
		if fn != nil {
			kinds = lockKind(fn)
		}
		okVia := len(kinds) > 0
		for _, k := range kinds {
			if k != want[n] {
				okVia = false
			}
		}
		if okVia {
			ctx.OK("L1", "lockedfile."+n+"#flag", fn.Pos(), "%s takes its lock through another operation of the package that opens with a %s lock", n, want[n])
		} else {
			ctx.Bad("L1", "lockedfile."+n+"#flag", token.NoPos, "%s no longer calls OpenFile with a constant flag", n)
		}
	}
	if !plan9 {
		// ---- L2
		opens := g.Calls("os.OpenFile")
		open := opens[0]
		file := ssax.Extracted(open, 0)
		var lockCalls []*ssa.Call
		g.Instrs(func(i ssa.Instruction) {
			if c, ok := i.(*ssa.Call); ok {
				n := ssax.CalleeName(&c.Call)
				if n == flPkg+".Lock" || n == flPkg+".RLock" {
					lockCalls = append(lockCalls, c)
				}
			}
		})
		unlocks := g.Calls(flPkg + ".Unlock")
		n := 0
		for _, r := range g.Returns() {
			rv := ssax.ReturnValues(r)
			if ssax.IsNil(rv[0]) {
				// failing return after open success must close
				if g.Dominates(open, r) && ssax.KnownNil(g.FactsAtInstr(r), ssax.Extracted(open, 1), true) {
					closed := false
					for _, c := range g.Calls("(*os.File).Close") {
						if c.Call.Args[0] == file && g.Dominates(c, r) {
							closed = true
						}
					}
					n++
					ctx.Check(closed, "L2", "lockedfile.openFile#fail-return"+itoa(n), r.Pos(), "a failing return after the OS open succeeded closes the descriptor")
				}
				continue
			}
			n++
			key := "lockedfile.openFile#ok-return" + itoa(n)
			facts := g.FactsAtInstr(r)
			locked := false
			// the lock error: either a phi over all lock calls or a single call
			for _, f := range facts {
				x, eq, ok := ssax.NilCheck(f.Cond)
				if !ok || (eq == f.Val) != true {
					continue
				}
				_, leaves := phiWeb(x)
				if len(leaves) == 0 {
					leaves = []leaf{{Val: x}}
				}
				all := len(leaves) > 0
				for _, l := range leaves {
					c, ok := l.Val.(*ssa.Call)
					if !ok {
						all = false
						continue
					}
					nm := ssax.CalleeName(&c.Call)
					if nm != flPkg+".Lock" && nm != flPkg+".RLock" {
						all = false
					}
				}
				if all {
					locked = true
				}
			}
			afterUnlock := false
			for _, u := range unlocks {
				if hit, _ := g.ReachableWithout(ssax.PointAfter(u), func(i ssa.Instruction) bool { return i == ssa.Instruction(r) }, nil); hit != nil {
					afterUnlock = true
				}
			}
			ctx.Check(locked && !afterUnlock && rv[0] == file, "L2", key, r.Pos(), "file returned only with the lock call's error known nil (%v), never after an Unlock (%v), and it is the descriptor that was locked (%v)", locked, !afterUnlock, rv[0] == file)
		}
		_ = lockCalls
	}
	// ---- L3 field writers
	{
		ws := 0
		bad := 0
		for _, f := range p.ModFuncs() {
			if f.Pkg != p.Pkg("lockedfile") && (f.Parent() == nil) {
				continue
			}
			graph(p, f).Instrs(func(i ssa.Instruction) {
				st, ok := i.(*ssa.Store)
				if !ok {
					return
				}
				fa, ok := st.Addr.(*ssa.FieldAddr)
				if !ok || ssax.FieldOf(fa) == nil || ssax.FieldOf(fa).Name() != "File" || !isNamed(fa.X.Type(), lfPkg, "osFile") {
					return
				}
				ws++
				if f != OpenFile {
					bad++
					ctx.Bad("L3", shortFn(f)+"#osFile-write", st.Pos(), "the embedded *os.File is replaced outside OpenFile: the descriptor closed would not be the descriptor locked")
				}
			})
		}
		if bad == 0 {
			ctx.OK("L3", "lockedfile.File#osFile-writers", OpenFile.Pos(), "the embedded *os.File is stored only in OpenFile (%d store)", ws)
		}
	}
	// ---- L4
	if !plan9 {
		closeFile := ctx.Need("L4", "lockedfile", "closeFile")
		for _, f := range p.ModFuncs() {
			for k, c := range graph(p, f).Calls(flPkg + ".Unlock") {
				ok := f == closeFile || f == of
				ctx.Check(ok, "L4", shortFn(f)+"#unlock"+itoa(k+1), c.Pos(), "filelock.Unlock called from %s (allowed: closeFile, openFile's failure path)", shortFn(f))
			}
		}
		if closeFile != nil {
			cg := graph(p, closeFile)
			un := cg.Calls(flPkg + ".Unlock")
			cl := cg.Calls("(*os.File).Close")
			ok := len(un) == 1 && len(cl) == 1 && cg.Dominates(un[0], cl[0])
			if ok {
				// same descriptor
				ok = ssax.Strip(un[0].Call.Args[0]) == cl[0].Call.Args[0]
			}
			ctx.Check(ok, "L4", "lockedfile.closeFile#order", closeFile.Pos(), "the descriptor is unlocked strictly before it is closed")
		}
	}
	if cl := ctx.Need("L4", "lockedfile", "(*File).Close"); cl != nil {
		cg := graph(p, cl)
		calls := cg.Calls(lfPkg + ".closeFile")
		if len(calls) != 1 {
			ctx.Bad("L4", "lockedfile.File.Close#once", cl.Pos(), "File.Close calls closeFile %d times", len(calls))
		} else {
			c := calls[0]
			facts := cg.FactsAtInstr(c)
			notClosed := hasFact(facts, false, isFieldLoad("closed"))
			marked := false
			cg.Instrs(func(i ssa.Instruction) {
				if st, ok := i.(*ssa.Store); ok {
					if fa, ok := st.Addr.(*ssa.FieldAddr); ok && ssax.FieldOf(fa).Name() == "closed" && isTrueConst(st.Val) && cg.Dominates(st, c) {
						marked = true
					}
				}
			})
			ctx.Check(notClosed && marked, "L4", "lockedfile.File.Close#once", c.Pos(), "closeFile reached only when the File was not yet closed (%v), after marking it closed (%v)", notClosed, marked)
			// once marked closed, nothing can come between the mark and the unlock: a later Close
			// only reports ErrClosed, so a return without closeFile keeps the lock for the life of the process
			leak := ""
			cg.Instrs(func(i ssa.Instruction) {
				st, ok := i.(*ssa.Store)
				if !ok {
					return
				}
				if fa, ok := st.Addr.(*ssa.FieldAddr); ok && ssax.FieldOf(fa).Name() == "closed" && isTrueConst(st.Val) {
					for _, e := range cg.MustPass(ssax.PointAfter(st), func(j ssa.Instruction) bool { return j == ssa.Instruction(c) }, false) {
						leak = "return reachable after the File was marked closed without closeFile having run (path " + ssax.TrailString(e.Trail) + ")"
					}
				}
			})
			ctx.Check(leak == "", "L4", "lockedfile.File.Close#always-unlocks", c.Pos(), "every return after the closed mark passes closeFile %s", leak)
		}
	}
	{
		bad := 0
		for _, f := range p.ModFuncs() {
			top := f
			for top.Parent() != nil {
				top = top.Parent()
			}
			if top.Pkg != p.Pkg("lockedfile") {
				continue
			}
			for _, c := range graph(p, f).Calls("os.Remove", "os.RemoveAll", "os.Rename", "os.Link", "os.Symlink") {
				bad++
				ctx.Bad("L4", shortFn(f)+"#path-mutation"+itoa(bad), c.Pos(), "%s in package lockedfile: the lock is held on the inode, so unlinking or replacing the path lets a waiter lock the old inode while the next opener locks a new one (two holders of one path)", ssax.CalleeName(&c.Call))
			}
		}
		if bad == 0 {
			ctx.OK("L4", "lockedfile#no-path-mutation", token.NoPos, "no remove/rename/link of any path in package lockedfile")
		}
	}
	// ---- L5
	osBinding(ctx)
	// ---- L6
	for _, name := range []string{"Read", "Write", "Transform"} {
		f := ctx.Need("L6", "lockedfile", name)
		if f == nil {
			continue
		}
		fg := graph(p, f)
		var openCall *ssa.Call
		fg.Instrs(func(i ssa.Instruction) {
			if c, ok := i.(*ssa.Call); ok {
				cal := c.Call.StaticCallee()
				if cal != nil && cal.Pkg == p.Pkg("lockedfile") && cal.Signature.Results().Len() == 2 && isNamed(cal.Signature.Results().At(0).Type(), lfPkg, "File") {
					openCall = c
				}
			}
		})
		if openCall == nil {
			ctx.Bad("L6", "lockedfile."+name+"#close", f.Pos(), "no locked open found")
			continue
		}
		file := ssax.Extracted(openCall, 0)
		oerr := ssax.Extracted(openCall, 1)
		isClose := func(i ssa.Instruction) bool {
			c := ssax.CallOf(i)
			if c == nil || ssax.CalleeName(c) != "(*"+lfPkg+".File).Close" {
				return false
			}
			return ssax.ResolveLoad(c.Args[0]) == file || c.Args[0] == file
		}
		bad := ""
		for _, b := range f.Blocks {
			if !fg.Reach[b.Index] || !ssax.KnownNil(fg.FactsAt(b.Index), oerr, true) {
				continue
			}
			if id := fg.Idom(b.Index); id >= 0 && ssax.KnownNil(fg.FactsAt(id), oerr, true) {
				continue // not the top of the success region
			}
			for _, e := range fg.MustPass(ssax.Point{Block: b.Index}, isClose, false) {
				bad = "return at " + p.Pos(e.Last.Pos()) + " reachable without closing the locked file"
			}
		}
		ctx.Check(bad == "", "L6", "lockedfile."+name+"#close", openCall.Pos(), "the locked file is closed (directly or by defer) on every path after a successful open %s", bad)
	}
	// ---- L7: caller-supplied code runs with the release already deferred
	{
		lfp := p.Pkg("lockedfile")
		var lfFuncs []*ssa.Function
		for _, f := range p.ModFuncs() {
			if f.Pkg == lfp && f.Blocks != nil {
				lfFuncs = append(lfFuncs, f)
			}
		}
		closeDeferredBefore := func(f *ssa.Function, at ssa.Instruction) bool {
			fg := graph(p, f)
			ok := false
			fg.Instrs(func(i ssa.Instruction) {
				d, isD := i.(*ssa.Defer)
				if !isD || !fg.Dominates(d, at) {
					return
				}
				if ssax.CalleeName(&d.Call) == "(*"+lfPkg+".File).Close" {
					ok = true
				}
				// defer func() { ... f.Close() ... }()
				if mc, isMC := d.Call.Value.(*ssa.MakeClosure); isMC {
					graph(p, mc.Fn.(*ssa.Function)).Instrs(func(j ssa.Instruction) {
						if c := ssax.CallOf(j); c != nil && ssax.CalleeName(c) == "(*"+lfPkg+".File).Close" {
							ok = true
						}
					})
				}
			})
			return ok
		}
		var covered func(f *ssa.Function, at ssa.Instruction, depth int) bool
		covered = func(f *ssa.Function, at ssa.Instruction, depth int) bool {
			if closeDeferredBefore(f, at) {
				return true
			}
			if depth > 3 || f.Object() == nil || f.Object().Exported() {
				return false
			}
			sites := 0
			for _, cf := range lfFuncs {
				bad := false
				graph(p, cf).Instrs(func(i ssa.Instruction) {
					c := ssax.CallOf(i)
					if c == nil || c.StaticCallee() != f {
						return
					}
					sites++
					if !covered(cf, i, depth+1) {
						bad = true
					}
				})
				if bad {
					return false
				}
			}
			return sites > 0
		}
		n := 0
		for _, f := range lfFuncs {
			holdsFile := false
			for _, prm := range f.Params {
				if isNamed(prm.Type(), lfPkg, "File") {
					holdsFile = true
				}
			}
			fg := graph(p, f)
			fg.Instrs(func(i ssa.Instruction) {
				if c, ok := i.(*ssa.Call); ok {
					if cal := c.Call.StaticCallee(); cal != nil && cal.Pkg == lfp && cal.Signature.Results().Len() == 2 && isNamed(cal.Signature.Results().At(0).Type(), lfPkg, "File") {
						holdsFile = true
					}
				}
			})
			if !holdsFile {
				continue
			}
			fg.Instrs(func(i ssa.Instruction) {
				c, ok := i.(*ssa.Call)
				if !ok || c.Call.IsInvoke() {
					return
				}
				prm, isP := ssax.Strip(c.Call.Value).(*ssa.Parameter)
				if !isP {
					return
				}
				if _, isSig := prm.Type().Underlying().(*types.Signature); !isSig {
					return
				}
				n++
				ctx.Check(covered(f, i, 0), "L7", shortFn(f)+"#callback-"+prm.Name(), c.Pos(), "the caller's function %s runs only after Close of the locked File has been deferred, in this function or in every caller (otherwise a panic in it, recovered further up, leaves the path locked for every process until the descriptor is collected)", prm.Name())
			})
		}
		if n == 0 {
			ctx.Note("L7", "lockedfile#callbacks", token.NoPos, "no caller-supplied function is called while a File is held")
		}
	}
	// ---- L9: the wrappers pass everything on (round 5)
	ctx.Rule("L9", "nothing between the caller and the lock: filelock.Lock and RLock reach the platform lock call on every path and return its error (a wrapper that reports success for 'unlockable' kinds of file hands out locks nobody holds); lockedfile.OpenFile gives openFile the caller's flag word itself (a rewritten flag changes the kind of lock taken)", 3)
	for _, nm := range []string{"Lock", "RLock"} {
		f := p.Func("lockedfile/internal/filelock", nm)
		if f == nil {
			ctx.Unknown("L9", "filelock."+nm, token.NoPos, "function not found")
			continue
		}
		fg := graph(p, f)
		var lk []*ssa.Call
		for _, c := range fg.Calls(flPkg + ".lock") {
			lk = append(lk, c)
		}
		ok := len(lk) > 0
		why := ""
		for _, r := range fg.Returns() {
			rv := ssax.ReturnValues(r)[0]
			behind := false
			for _, c := range lk {
				if fg.Dominates(c, r) {
					behind = true
					// the lock call's own error, or nil known only because that error is nil
					if rr := fg.Resolve(ssax.Strip(rv), r); rr != ssa.Value(c) && rv != ssa.Value(c) && !(ssax.IsNil(rv) && ssax.KnownNil(fg.FactsAtInstr(r), c, true)) {
						ok, why = false, "a return after the lock call does not return its error"
					}
				}
			}
			if !behind {
				ok, why = false, "a return is reachable without the lock call"
			}
		}
		ctx.Check(ok, "L9", "filelock."+nm+"#always-locks", f.Pos(), "every return of %s lies behind the platform lock call and yields its error %s", nm, why)
	}
	{
		og := graph(p, OpenFile)
		n := 0
		for _, c := range og.Calls(lfPkg + ".openFile") {
			n++
			ctx.Check(len(OpenFile.Params) >= 2 && c.Call.Args[1] == ssa.Value(OpenFile.Params[1]), "L9", "lockedfile.OpenFile#flag-passed"+itoa(n), c.Pos(), "openFile receives OpenFile's flag parameter unchanged")
		}
		if n == 0 {
			ctx.Unknown("L9", "lockedfile.OpenFile#flag-passed", OpenFile.Pos(), "OpenFile does not call openFile")
		}
	}
	// ---- L10: no way round the lock inside the package
	ctx.Rule("L10", "no content access beside the lock: in package lockedfile a path is opened, read or written through the operating system only by openFile (a 'this file cannot change anyway' fast path in Read reads while a writer holds the lock)", 0)
	{
		n := 0
		for _, f := range p.ModFuncs() {
			top := f
			for top.Parent() != nil {
				top = top.Parent()
			}
			if top.Pkg != p.Pkg("lockedfile") || top == of {
				continue
			}
			for _, c := range graph(p, f).Calls("os.ReadFile", "os.WriteFile", "os.Open", "os.Create", "os.OpenFile", "os.Truncate") {
				n++
				ctx.Bad("L10", shortFn(f)+"#unlocked-access"+itoa(n), c.Pos(), "%s on a path outside openFile: the contents are touched without the lock", ssax.CalleeName(&c.Call))
			}
		}
		if n == 0 {
			ctx.OK("L10", "lockedfile#only-openFile-opens", of.Pos(), "openFile is the only function of the package that opens, reads or writes a path directly")
		}
	}
	if ml := ctx.Need("L6", "lockedfile", "(*Mutex).Lock"); ml != nil {
		mg := graph(p, ml)
		okc := false
		mg.Instrs(func(i ssa.Instruction) {
			mc, ok := i.(*ssa.MakeClosure)
			if !ok {
				return
			}
			fn := mc.Fn.(*ssa.Function)
			graph(p, fn).Instrs(func(j ssa.Instruction) {
				if c, ok := j.(*ssa.Call); ok && ssax.CalleeName(&c.Call) == "(*"+lfPkg+".File).Close" {
					okc = true
				}
			})
		})
		ctx.Check(okc, "L6", "lockedfile.Mutex.Lock#unlock-closes", ml.Pos(), "the returned unlock function closes the locked File")
	}
}

// osBinding implements L5 for the platform sibling compiled in this configuration.
func osBinding(ctx *core.Ctx) {
	p := ctx.P
	fl := p.TPkg("lockedfile/internal/filelock")
	if fl == nil {
		ctx.Unknown("L5", "filelock", token.NoPos, "package filelock not loaded")
		return
	}
	sys := p.Pkgs["syscall"]
	sc := func(name string) (int64, bool) {
		if sys == nil {
			return 0, false
		}
		o := sys.Types.Scope().Lookup(name)
		if o == nil {
			return 0, false
		}
		return constOf(o), true
	}
	rl := fl.Types.Scope().Lookup("readLock")
	wl := fl.Types.Scope().Lookup("writeLock")
	lockFn := p.Func("lockedfile/internal/filelock", "lock")
	if lockFn == nil {
		ctx.Unknown("L5", "filelock.lock", token.NoPos, "function lock not found")
		return
	}
	g := graph(p, lockFn)
	ctx.Seen(lockFn)
	switch {
	case len(g.Calls("syscall.Flock")) > 0:
		sh, _ := sc("LOCK_SH")
		ex, _ := sc("LOCK_EX")
		unv, _ := sc("LOCK_UN")
		ctx.Check(rl != nil && wl != nil && constOf(rl) == sh && constOf(wl) == ex && sh != ex, "L5", "filelock#constants", token.NoPos, "readLock=%d (LOCK_SH=%d) writeLock=%d (LOCK_EX=%d)", constOf(rl), sh, constOf(wl), ex)
		// unlock passes LOCK_UN
		un := p.Func("lockedfile/internal/filelock", "unlock")
		okUn := false
		if un != nil {
			for _, c := range graph(p, un).Calls(ssax.FuncName(lockFn)) {
				k, ok := ssax.ConstInt(c.Call.Args[1])
				okUn = ok && k == unv
			}
		}
		ctx.Check(okUn, "L5", "filelock.unlock#LOCK_UN", posOfVal(nil, lockFn), "unlock issues LOCK_UN (%d)", unv)
		fc := g.Calls("syscall.Flock")[0]
		// argument 1 derives from the lock-type parameter, argument 0 from f.Fd()
		okArgs := true
		for _, fc := range g.Calls("syscall.Flock") {
			if !(ssax.DerivedFrom(fc.Call.Args[1], isVal(lockFn.Params[1]), nil) && ssax.DerivedFrom(fc.Call.Args[0], func(v ssa.Value) bool {
				c, ok := v.(*ssa.Call)
				return ok && c.Call.IsInvoke() && c.Call.Method.Name() == "Fd"
			}, nil)) {
				okArgs = false
			}
		}
		ctx.Check(okArgs, "L5", "filelock.lock#flock-args", fc.Pos(), "flock is applied to the file's descriptor with the requested lock type")
		eintr, _ := sc("EINTR")
		_ = eintr
		// retry: a Flock is in a loop left only when err != EINTR; success return only when err == nil.
		// "err" is the result of a Flock call or a merge of such results (a first attempt before the loop
		// and the retry inside it are the same variable).
		flockSet := map[ssa.Value]bool{}
		for _, c := range g.Calls("syscall.Flock") {
			flockSet[c] = true
		}
		var isFlockErr func(v ssa.Value, seen map[ssa.Value]bool) bool
		isFlockErr = func(v ssa.Value, seen map[ssa.Value]bool) bool {
			if flockSet[v] {
				return true
			}
			ph, ok := v.(*ssa.Phi)
			if !ok {
				return false
			}
			if seen[v] {
				return true
			}
			seen[v] = true
			for _, e := range ph.Edges {
				if !isFlockErr(e, seen) {
					return false
				}
			}
			return true
		}
		isErr := func(v ssa.Value) bool { return isFlockErr(v, map[ssa.Value]bool{}) }
		var inLoop ssa.Instruction
		for _, c := range g.Calls("syscall.Flock") {
			if hit, _ := g.ReachableWithout(ssax.PointAfter(c), func(i ssa.Instruction) bool { return i == ssa.Instruction(c) }, nil); hit != nil {
				inLoop = hit
			}
		}
		exitOK := true
		for _, r := range g.Returns() {
			facts := g.FactsAtInstr(r)
			isEINTR := func(v ssa.Value) bool {
				mi, ok := v.(*ssa.MakeInterface)
				if !ok {
					return false
				}
				k, ok := ssax.ConstInt(mi.X)
				return ok && k == eintr
			}
			if !cmpFact(facts, token.NEQ, isErr, isEINTR) {
				exitOK = false
			}
			if ssax.IsNil(ssax.ReturnValues(r)[0]) {
				known := false
				for _, f := range facts {
					if x, eq, ok := ssax.NilCheck(f.Cond); ok && eq == f.Val && isErr(x) {
						known = true
					}
				}
				if !known {
					exitOK = false
				}
			}
		}
		ctx.Check(inLoop != nil && exitOK, "L5", "filelock.lock#eintr", fc.Pos(), "flock retried in a loop (%v) that is left only when the error is not EINTR, and nil is returned only when flock returned nil (%v)", inLoop != nil, exitOK)
	case len(g.Calls(core.ModPath+"/internal/syscall/windows.LockFileEx")) > 0 || p.Cfg.GOOS == "windows":
		ex := int64(-1)
		if w := p.Pkgs[core.ModPath+"/internal/syscall/windows"]; w != nil {
			if o := w.Types.Scope().Lookup("LOCKFILE_EXCLUSIVE_LOCK"); o != nil {
				ex = constOf(o)
			}
		}
		ctx.Check(rl != nil && wl != nil && constOf(rl) == 0 && constOf(wl) == ex && ex > 0, "L5", "filelock#constants", token.NoPos, "readLock=%d (0 = shared) writeLock=%d (LOCKFILE_EXCLUSIVE_LOCK=%d)", constOf(rl), constOf(wl), ex)
		calls := g.Calls(core.ModPath + "/internal/syscall/windows.LockFileEx")
		okArgs := len(calls) == 1 && ssax.DerivedFrom(calls[0].Call.Args[1], isVal(lockFn.Params[1]), nil)
		ctx.Check(okArgs, "L5", "filelock.lock#LockFileEx", lockFn.Pos(), "LockFileEx receives the requested lock type")
		un := p.Func("lockedfile/internal/filelock", "unlock")
		ctx.Check(un != nil && len(graph(p, un).Calls(core.ModPath+"/internal/syscall/windows.UnlockFileEx")) == 1, "L5", "filelock.unlock#UnlockFileEx", lockFn.Pos(), "unlock issues UnlockFileEx")
	default:
		// fcntl sibling (aix, solaris) or the unsupported stub
		rd, ok1 := sc("F_RDLCK")
		wr, ok2 := sc("F_WRLCK")
		if ok1 && ok2 && rl != nil && wl != nil && len(g.Returns()) > 0 && p.Func("lockedfile/internal/filelock", "setlkw") != nil {
			ctx.Check(constOf(rl) == rd && constOf(wl) == wr && rd != wr, "L5", "filelock#constants", token.NoPos, "readLock=%d (F_RDLCK=%d) writeLock=%d (F_WRLCK=%d)", constOf(rl), rd, constOf(wl), wr)
			sl := p.Func("lockedfile/internal/filelock", "setlkw")
			sg := graph(p, sl)
			fc := sg.Calls("syscall.FcntlFlock")
			okLoop := false
			if len(fc) == 1 {
				hit, _ := sg.ReachableWithout(ssax.PointAfter(fc[0]), func(i ssa.Instruction) bool { return i == ssa.Instruction(fc[0]) }, nil)
				okLoop = hit != nil
			}
			ctx.Check(okLoop, "L5", "filelock.setlkw#eintr", sl.Pos(), "FcntlFlock(F_SETLKW) is retried in a loop")
			// inode tables only under the package mutex
			n := 0
			for _, f := range p.ModFuncs() {
				if f.Pkg != p.Pkg("lockedfile/internal/filelock") {
					continue
				}
				for _, w := range writesIn(p, f) {
					if w.Glob == nil || (w.Glob.Name() != "inodes" && w.Glob.Name() != "locks") {
						continue
					}
					if f.Name() == "init" {
						continue // package initialisation runs before any lock can be requested
					}
					n++
					ctx.Check(len(locksetAt(p, f, w.Instr)) > 0, "L5", shortFn(f)+"#table-write"+itoa(n), w.Instr.Pos(), "in-process lock table %s updated with the package mutex held", w.Glob.Name())
				}
			}
			ctx.Note("L5", "filelock#fcntl-queue", lockFn.Pos(), "the fcntl sibling's in-process queueing protocol is not decided")
			ctx.OKTrivial("L5", "filelock#fcntl-sibling", lockFn.Pos(), "fcntl sibling recognised")
			return
		}
		// stub: every path returns ErrNotSupported
		allErr := true
		for _, r := range g.Returns() {
			if ssax.IsNil(ssax.ReturnValues(r)[0]) {
				allErr = false
			}
		}
		ctx.Check(allErr, "L5", "filelock.lock#unsupported", lockFn.Pos(), "on this platform lock never reports success, so OpenFile fails rather than returning an unlocked file")
		ctx.OKTrivial("L5", "filelock#stub-1", lockFn.Pos(), "unsupported-platform sibling")
		ctx.OKTrivial("L5", "filelock#stub-2", lockFn.Pos(), "unsupported-platform sibling")
	}
}
