package rules

import (
	"go/token"
	"strings"

	"golang.org/x/tools/go/ssa"

	"verif/checker/core"
	"verif/checker/ssax"
)

func init() { Registry["C09"] = Spec{Run: runC09, Packages: []string{"par"}} }

const parPkg = core.ModPath + "/par"

type access struct {
	At    ssa.Instruction
	Write bool
	FA    *ssa.FieldAddr
}

// fieldAccesses lists loads/stores/map operations through field `name` of *typ in f.
func fieldAccesses(g *ssax.Graph, pkg, typ, name string) []access {
	var out []access
	g.Instrs(func(i ssa.Instruction) {
		fa, ok := i.(*ssa.FieldAddr)
		if !ok || !isNamed(fa.X.Type(), pkg, typ) {
			return
		}
		fld := ssax.FieldOf(fa)
		if fld == nil || fld.Name() != name {
			return
		}
		for _, r := range ssax.Referrers(fa) {
			if !g.Live(r) {
				continue
			}
			switch x := r.(type) {
			case *ssa.Store:
				out = append(out, access{r, x.Addr == ssa.Value(fa), fa})
			case *ssa.UnOp:
				out = append(out, access{r, false, fa})
				// map update / element store through the loaded value
				for _, rr := range ssax.Referrers(x) {
					if mu, ok := rr.(*ssa.MapUpdate); ok && mu.Map == ssa.Value(x) && g.Live(rr) {
						out = append(out, access{rr, true, fa})
					}
				}
			case *ssa.DebugRef:
			default:
				out = append(out, access{r, true, fa}) // address escapes: treat as write
			}
		}
	})
	return out
}

// entryLocks: locks held at every static call site of f, renamed to f's parameters.
func entryLocks(p *core.Prog, f *ssa.Function) map[string]bool {
	var result map[string]bool
	n := 0
	for _, caller := range p.ModFuncs() {
		g := graph(p, caller)
		g.Instrs(func(i ssa.Instruction) {
			c := ssax.CallOf(i)
			if c == nil || c.StaticCallee() != f {
				return
			}
			n++
			if _, isCall := i.(*ssa.Call); !isCall {
				result = map[string]bool{} // go/defer: nothing held
				return
			}
			held := locksetAt(p, caller, i)
			mapped := map[string]bool{}
			for k := range held {
				for ai, a := range c.Args {
					ap := ssax.AccessPath(a)
					if k == ap || strings.HasPrefix(k, ap+".") {
						mapped[f.Params[ai].Name()+strings.TrimPrefix(k, ap)] = true
					}
				}
			}
			if result == nil {
				result = mapped
			} else {
				for k := range result {
					if !mapped[k] {
						delete(result, k)
					}
				}
			}
		})
	}
	if n == 0 || result == nil {
		return map[string]bool{}
	}
	return result
}

func runC09(ctx *core.Ctx) {
	ctx.Trusted = append(ctx.Trusted, "go/types, go/ssa", "sync.Mutex and sync.Cond semantics; the Go memory model for mutex-protected accesses", "the textbook argument that monitor invariants W1-W8 imply exactly-once and termination (interleavings are not enumerated)")
	p := ctx.P
	ctx.Rule("W1", "guarded state: every access to Work.added, Work.todo and Work.waiting happens with the Work's mutex definitely held (locks held at every call site count for helpers); running, f and wait.L are written only in Do, before the first goroutine is started", 10)
	ctx.Rule("W2", "callback outside the lock: the call through Work.f happens only where the mutex is definitely not held", 1)
	ctx.Rule("W3", "lock pairing: the mutex is never acquired while held, and is not held at any return", 3)
	ctx.Rule("W4", "wait discipline: Cond.Wait is called inside a loop whose condition re-reads todo, with waiting incremented before and decremented after it on every path back to the loop test", 1)
	ctx.Rule("W5", "no lost wake-up: every store that grows todo is followed in the same critical section by Signal/Broadcast guarded by nothing but 'waiting > 0'", 1)
	ctx.Rule("W6", "termination detection: every return of the runner is on the waiting == running edge, after waiting was incremented, after a Broadcast (not Signal) and after the Unlock", 1)
	ctx.Rule("W7", "exactly-once: the enqueue in Add is dominated by added[item] being false and paired with added[item] = true in the same critical section; added is (re)initialised only when nil; the item handed to f was read from todo under the lock and todo was shortened under that same lock hold", 3)
	ctx.Rule("W8", "worker count: the goroutine-start loop runs n-1 times unconditionally, the caller runs one runner itself after it, and running is set to n", 3)
	c09More(ctx)

	sp := p.Pkg("par")
	if sp == nil {
		ctx.Unknown("W1", "par", token.NoPos, "package par not loaded")
		return
	}
	var methods []*ssa.Function
	for _, f := range p.ModFuncs() {
		if f.Pkg == sp && f.Signature.Recv() != nil && isNamed(f.Signature.Recv().Type(), parPkg, "Work") {
			methods = append(methods, f)
		}
	}
	add := ctx.Need("W5", "par", "(*Work).Add")
	do := ctx.Need("W8", "par", "(*Work).Do")
	var runner *ssa.Function
	// runner = the method started by `go` in Do
	if do != nil {
		graph(p, do).Instrs(func(i ssa.Instruction) {
			if g, ok := i.(*ssa.Go); ok {
				runner = g.Call.StaticCallee()
			}
		})
	}
	if add == nil || do == nil || runner == nil {
		ctx.Bad("W8", "par.Work.Do#go", posOfVal(nil, do), "Do starts no goroutine running a Work method")
		return
	}
	ctx.Seen(runner)
	muKey := func(f *ssa.Function) string { return f.Params[0].Name() + ".mu" }

	// ---- W1
	for _, f := range methods {
		g := graph(p, f)
		el := entryLocks(p, f)
		for _, fld := range []string{"added", "todo", "waiting"} {
			for k, a := range fieldAccesses(g, parPkg, "Work", fld) {
				held := locksetAt(p, f, a.At)
				ok := held[muKey(f)] || el[muKey(f)]
				kind := "read"
				if a.Write {
					kind = "write"
				}
				ctx.Check(ok, "W1", shortFn(f)+"#"+fld+itoa(k+1), a.At.Pos(), "%s of Work.%s with the mutex held (held here: %s, at all call sites: %s)", kind, fld, setString(held), setString(el))
			}
		}
		for _, fld := range []string{"running", "f"} {
			for k, a := range fieldAccesses(g, parPkg, "Work", fld) {
				if !a.Write {
					continue
				}
				ok := f == do
				if ok {
					// before the first go statement
					graph(p, do).Instrs(func(i ssa.Instruction) {
						if gg, isGo := i.(*ssa.Go); isGo && !g.Dominates(a.At, gg) {
							ok = false
						}
					})
				}
				ctx.Check(ok, "W1", shortFn(f)+"#"+fld+"-write"+itoa(k+1), a.At.Pos(), "Work.%s written only in Do before any goroutine starts", fld)
			}
		}
	}
	// ---- W2, W3
	for _, f := range methods {
		g := graph(p, f)
		g.Instrs(func(i ssa.Instruction) {
			switch x := i.(type) {
			case *ssa.Call:
				if isFieldLoad("f")(x.Call.Value) {
					held := locksetAt(p, f, x)
					ctx.Check(!held[muKey(f)] && !entryLocks(p, f)[muKey(f)], "W2", shortFn(f)+"#callback", x.Pos(), "user function called with the mutex released (held: %s) so that it may call Add", setString(held))
				}
				if k, acq, ok := lockOp(x); ok && acq {
					held := locksetAt(p, f, x)
					ctx.Check(!held[k], "W3", shortFn(f)+"#lock", x.Pos(), "mutex not already held when locked")
				}
			case *ssa.Return:
				held := locksetAt(p, f, x)
				ctx.Check(len(held) == 0, "W3", shortFn(f)+"#return", x.Pos(), "no mutex held at return (held: %s)", setString(held))
			}
		})
	}
	// ---- W4, W6 in runner
	{
		g := graph(p, runner)
		waits := g.Calls("(*sync.Cond).Wait")
		if len(waits) != 1 {
			ctx.Bad("W4", shortFn(runner)+"#wait", runner.Pos(), "expected one Cond.Wait in the runner, found %d", len(waits))
		} else {
			w := waits[0]
			// loop header: a block that dominates w, is reachable from w, and ends in If on len(todo)
			var hdr *ssa.BasicBlock
			for _, b := range runner.Blocks {
				if !g.Reach[b.Index] || !g.DomBlock(b.Index, w.Block().Index) {
					continue
				}
				ifi, ok := b.Instrs[len(b.Instrs)-1].(*ssa.If)
				if !ok {
					continue
				}
				reTodo := ssax.DerivedFrom(ifi.Cond, func(v ssa.Value) bool { return isFieldLoad("todo")(v) && v.(ssa.Instruction).Block() == b }, nil)
				back, _ := g.ReachableWithout(ssax.PointAfter(w), func(i ssa.Instruction) bool { return i == b.Instrs[0] }, nil)
				if reTodo && back != nil {
					hdr = b
				}
			}
			ctx.Check(hdr != nil, "W4", shortFn(runner)+"#wait-loop", w.Pos(), "Wait sits in a loop whose test re-reads todo after every wake-up")
			// waiting++ dominates, waiting-- on every path back to the header
			incOK, decOK := false, true
			for _, a := range fieldAccesses(g, parPkg, "Work", "waiting") {
				if st, ok := a.At.(*ssa.Store); ok && a.Write {
					if b, ok := st.Val.(*ssa.BinOp); ok && b.Op == token.ADD && isConstIntV(1)(b.Y) && g.Dominates(st, w) {
						if hdr != nil && g.DomBlock(hdr.Index, st.Block().Index) {
							incOK = true
						}
					}
				}
			}
			if hdr != nil {
				isDec := func(i ssa.Instruction) bool {
					st, ok := i.(*ssa.Store)
					if !ok {
						return false
					}
					fa, ok := st.Addr.(*ssa.FieldAddr)
					if !ok || ssax.FieldOf(fa) == nil || ssax.FieldOf(fa).Name() != "waiting" {
						return false
					}
					b, ok := st.Val.(*ssa.BinOp)
					return ok && b.Op == token.SUB && isConstIntV(1)(b.Y)
				}
				hit, _ := g.ReachableWithout(ssax.PointAfter(w), func(i ssa.Instruction) bool { return i == hdr.Instrs[0] }, isDec)
				decOK = hit == nil
			}
			ctx.Check(incOK && decOK, "W4", shortFn(runner)+"#waiting-count", w.Pos(), "waiting incremented before Wait inside the loop (%v) and decremented on every path back to the loop test (%v)", incOK, decOK)
		}
		n := 0
		for _, r := range g.Returns() {
			n++
			facts := g.FactsAtInstr(r)
			eq := cmpFact(facts, token.EQL, isFieldLoad("waiting"), isFieldLoad("running"))
			var bc, inc, unl bool
			for _, c := range g.Calls("(*sync.Cond).Broadcast") {
				if g.Dominates(c, r) {
					bc = true
				}
			}
			for _, a := range fieldAccesses(g, parPkg, "Work", "waiting") {
				if st, ok := a.At.(*ssa.Store); ok && a.Write && g.Dominates(st, r) {
					if b, ok := st.Val.(*ssa.BinOp); ok && b.Op == token.ADD {
						inc = true
					}
				}
			}
			unl = len(locksetAt(p, runner, r)) == 0
			ctx.Check(eq && bc && inc && unl, "W6", shortFn(runner)+"#return"+itoa(n), r.Pos(), "runner returns only when waiting == running (%v), after counting itself (%v), after Broadcast (%v) wakes every other waiter, with the mutex released (%v)", eq, inc, bc, unl)
		}
		if n == 0 {
			ctx.Bad("W6", shortFn(runner)+"#return", runner.Pos(), "runner never returns")
		}
	}
	// ---- W5, W7 in Add (and any method that grows todo)
	for _, f := range methods {
		g := graph(p, f)
		for _, a := range fieldAccesses(g, parPkg, "Work", "todo") {
			st, ok := a.At.(*ssa.Store)
			if !ok || !a.Write {
				continue
			}
			app, ok := st.Val.(*ssa.Call)
			if !ok || ssax.CalleeName(&app.Call) != "builtin.append" {
				continue
			}
			// growth site
			var sig *ssa.Call
			for _, c := range g.Calls("(*sync.Cond).Signal", "(*sync.Cond).Broadcast") {
				if g.Dominates(st, c) {
					sig = c
				}
			}
			if sig == nil {
				ctx.Bad("W5", shortFn(f)+"#signal", st.Pos(), "todo grows here but no Signal/Broadcast follows: a runner asleep in Wait is never woken for this item")
			} else {
				base := map[ssa.Value]bool{}
				for _, fc := range g.FactsAtInstr(st) {
					base[fc.Cond] = true
				}
				extra := ""
				guardOK := true
				for _, fc := range g.FactsAtInstr(sig) {
					if base[fc.Cond] {
						continue
					}
					b, isCmp := fc.Cond.(*ssa.BinOp)
					if isCmp && fc.Val && b.Op == token.GTR && isFieldLoad("waiting")(b.X) && isConstIntV(0)(b.Y) {
						continue
					}
					guardOK = false
					extra = fc.Cond.String()
				}
				held := locksetAt(p, f, sig)
				ctx.Check(guardOK && held[muKey(f)], "W5", shortFn(f)+"#signal", sig.Pos(), "wake-up after the enqueue is conditional on nothing but waiting > 0 (extra condition: %q) and issued under the mutex", extra)
			}
			// W7: dominated by added[item] false; MapUpdate true in same section
			item := f.Params[1]
			facts := g.FactsAtInstr(st)
			notAdded := hasFact(facts, false, func(v ssa.Value) bool {
				l, ok := v.(*ssa.Lookup)
				return ok && l.Index == ssa.Value(item) && isFieldLoad("added")(l.X)
			})
			marked := false
			g.Instrs(func(i ssa.Instruction) {
				mu, ok := i.(*ssa.MapUpdate)
				if ok && mu.Key == ssa.Value(item) && isFieldLoad("added")(mu.Map) && isTrueConst(mu.Value) && (g.Dominates(mu, st) || g.Dominates(st, mu)) && locksetAt(p, f, mu)[muKey(f)] {
					// same critical section: no Unlock between them
					marked = true
				}
			})
			elems := variadicElems(app.Call.Args[1])
			same := len(elems) == 1 && elems[0] == ssa.Value(item)
			ctx.Check(notAdded && marked && same, "W7", shortFn(f)+"#enqueue", st.Pos(), "item enqueued only when added[item] was false (%v), marked added in the same critical section (%v), and it is the item itself that is appended (%v)", notAdded, marked, same)
		}
		// added map stores only when nil
		for k, a := range fieldAccesses(g, parPkg, "Work", "added") {
			st, ok := a.At.(*ssa.Store)
			if !ok || !a.Write {
				continue
			}
			isNilFact := cmpFact(g.FactsAtInstr(st), token.EQL, isFieldLoad("added"), func(v ssa.Value) bool { return ssax.IsNil(v) })
			ctx.Check(isNilFact, "W7", shortFn(f)+"#added-init"+itoa(k+1), st.Pos(), "the dedupe map is replaced only when it is nil (replacing it later forgets which items were already added)")
		}
	}
	// W7 dequeue in runner
	{
		g := graph(p, runner)
		var cb *ssa.Call
		g.Instrs(func(i ssa.Instruction) {
			if c, ok := i.(*ssa.Call); ok && isFieldLoad("f")(c.Call.Value) {
				cb = c
			}
		})
		if cb == nil {
			ctx.Bad("W7", shortFn(runner)+"#dequeue", runner.Pos(), "runner never calls the user function")
		} else {
			arg := g.Resolve(cb.Call.Args[0], cb)
			ld, ok := arg.(*ssa.UnOp)
			fromTodo := false
			var ia *ssa.IndexAddr
			if ok {
				ia, _ = ld.X.(*ssa.IndexAddr)
				fromTodo = ia != nil && isFieldLoad("todo")(ia.X)
			}
			readLocked := fromTodo && locksetAt(p, runner, ld)[muKey(runner)]
			// a shortening store to todo under the same hold, after the read, before the unlock
			shortened := false
			for _, a := range fieldAccesses(g, parPkg, "Work", "todo") {
				st, ok := a.At.(*ssa.Store)
				if !ok || !a.Write || !fromTodo {
					continue
				}
				sl, ok := st.Val.(*ssa.Slice)
				if ok && sl.High != nil && g.Dominates(ld, st) && g.Dominates(st, cb) && locksetAt(p, runner, st)[muKey(runner)] {
					if b, ok := sl.High.(*ssa.BinOp); ok && b.Op == token.SUB && isConstIntV(1)(b.Y) {
						shortened = true
					}
				}
			}
			// no unlock between read and shortening: both in same block region with lock held is implied by must-held at both and dominance
			ctx.Check(readLocked && shortened, "W7", shortFn(runner)+"#dequeue", cb.Pos(), "the item given to f is read from todo under the mutex (%v) and todo is shortened by one under that hold before f runs (%v)", readLocked, shortened)
		}
	}
	// ---- W8
	{
		g := graph(p, do)
		var goI *ssa.Go
		g.Instrs(func(i ssa.Instruction) {
			if x, ok := i.(*ssa.Go); ok {
				goI = x
			}
		})
		n := do.Params[1]
		// running = n
		runOK := false
		var runStore *ssa.Store
		for _, a := range fieldAccesses(g, parPkg, "Work", "running") {
			if st, ok := a.At.(*ssa.Store); ok && a.Write {
				runOK = st.Val == ssa.Value(n)
				runStore = st
			}
		}
		ctx.Check(runOK, "W8", "par.Work.Do#running", posOfVal(nil, do), "running is set to n")
		// loop bound: the go statement sits in a counted loop that runs exactly n-1 times
		// (counter from 0 below n-1, from 1 below n, ...), with no other exit
		boundOK := false
		why := ""
		loopConds := map[ssa.Value]bool{}
		var bound ssa.Value
		if l, inLoop := innermostLoop(g, goI.Block().Index); !inLoop {
			why = "the goroutines are not started in a loop"
		} else {
			var iters struct {
				init  int64
				e     int64
				rot   bool
				found bool
			}
			for _, ex := range loopExits(g, l) {
				ce, ok := exitIsCounted(g, l, ex[0], ex[1])
				if !ok {
					why = "the start loop has an exit that does not depend on its counter"
					break
				}
				a, isK := ssax.ConstInt(ce.Init)
				if !isK {
					why = "the counter does not start at a constant"
					break
				}
				blkIf := g.Fn.Blocks[ce.Block]
				loopConds[stripNotV(blkIf.Instrs[len(blkIf.Instrs)-1].(*ssa.If).Cond)] = true
				bound = ce.Bound
				iters.init, iters.e, iters.found = a, ce.E, true
				iters.rot = !(g.DomBlock(ce.Block, goI.Block().Index) && ce.Block != goI.Block().Index)
			}
			if why == "" && iters.found {
				// number of iterations = bound - init - e (test first) or bound - init (test after the body, e == 1)
				off := iters.init + iters.e
				if iters.rot {
					off = iters.init
				}
				// bound - off must equal n - 1
				switch bv := bound.(type) {
				case *ssa.BinOp:
					if k, isK := ssax.ConstInt(bv.Y); bv.Op == token.SUB && bv.X == ssa.Value(n) && isK {
						boundOK = -k-off == -1
					}
				default:
					if bound == ssa.Value(n) {
						boundOK = -off == -1
					}
				}
				if !boundOK {
					why = "the loop does not run n-1 times"
				}
			}
		}
		ctx.Check(boundOK, "W8", "par.Work.Do#bound", goI.Pos(), "exactly n-1 goroutines are started (a counted loop over n-1 values with no other exit), so that with the caller n runners exist %s", why)
		// unconditional: no branch fact between the running store and the loop other than the loop test
		uncond := runStore != nil
		if runStore != nil {
			base := map[ssa.Value]bool{}
			for _, fc := range g.FactsAtInstr(runStore) {
				base[fc.Cond] = true
			}
			for _, fc := range g.FactsAtInstr(goI) {
				if base[fc.Cond] || loopConds[fc.Cond] {
					continue
				}
				// the entry guard of a rotated loop: <constant> < bound
				if b, ok := fc.Cond.(*ssa.BinOp); ok && b.Op == token.LSS && b.Y == bound {
					if _, isK := ssax.ConstInt(b.X); isK {
						continue
					}
				}
				uncond = false
			}
		}
		// synchronous runner call after the loop, on every path to return
		syncOK := false
		for _, c := range g.Calls(ssax.FuncName(runner)) {
			ok := true
			for _, r := range g.Returns() {
				if !g.Dominates(c, r) {
					ok = false
				}
			}
			if ok && !g.Dominates(c, goI) {
				syncOK = true
			}
		}
		ctx.Check(uncond && syncOK, "W8", "par.Work.Do#participate", goI.Pos(), "the start loop is reached unconditionally once running is set (%v) and Do itself runs a runner to completion before returning (%v)", uncond, syncOK)
	}
}

func isTrueConst(v ssa.Value) bool { k, ok := ssax.ConstBool(v); return ok && k }

// c09More: rules added after the fourth seeding round.
func c09More(ctx *core.Ctx) {
	p := ctx.P
	ctx.Rule("W9", "no panic under the lock: bounds engine over Add, Do and runner (an index outside todo panics while the mutex is held, and Do never returns)", 1)
	ctx.Rule("W10", "the condition variable is usable before anyone can wait on it: Do stores the mutex into wait.L on every path before it starts a goroutine or runs a runner (binding it lazily elsewhere leaves Do on a never-touched Work with a nil Locker)", 1)
	ctx.Rule("W11", "nothing but the dedupe set decides whether an item is enqueued: every path through Add that does not enqueue the item has found added[item] true", 1)
	var entries []*ssa.Function
	for _, n := range []string{"(*Work).Add", "(*Work).Do", "(*Work).runner"} {
		if f := ctx.Need("W9", "par", n); f != nil {
			entries = append(entries, f)
		}
	}
	if len(entries) > 0 {
		totality(ctx, entries, totalOpts{rule: "W9", allowPanic: func(pn *ssa.Panic) string {
			// Do's documented misuse panics (n < 1, called twice) carry a constant message and are raised
			// before any lock is taken
			if mi, ok := pn.X.(*ssa.MakeInterface); ok {
				if _, isK := ssax.ConstString(mi.X); isK && len(locksetAt(p, pn.Parent(), pn)) == 0 {
					return "constant-message precondition panic, raised with no lock held"
				}
			}
			return ""
		}})
	}
	if do := p.Func("par", "(*Work).Do"); do != nil {
		g := graph(p, do)
		var bind *ssa.Store
		g.Instrs(func(i ssa.Instruction) {
			st, ok := i.(*ssa.Store)
			if !ok {
				return
			}
			if fa, ok := st.Addr.(*ssa.FieldAddr); ok && ssax.FieldOf(fa) != nil && ssax.FieldOf(fa).Name() == "L" {
				if in, ok := fa.X.(*ssa.FieldAddr); ok && ssax.FieldOf(in) != nil && ssax.FieldOf(in).Name() == "wait" {
					bind = st
				}
			}
		})
		ok := bind != nil
		if bind != nil {
			g.Instrs(func(i ssa.Instruction) {
				switch x := i.(type) {
				case *ssa.Go:
					if !g.Dominates(bind, x) {
						ok = false
					}
				case *ssa.Call:
					if cal := x.Call.StaticCallee(); cal != nil && cal.Name() == "runner" && !g.Dominates(bind, x) {
						ok = false
					}
				}
			})
		}
		ctx.Check(ok, "W10", "par.Work.Do#cond-bound", do.Pos(), "wait.L = &mu is stored in Do ahead of every goroutine start and runner call")
	}
	if add := p.Func("par", "(*Work).Add"); add != nil && len(add.Params) >= 2 {
		g := graph(p, add)
		item := add.Params[1]
		var enq *ssa.Store
		for _, a := range fieldAccesses(g, parPkg, "Work", "todo") {
			if st, ok := a.At.(*ssa.Store); ok && a.Write {
				if c, ok := st.Val.(*ssa.Call); ok && isBuiltinCall(c, "append") {
					enq = st
				}
			}
		}
		if enq == nil {
			ctx.Bad("W11", "par.Work.Add#skip-only-if-added", add.Pos(), "Add never enqueues")
		} else {
			eb := enq.Block().Index
			ok := true
			for _, r := range g.Returns() {
				if !onAllPathsVia(g, r, nil, func(f ssax.Fact) bool {
					l, isL := f.Cond.(*ssa.Lookup)
					return isL && f.Val && l.Index == ssa.Value(item) && isFieldLoad("added")(l.X)
				}, func(b int) bool { return b == eb }) {
					ok = false
				}
			}
			ctx.Check(ok, "W11", "par.Work.Add#skip-only-if-added", enq.Pos(), "an item is left out only when the dedupe set already contains it (any other shortcut can drop an item that was never run, e.g. the nil item on a fresh Work)")
		}
	}
}
