package rules

import (
	"fmt"
	"go/token"
	"os"
	"strings"

	"golang.org/x/tools/go/ssa"

	"verif/checker/core"
	"verif/checker/ssax"
)

func init() {
	Registry["C15"] = Spec{Run: runC15, Packages: []string{"txtar", "cmd/txtar-x", "cmd/txtar-c"}}
}

func runC15(ctx *core.Ctx) {
	parseFileRaw(ctx, "X12")
	fixNLShape(ctx, "X11")
	c15Round5(ctx)
	ctx.Trusted = append(ctx.Trusted, "go/types, go/ssa", "semantics of filepath.Clean/Join/IsAbs/IsLocal and of os.OpenFile flags (O_EXCL|O_CREATE never opens an existing file)")
	ctx.Rule("X1", "guard completeness in txtar.Write: every file-system call that creates something (os.MkdirAll, os.OpenFile, os.Create, os.WriteFile) takes a path derived from filepath.Join(dir, p) with p = filepath.Clean(filepath.FromSlash(entry name)), and is reached only when p is known not absolute, not equal to \"..\" and not prefixed by \"..\"+separator (or filepath.IsLocal(p) is known true)", 2)
	ctx.Rule("X2", "no overwrite: the flag constant of the os.OpenFile that creates an entry contains O_CREATE|O_EXCL and not O_TRUNC", 1)
	ctx.Rule("X3", "exact content: the only write to the created file is the Data of the same entry, and every success path checks both the write error and the close error", 2)
	ctx.Rule("X4", "txtar-x passes the parsed archive unchanged to Write and exits non-zero when Write fails", 2)
	needsQuoteExact(ctx, "X7", "X8")
	unquoteShape(ctx, "X9")
	ctx.Rule("X6", "txtar-c records what it quoted: wherever a file body is replaced by its quoted form, the archive comment is extended (append onto its previous value) by a line 'unquote <path>' whose path is the same root-relative name that becomes the entry's Name, on every path to the entry being added; txtar-x's reader restores quoted files from exactly these lines", 1)
	ctx.Rule("X5", "txtar-c: entry names are made relative to the walked root and slash-normalised; a final newline is appended only to non-empty data that lacks one", 2)
	p := ctx.P
	w := ctx.Need("X1", "txtar", "Write")
	if w == nil {
		return
	}
	g := graph(p, w)
	dir := w.Params[1]
	sep := string(os.PathSeparator)
	if p.Cfg.GOOS == "windows" {
		sep = `\`
	} else {
		sep = "/"
	}

	creators := []string{"os.MkdirAll", "os.OpenFile", "os.Create", "os.WriteFile", "os.Mkdir"}
	var opens []*ssa.Call
	for _, c := range g.Calls(creators...) {
		name := ssax.CalleeName(&c.Call)
		key := "txtar.Write#" + name
		pathArg := c.Call.Args[0]
		// find the Join(dir, p) the path derives from
		var join *ssa.Call
		ssax.DerivedFrom(pathArg, func(v ssa.Value) bool {
			if cc, ok := v.(*ssa.Call); ok && ssax.CalleeName(&cc.Call) == "path/filepath.Join" {
				join = cc
				return true
			}
			return false
		}, func(cc *ssa.Call) bool { return ssax.CalleeName(&cc.Call) == "path/filepath.Dir" })
		if join == nil {
			ctx.Bad("X1", key, c.Pos(), "path argument is not derived from filepath.Join(dir, cleaned name)")
			continue
		}
		// elements of the variadic Join: stores into the backing array
		elems := variadicElems(join.Call.Args[0])
		if len(elems) != 2 || elems[0] != ssa.Value(dir) {
			ctx.Bad("X1", key, c.Pos(), "filepath.Join is not Join(dir, p) with the directory parameter first (%d elements)", len(elems))
			continue
		}
		pv := g.Resolve(elems[1], c)
		clean, ok := pv.(*ssa.Call)
		if !ok || ssax.CalleeName(&clean.Call) != "path/filepath.Clean" {
			ctx.Bad("X1", key, c.Pos(), "second Join element is not the result of filepath.Clean")
			continue
		}
		fromEntry := ssax.DerivedFrom(clean.Call.Args[0], func(v ssa.Value) bool {
			fa, ok := v.(*ssa.FieldAddr)
			return ok && ssax.FieldOf(fa) != nil && ssax.FieldOf(fa).Name() == "Name"
		}, func(cc *ssa.Call) bool { return ssax.CalleeName(&cc.Call) == "path/filepath.FromSlash" })
		if !fromEntry {
			ctx.Bad("X1", key, c.Pos(), "cleaned path does not derive from the entry's Name")
			continue
		}
		facts := g.FactsAtInstr(c)
		var missing []string
		if hasFact(facts, true, isCallOf([]string{"path/filepath.IsLocal"}, isVal(pv))) {
			// covers everything
		} else {
			// (a) not absolute
			absOK := hasFact(facts, false, func(v ssa.Value) bool {
				cc, ok := v.(*ssa.Call)
				if !ok || len(cc.Call.Args) < 1 || cc.Call.Args[0] != pv {
					return false
				}
				n := ssax.CalleeName(&cc.Call)
				if n == "path/filepath.IsAbs" {
					// on Windows IsAbs(`\foo`) is false: a rooted check is needed too
					return p.Cfg.GOOS != "windows"
				}
				if cal := cc.Call.StaticCallee(); cal != nil && core.InModule(cal) {
					return impliesIsAbs(p, cal, sep)
				}
				return false
			})
			if !absOK {
				missing = append(missing, "absolute path")
			}
			// strong form: !HasPrefix(p, "..")
			strong := hasFact(facts, false, isCallOf([]string{"strings.HasPrefix"}, isVal(pv), isConstStr("..")))
			if !strong {
				if !hasFact(facts, false, isCallOf([]string{"strings.HasPrefix"}, isVal(pv), isConstStr(".."+sep))) {
					missing = append(missing, `prefix ".."+separator`)
				}
				if !cmpFact(facts, token.NEQ, isVal(pv), isConstStr("..")) {
					missing = append(missing, `the path ".." itself`)
				}
			}
		}
		if len(missing) == 0 {
			ctx.OK("X1", key, c.Pos(), "reached only for a cleaned relative name that cannot climb out of dir")
		} else {
			ctx.Bad("X1", key, c.Pos(), "%s(%s) is reachable for an entry name that escapes the directory: no rejection of %s on the paths to this call", name, "Join(dir, Clean(name))", strings.Join(missing, ", "))
		}
		if name == "os.OpenFile" {
			opens = append(opens, c)
		}
	}
	// other writers in Write that bypass the creators list
	g.Instrs(func(i ssa.Instruction) {
		if c, ok := i.(*ssa.Call); ok {
			n := ssax.CalleeName(&c.Call)
			if (strings.HasPrefix(n, "os.") || strings.HasPrefix(n, "io/ioutil.")) && !contains(creators, n) {
				switch n {
				case "os.Symlink", "os.Link", "os.Rename", "os.Remove", "os.RemoveAll", "os.Chmod", "os.Truncate", "io/ioutil.WriteFile":
					ctx.Bad("X1", "txtar.Write#"+n, c.Pos(), "unexpected file-system mutation %s in Write", n)
				}
			}
		}
	})

	// ---- X2
	for _, c := range opens {
		fl, ok := constFlag(c.Call.Args[1])
		if !ok {
			ctx.Bad("X2", "txtar.Write#os.OpenFile", c.Pos(), "open flags are not a constant")
			continue
		}
		want := int64(os.O_CREATE | os.O_EXCL)
		if p.Cfg.GOOS != "linux" {
			// flag values differ per OS; compare against that OS's constants
			want = osFlag(p, "O_CREATE") | osFlag(p, "O_EXCL")
		}
		trunc := osFlag(p, "O_TRUNC")
		ctx.Check(fl&want == want && fl&trunc == 0, "X2", "txtar.Write#os.OpenFile", c.Pos(), "flags %#x: O_CREATE|O_EXCL present=%v, O_TRUNC present=%v", fl, fl&want == want, fl&trunc != 0)
	}

	// ---- X3
	for _, c := range opens {
		file := ssax.Extracted(c, 0)
		if file == nil {
			ctx.Bad("X3", "txtar.Write#content", c.Pos(), "created file is not used")
			continue
		}
		var writes, closes []*ssa.Call
		for _, r := range ssax.Referrers(file) {
			cc, ok := r.(*ssa.Call)
			if !ok || !g.Live(cc) {
				continue
			}
			switch ssax.CalleeName(&cc.Call) {
			case "(*os.File).Write", "(*os.File).WriteString", "(*os.File).WriteAt":
				writes = append(writes, cc)
			case "(*os.File).Close":
				closes = append(closes, cc)
			case "(*os.File).ReadFrom", "io.Copy", "io.WriteString", "fmt.Fprintf", "fmt.Fprint":
				writes = append(writes, cc)
			}
		}
		okData := len(writes) == 1 && ssax.CalleeName(&writes[0].Call) == "(*os.File).Write" && ssax.DerivedFrom(writes[0].Call.Args[1], func(v ssa.Value) bool {
			fa, ok := v.(*ssa.FieldAddr)
			return ok && ssax.FieldOf(fa) != nil && ssax.FieldOf(fa).Name() == "Data"
		}, nil)
		ctx.Check(okData, "X3", "txtar.Write#content", c.Pos(), "exactly one write to the created file and it writes the entry's Data (writes found: %d)", len(writes))
		if len(writes) == 1 && len(closes) >= 1 {
			werr := ssax.Extracted(writes[0], 1)
			// every way of continuing past the entry (loop back edge or return nil) must know both errors nil
			bad := ""
			check := func(at ssa.Instruction, facts []ssax.Fact) {
				if werr == nil || !ssax.KnownNil(facts, werr, true) {
					bad = "write error not known nil at " + p.Pos(at.Pos())
				}
				closeOK := false
				for _, cl := range closes {
					if ssax.KnownNil(facts, cl, true) {
						closeOK = true
					}
				}
				if !closeOK {
					if os.Getenv("VERIF_DEBUG") != "" {
						for _, f := range facts {
							fmt.Fprintf(os.Stderr, "fact %v=%v nilof=%v isnil=%v\n", f.Cond, f.Val, f.NilOf, f.IsNil)
						}
					}
					bad = "close error not known nil at " + p.Pos(at.Pos())
				}
			}
			// success continuation = going on to the next entry (a back edge of the loop over the
			// entries) or returning nil, after the write
			wb := writes[0].Block()
			if l, inLoop := innermostLoop(g, wb.Index); inLoop {
				for _, latch := range g.Preds[l.Header] {
					if l.Blocks[latch] {
						hit, _ := g.ReachableWithout(ssax.PointAfter(writes[0]), func(i ssa.Instruction) bool { return i.Block().Index == latch }, nil)
						if hit != nil || latch == wb.Index {
							lb := w.Blocks[latch]
							check(lb.Instrs[len(lb.Instrs)-1], factsOnEdge(g, lb, w.Blocks[l.Header]))
						}
					}
				}
			}
			for _, r := range g.Returns() {
				if !ssax.IsNil(r.Results[0]) {
					continue
				}
				if hit, _ := g.ReachableWithout(ssax.PointAfter(writes[0]), func(i ssa.Instruction) bool { return i == ssa.Instruction(r) }, func(i ssa.Instruction) bool {
					// not through the loop head: that continuation was checked above
					l, inLoop := innermostLoop(g, wb.Index)
					return inLoop && i.Block().Index == l.Header
				}); hit != nil {
					check(r, g.FactsAtInstr(r))
				}
			}
			ctx.Check(bad == "", "X3", "txtar.Write#errors", c.Pos(), "success continuation requires write and close errors nil %s", bad)
		} else {
			ctx.Bad("X3", "txtar.Write#errors", c.Pos(), "write/close pairing not found (writes=%d closes=%d)", len(writes), len(closes))
		}
	}

	// ---- X1 (converse): only escaping names are refused
	{
		isNameVal := func(v ssa.Value) bool {
			c, ok := v.(*ssa.Call)
			return ok && ssax.CalleeName(&c.Call) == "path/filepath.Clean"
		}
		n := 0
		for _, r := range g.Returns() {
			rv := ssax.ReturnValues(r)
			ec, isCall := rv[len(rv)-1].(*ssa.Call)
			if !isCall || ssax.CalleeName(&ec.Call) != "fmt.Errorf" {
				continue
			}
			if f, _ := ssax.ConstString(ec.Call.Args[0]); !strings.Contains(f, "outside") {
				continue
			}
			n++
			exact := onAllPaths(g, r, nil, func(f ssax.Fact) bool {
				if !f.Val {
					return false
				}
				// isAbs(p) / filepath.IsAbs(p) / !IsLocal is not expressible as a true fact; p == ".."; HasPrefix(p, ".."+sep)
				if c, ok := f.Cond.(*ssa.Call); ok {
					nm := ssax.CalleeName(&c.Call)
					if nm == "path/filepath.IsAbs" {
						return true
					}
					if cal := c.Call.StaticCallee(); cal != nil && core.InModule(cal) && impliesIsAbs(p, cal, sep) {
						return true
					}
					if nm == "strings.HasPrefix" && len(c.Call.Args) == 2 && isNameVal(c.Call.Args[0]) {
						if pre, ok := ssax.ConstString(c.Call.Args[1]); ok && pre == ".."+sep {
							return true
						}
						if b, ok := c.Call.Args[1].(*ssa.BinOp); ok && b.Op == token.ADD {
							if pre, ok := ssax.ConstString(b.X); ok && pre == ".." {
								return true
							}
						}
					}
				}
				return cmpFact([]ssax.Fact{f}, token.EQL, isNameVal, isConstStr(".."))
			})
			ctx.Check(exact, "X1", "txtar.Write#refusal"+itoa(n), r.Pos(), "an entry is refused as 'outside' only when its cleaned name is absolute, is \"..\", or starts with \"..\"+separator (a weaker test such as HasPrefix(name, \"..\") also refuses legal names like ..data/token, and the round trip loses them)")
		}
		if n == 0 {
			ctx.Note("X1", "txtar.Write#refusal", w.Pos(), "no 'outside parent directory' return found")
		}
	}
	// ---- X4 txtar-x
	if m := ctx.Need("X4", "cmd/txtar-x", "main"); m != nil {
		mg := graph(p, m)
		const W = core.ModPath + "/txtar.Write"
		calls := mg.Calls(W)
		if len(calls) != 1 {
			ctx.Bad("X4", "txtar-x.main#Write", m.Pos(), "expected one call to txtar.Write, found %d", len(calls))
		} else {
			c := calls[0]
			arch := c.Call.Args[0]
			// the values the archive can have where Write is called (a nil placeholder merged in on
			// an error path that never reaches the call does not count)
			okSrc := true
			for _, v := range mg.ResolveAll(arch, c) {
				if e, ok := v.(*ssa.Extract); ok {
					v = e.Tuple
				}
				cc, ok := v.(*ssa.Call)
				n := ""
				if ok {
					n = ssax.CalleeName(&cc.Call)
				}
				if n != core.ModPath+"/txtar.Parse" && n != core.ModPath+"/txtar.ParseFile" {
					okSrc = false
				}
			}
			// no stores through the archive in main
			mutated := false
			mg.Instrs(func(i ssa.Instruction) {
				if st, ok := i.(*ssa.Store); ok {
					if ssax.DerivedFrom(st.Addr, func(v ssa.Value) bool { return v == arch }, nil) {
						mutated = true
					}
				}
			})
			ctx.Check(okSrc && !mutated, "X4", "txtar-x.main#archive", c.Pos(), "archive passed to Write comes straight from Parse/ParseFile (ok=%v) and is not modified (mutated=%v)", okSrc, mutated)
			// error => os.Exit(non-zero)
			bad := ""
			found := false
			for _, b := range m.Blocks {
				if !mg.Reach[b.Index] {
					continue
				}
				if ssax.KnownNil(mg.FactsAt(b.Index), c, false) && len(mg.Preds[b.Index]) == 1 {
					pb := m.Blocks[mg.Preds[b.Index][0]]
					if !ssax.KnownNil(mg.FactsAt(pb.Index), c, false) {
						found = true
						exits := mg.MustPass(ssax.Point{Block: b.Index}, func(i ssa.Instruction) bool {
							if cc, ok := i.(*ssa.Call); ok && ssax.CalleeName(&cc.Call) == "os.Exit" {
								k, ok := ssax.ConstInt(cc.Call.Args[0])
								return ok && k != 0
							}
							if cc, ok := i.(*ssa.Call); ok {
								n := ssax.CalleeName(&cc.Call)
								return n == "log.Fatal" || n == "log.Fatalf" || n == "log.Fatalln"
							}
							return false
						}, true)
						for _, e := range exits {
							if _, isPanic := e.Last.(*ssa.Panic); !isPanic {
								bad = "path " + ssax.TrailString(e.Trail) + " leaves main without a non-zero exit"
							}
						}
					}
				}
			}
			if !found {
				// the error may reach its test merged with others ("err := step1(); if err == nil { err = Write() };
				// if err != nil { exit }"): follow the paths from the Write call and ask, at every normal end of
				// main, whether Write's error can still be non-nil
				ex := &ssax.Explorer{G: mg}
				found = true
				for _, e := range ex.Run(ssax.PointAfter(c)) {
					if e.Kind != ssax.ExitReturn || e.Nil == nil {
						continue
					}
					if _, isPanic := e.Last.(*ssa.Panic); isPanic {
						continue
					}
					if e.Nil(c) != ssax.True {
						bad = "main can end normally (" + strings.Join(e.Trail, " > ") + ") with the Write error not known to be nil"
					}
				}
				if ex.Overflow {
					bad = "too many paths"
				}
			}
			ctx.Check(found && bad == "", "X4", "txtar-x.main#exit", c.Pos(), "Write error leads to non-zero exit on every path %s", bad)
		}
	}

	// ---- X5 txtar-c
	storesField := func(f *ssa.Function, typ, field string) []*ssa.Store {
		var out []*ssa.Store
		for _, b := range f.Blocks {
			for _, i := range b.Instrs {
				st, ok := i.(*ssa.Store)
				if !ok {
					continue
				}
				fa, ok := st.Addr.(*ssa.FieldAddr)
				if ok && ssax.FieldOf(fa) != nil && ssax.FieldOf(fa).Name() == field && isNamed(fa.X.Type(), txtarFile, typ) {
					out = append(out, st)
				}
			}
		}
		return out
	}
	if m := ctx.NeedRole("X5", "cmd/txtar-c", "main$1", "builds the archive's file entries", func(f *ssa.Function) bool { return len(storesField(f, "File", "Name")) > 0 }); m != nil {
		mg := graph(p, m)
		// X6: quoted files are recorded
		var nameSrc ssa.Value
		for _, st := range storesField(m, "File", "Name") {
			if c, ok := st.Val.(*ssa.Call); ok && ssax.CalleeName(&c.Call) == "path/filepath.ToSlash" {
				nameSrc = c.Call.Args[0]
			} else {
				nameSrc = st.Val
			}
		}
		quotes := mg.Calls(core.ModPath + "/txtar.Quote")
		cstores := storesField(m, "Archive", "Comment")
		for q, qc := range quotes {
			key := "txtar-c#unquote-record" + itoa(q+1)
			if len(cstores) == 0 {
				ctx.Bad("X6", key, qc.Pos(), "a file is stored quoted but nothing is added to the archive comment")
				continue
			}
			why := ""
			for _, st := range cstores {
				ap, ok := st.Val.(*ssa.Call)
				if !ok || !isBuiltinCall(ap, "append") {
					why = "the comment is replaced, not appended to: an earlier file's unquote line is lost"
					break
				}
				ld, ok := ap.Call.Args[0].(*ssa.UnOp)
				if !ok || ld.Op != token.MUL || ssax.AccessPath(ld.X) != ssax.AccessPath(st.Addr) {
					why = "the comment is not extended from its previous value: an earlier file's unquote line is lost"
					break
				}
				isUnquoteLit := func(v ssa.Value) bool {
					s, ok := ssax.ConstString(v)
					return ok && strings.HasPrefix(s, "unquote ")
				}
				if !ssax.DerivedFrom(ap.Call.Args[1], isUnquoteLit, nil) {
					why = "the appended text does not start an 'unquote' line"
					break
				}
				if nameSrc == nil || !ssax.DerivedFrom(ap.Call.Args[1], isVal(nameSrc), nil) {
					why = "the unquote line does not name the entry (the root-relative path that also becomes File.Name)"
					break
				}
			}
			if why == "" {
				// every path from a successful Quote to the entry being added records it
				hit, _ := mg.ReachableWithout(ssax.PointAfter(qc), func(i ssa.Instruction) bool {
					for _, st := range storesField(m, "File", "Data") {
						if i == ssa.Instruction(st) {
							return true
						}
					}
					return false
				}, func(i ssa.Instruction) bool {
					for _, st := range cstores {
						if i == ssa.Instruction(st) {
							return true
						}
					}
					return false
				})
				if hit != nil {
					why = "a quoted file can be added without an unquote line"
				}
			}
			ctx.Check(why == "", "X6", key, qc.Pos(), "a file stored quoted gets its own 'unquote <entry path>' line appended to the archive comment %s", why)
		}
		if len(quotes) == 0 {
			ctx.Note("X6", "txtar-c#unquote-record", m.Pos(), "txtar-c never quotes")
		}
		n := 0
		mg.Instrs(func(i ssa.Instruction) {
			st, ok := i.(*ssa.Store)
			if !ok {
				return
			}
			fa, ok := st.Addr.(*ssa.FieldAddr)
			if !ok || ssax.FieldOf(fa) == nil || ssax.FieldOf(fa).Name() != "Name" || !isNamed(fa.X.Type(), txtarFile, "File") {
				return
			}
			n++
			c, ok := st.Val.(*ssa.Call)
			okName := ok && ssax.CalleeName(&c.Call) == "path/filepath.ToSlash"
			rel := false
			if okName {
				rel = ssax.DerivedFrom(c.Call.Args[0], func(v ssa.Value) bool {
					cc, ok := v.(*ssa.Call)
					if !ok {
						return false
					}
					nn := ssax.CalleeName(&cc.Call)
					return nn == "strings.TrimPrefix" || nn == "path/filepath.Rel"
				}, nil)
			}
			// the prefix removed is the root *with its separator* (or filepath.Rel is used): removing the
			// bare root "." strips the leading dot of .gitignore, and "a" eats into "ab/x"
			unit := false
			if okName {
				ssax.DerivedFrom(c.Call.Args[0], func(v ssa.Value) bool {
					cc, ok := v.(*ssa.Call)
					if !ok {
						return false
					}
					switch ssax.CalleeName(&cc.Call) {
					case "path/filepath.Rel":
						unit = true
					case "strings.TrimPrefix", "strings.CutPrefix":
						if b, ok := cc.Call.Args[1].(*ssa.BinOp); ok && b.Op == token.ADD {
							unit = true
						}
					}
					return false
				}, func(cc *ssa.Call) bool { return strings.HasPrefix(ssax.CalleeName(&cc.Call), "strings.") })
			}
			ctx.Check(okName && rel && unit, "X5", "txtar-c.main$1#name", st.Pos(), "entry name is ToSlash of a root-relative path (ToSlash=%v, relative=%v, root removed together with its separator=%v)", okName, rel, unit)
		})
		if n == 0 {
			ctx.Unknown("X5", "txtar-c.main$1#name", m.Pos(), "no store to File.Name found")
		}
		// newline append guarded
		k := 0
		mg.Instrs(func(i ssa.Instruction) {
			c, ok := i.(*ssa.Call)
			if !ok || ssax.CalleeName(&c.Call) != "builtin.append" || !isByteSlice(c.Type()) {
				return
			}
			// appended element is '\n'?
			el := variadicElems(c.Call.Args[1])
			if len(el) != 1 {
				return
			}
			if b, ok := ssax.ConstInt(el[0]); !ok || b != '\n' {
				return
			}
			k++
			facts := mg.FactsAtInstr(c)
			data := c.Call.Args[0]
			// "lacks a final newline": HasSuffix(data, "\n") false, or the last byte compared unequal to it
			lacks := hasFact(facts, false, isCallOf([]string{"bytes.HasSuffix"}, isVal(data), nil)) ||
				cmpFact(facts, token.NEQ, isElemLoad(data, isLenMinus(data, 1)), isConstIntV('\n'))
			guard := lacks && cmpFact(facts, token.GTR, isLenOf(data), isConstIntV(0))
			ctx.Check(guard, "X5", "txtar-c.main$1#newline", c.Pos(), "newline appended only when data is non-empty and lacks one")
		})
		if k == 0 {
			ctx.Unknown("X5", "txtar-c.main$1#newline", m.Pos(), "no newline append found")
		}
		// the quoting decision must be taken on the newline-normalised data: Quote refuses
		// unterminated data, so deciding first silently drops a marker-bearing file without final newline
		isNLAppend := func(v ssa.Value) bool {
			c, ok := v.(*ssa.Call)
			if !ok || ssax.CalleeName(&c.Call) != "builtin.append" {
				return false
			}
			el := variadicElems(c.Call.Args[1])
			if len(el) != 1 {
				return false
			}
			b, ok := ssax.ConstInt(el[0])
			return ok && b == '\n'
		}
		for q, c := range mg.Calls(core.ModPath+"/txtar.NeedsQuote", core.ModPath+"/txtar.Quote") {
			ctx.Check(ssax.DerivedFrom(c.Call.Args[0], isNLAppend, nil), "X5", "txtar-c.main$1#quote-after-newline"+itoa(q+1), c.Pos(), "%s is applied to the data after the final-newline fix", ssax.CalleeName(&c.Call))
		}
	}
}

func contains(s []string, x string) bool {
	for _, y := range s {
		if y == x {
			return true
		}
	}
	return false
}

func isByteSlice(t interface{ String() string }) bool { return t.String() == "[]byte" }

// variadicElems returns the values stored into the backing array of a
// variadic argument slice (slice t[:] of new [n]T), in index order.
func variadicElems(v ssa.Value) []ssa.Value { return ssax.VariadicElems(v) }

// impliesIsAbs: the module function returns true whenever its argument is
// absolute or rooted: its result is a disjunction containing filepath.IsAbs(p)
// and (needed on Windows) HasPrefix(p, separator).
func impliesIsAbs(p *core.Prog, f *ssa.Function, sep string) bool {
	if len(f.Params) != 1 {
		return false
	}
	g := graph(p, f)
	rets := g.Returns()
	if len(rets) != 1 {
		return false
	}
	e := boolOf(rets[0].Results[0])
	var disj []*boolExpr
	if e.Op == "or" {
		disj = e.Args
	} else {
		disj = []*boolExpr{e}
	}
	hasAbs, hasRooted := false, false
	for _, d := range disj {
		if d.Op != "atom" {
			continue
		}
		if isCallOf([]string{"path/filepath.IsAbs"}, isVal(f.Params[0]))(d.Atom) {
			hasAbs = true
		}
		if isCallOf([]string{"strings.HasPrefix"}, isVal(f.Params[0]), isConstStr(sep))(d.Atom) {
			hasRooted = true
		}
	}
	if p.Cfg.GOOS == "windows" {
		return hasAbs && hasRooted
	}
	return hasAbs || hasRooted
}

// osFlag returns the value of os.<name> in the loaded configuration.
func osFlag(p *core.Prog, name string) int64 {
	pk := p.Pkgs["os"]
	if pk == nil {
		return 0
	}
	c, ok := pk.Types.Scope().Lookup(name).(interface {
		Val() interface{ String() string }
	})
	_ = c
	_ = ok
	obj := pk.Types.Scope().Lookup(name)
	if k, ok := obj.(interface{ Val() constantValue }); ok {
		_ = k
	}
	return constOf(obj)
}
