package rules

import (
	"verif/checker/core"
)

func c01Commands(ctx *core.Ctx) {}
