package rules

import (
	"fmt"
	"go/ast"
	"go/token"
	"regexp"
	"sort"
	"strconv"
	"strings"

	"golang.org/x/tools/go/ssa"

	"verif/checker/boundx"
	"verif/checker/core"
	"verif/checker/ssax"
)

// builtinCmds reads the scriptCmds table: name -> implementing function.
func builtinCmds(p *core.Prog) map[string]*ssa.Function {
	out := map[string]*ssa.Function{}
	sp := p.Pkg("testscript")
	if sp == nil {
		return out
	}
	init := sp.Func("init")
	if init == nil {
		return out
	}
	graph(p, init).Instrs(func(i ssa.Instruction) {
		mu, ok := i.(*ssa.MapUpdate)
		if !ok {
			return
		}
		name, ok := ssax.ConstString(mu.Key)
		if !ok {
			return
		}
		v := mu.Value
		for {
			if ct, ok := v.(*ssa.ChangeType); ok {
				v = ct.X
				continue
			}
			break
		}
		if fn, ok := v.(*ssa.Function); ok {
			// a method expression is wrapped in a synthetic thunk: unwrap to the method
			if fn.Synthetic != "" && len(fn.Blocks) == 1 {
				for _, ins := range fn.Blocks[0].Instrs {
					if c, ok := ins.(*ssa.Call); ok && c.Call.StaticCallee() != nil {
						fn = c.Call.StaticCallee()
					}
				}
			}
			out[name] = fn
		}
	})
	return out
}

// docSynopses parses the "  - [!] name args" lines of the package comment.
type synopsis struct {
	Name     string
	Neg      bool
	Min, Max int // Max < 0: unbounded
	Text     string
}

func docSynopses(p *core.Prog) map[string]synopsis {
	out := map[string]synopsis{}
	pk := p.TPkg("testscript")
	if pk == nil {
		return out
	}
	var doc string
	for _, f := range pk.Syntax {
		if f.Doc != nil && strings.Contains(f.Doc.Text(), "The predefined commands are:") {
			doc = f.Doc.Text()
		}
	}
	i := strings.Index(doc, "The predefined commands are:")
	if i < 0 {
		return out
	}
	doc = doc[i:]
	if j := strings.Index(doc, "When TestScript runs a script"); j >= 0 {
		doc = doc[:j]
	}
	re := regexp.MustCompile(`(?m)^\s*- (\[!\] )?([a-z0-9]+)(.*)$`)
	for _, m := range re.FindAllStringSubmatch(doc, -1) {
		s := synopsis{Name: m[2], Neg: m[1] != "", Text: strings.TrimSpace(m[0])}
		toks := strings.Fields(m[3])
		// re-join bracket groups
		var args []string
		cur := ""
		for _, t := range toks {
			if cur != "" {
				cur += " " + t
				if strings.Contains(t, "]") {
					args = append(args, cur)
					cur = ""
				}
				continue
			}
			if strings.HasPrefix(t, "[") && !strings.Contains(t, "]") {
				cur = t
				continue
			}
			args = append(args, t)
		}
		for _, a := range args {
			opt := strings.HasPrefix(a, "[")
			variadic := strings.Contains(a, "...")
			if !opt {
				s.Min++
			}
			if variadic {
				s.Max = -1
			}
			if s.Max >= 0 {
				s.Max++
			}
		}
		out[s.Name] = s
	}
	return out
}

func (s synopsis) allows(n int) bool { return n >= s.Min && (s.Max < 0 || n <= s.Max) }

// influences reports whether parameter idx of f reaches a branch condition,
// directly, through a callee parameter, or through a struct field store.
func influences(p *core.Prog, f *ssa.Function, idx int, depth int) bool {
	if depth > 3 || idx >= len(f.Params) {
		return false
	}
	par := f.Params[idx]
	g := graph(p, f)
	hit := false
	g.Instrs(func(i ssa.Instruction) {
		switch x := i.(type) {
		case *ssa.If:
			if ssax.DerivedFrom(x.Cond, isVal(par), nil) {
				hit = true
			}
		case *ssa.Store:
			if x.Val == ssa.Value(par) {
				if _, ok := x.Addr.(*ssa.FieldAddr); ok {
					hit = true
				}
			}
		case *ssa.Call:
			if cal := x.Call.StaticCallee(); cal != nil && core.InModule(cal) {
				for ai, a := range x.Call.Args {
					if a == ssa.Value(par) && influences(p, cal, ai, depth+1) {
						hit = true
					}
				}
			}
		}
	})
	// composite literal field (backgroundCmd{..., neg})
	for _, r := range ssax.Referrers(par) {
		if st, ok := r.(*ssa.Store); ok {
			if _, ok := st.Addr.(*ssa.FieldAddr); ok {
				hit = true
			}
		}
	}
	return hit
}

// verdictSite describes one place where a command decides success/failure.
type verdictSite struct {
	fn      *ssa.Function
	name    string
	start   ssax.Point
	outcome func(v ssa.Value, nilness bool, success bool) ssax.Abs // interpretation of the outcome atoms
	neg     func(v ssa.Value) bool                                 // the polarity atom (param or field load)
	extra   func(v ssa.Value, nilness bool) ssax.Abs               // other fixed atoms
	perIter bool
}

func c01Commands(ctx *core.Ctx) {
	p := ctx.P
	ctx.Rule("V7", "negation discipline: with neg=true every built-in either ends in Fatalf on all paths (rejects '!') or lets neg influence a branch, a callee's branch or the stored background record (honours '!'); the set that honours '!' equals the set of synopses marked [!] in doc.go", 24)
	ctx.Rule("V8", "verdict implications at each place a command decides: (I1) neg and success => no normal continuation, only Fatalf; (I2) not neg and failure => likewise; (I3) not neg and success => a normal continuation exists; (I4) neg and failure => a normal continuation exists unless the script's context expired; the end-of-script wait (checkStatus=false) never reaches Fatalf", 20)
	ctx.Rule("V11", "Fatalf scope: every call made by run, its deferred calls and RunT's closures that may raise the sentinel (reach Fatalf/Check under the constant arguments of the call) targets a function that installs a catch frame; anything else raises a raw panic that no one converts into a test failure", 6)
	ctx.Rule("V12", "arity agreement: for every argument count the doc.go synopsis of a command allows, the command's usage guard must not reject the line on every path (a documented line reported as failed is a false FAIL); undocumented accepted counts are reported as information", 20)
	ctx.Rule("V14", "no line can crash the interpreter: every index/slice expression, type assertion, division and explicit panic in runLine, the built-ins and their helpers is proved unable to fire from the usage guards that dominate it", 1)

	cmds := builtinCmds(p)
	doc := docSynopses(p)
	if len(cmds) < 20 || len(doc) < 20 {
		ctx.Unknown("V7", "testscript#command-table", token.NoPos, "command table (%d entries) or doc synopses (%d) not recognised", len(cmds), len(doc))
		return
	}
	var names []string
	for n := range cmds {
		names = append(names, n)
	}
	sort.Strings(names)
	_ = func(i ssa.Instruction) bool { return ssax.IsCallTo(i, tsFatalf) }

	// ---- V7
	honours := map[string]bool{}
	for _, n := range names {
		f := cmds[n]
		ctx.Seen(f)
		g := graph(p, f)
		negP := f.Params[1]
		ex := &ssax.Explorer{G: g, Assume: func(v ssa.Value, nilness bool) ssax.Abs {
			if v == ssa.Value(negP) && !nilness {
				return ssax.True
			}
			return ssax.Unknown
		}}
		rejects := true
		for _, e := range ex.Run(ssax.Point{Block: 0}) {
			if e.Kind == ssax.ExitReturn {
				rejects = false
			}
		}
		if rejects && !ex.Overflow {
			ctx.OK("V7", "testscript.cmd:"+n, f.Pos(), "'! %s' ends in Fatalf (or another no-return call) on every path: the prefix is rejected", n)
			continue
		}
		if influences(p, f, 1, 0) {
			honours[n] = true
			ctx.OK("V7", "testscript.cmd:"+n, f.Pos(), "'! %s' is honoured: neg reaches a verdict branch", n)
		} else {
			ctx.Bad("V7", "testscript.cmd:"+n, f.Pos(), "'! %s' is neither rejected nor consulted: a negated line behaves exactly like the plain one, so a command that was required to fail passes when it succeeds", n)
		}
	}
	var docNeg, codeNeg []string
	for n, s := range doc {
		if s.Neg {
			docNeg = append(docNeg, n)
		}
	}
	for n := range honours {
		codeNeg = append(codeNeg, n)
	}
	sort.Strings(docNeg)
	sort.Strings(codeNeg)
	ctx.Check(strings.Join(docNeg, ",") == strings.Join(codeNeg, ","), "V7", "testscript#doc-negation-set", token.NoPos, "doc.go marks %v with [!]; the code honours '!' for %v", docNeg, codeNeg)
	for _, n := range names {
		if _, ok := doc[n]; !ok {
			ctx.Note("V7", "testscript.cmd:"+n+"#undocumented", cmds[n].Pos(), "built-in %q has no synopsis in doc.go", n)
		}
	}

	// ---- V8
	c01Verdicts(ctx, cmds)
	// ---- V15
	c01Wiring(ctx, cmds)
	// ---- V16: a condition's answer depends on the script's own state only through the cache key
	ctx.Rule("V16", "condition caching: the process-wide cache behind [exec:prog] is keyed on every TestScript field its computation reads (C04.I8): otherwise a guard is answered with another script's or an earlier environment's result and the line is wrongly skipped or run", 1)
	cacheKeyRule(ctx, "V16")
	// ---- V18: the background specifier pattern, evaluated as a constant
	ctx.Rule("V18", "the pattern that decides whether exec's last argument is a background specifier is anchored: evaluated as a constant it accepts \"&\" and \"&name&\" and nothing else; an argument that merely ends in '&' (a URL query, a shell snippet) must stay an argument, or the command runs in the background and its exit status is never demanded", 1)
	{
		pat := ""
		if init := p.Pkg("testscript").Func("init"); init != nil {
			// the pattern whose compiled value is consulted by the exec command
			cands := map[*ssa.Global]string{}
			graph(p, init).Instrs(func(i ssa.Instruction) {
				st, ok := i.(*ssa.Store)
				if !ok {
					return
				}
				gl, isG := st.Addr.(*ssa.Global)
				c, isC := st.Val.(*ssa.Call)
				if isG && isC && ssax.CalleeName(&c.Call) == "regexp.MustCompile" {
					if s, ok := ssax.ConstString(c.Call.Args[0]); ok {
						cands[gl] = s
					}
				}
			})
			if ex := p.Func("testscript", "(*TestScript).cmdExec"); ex != nil {
				graph(p, ex).Instrs(func(i ssa.Instruction) {
					if c, ok := i.(*ssa.Call); ok && strings.HasPrefix(ssax.CalleeName(&c.Call), "(*regexp.Regexp).Match") {
						if u, ok := c.Call.Args[0].(*ssa.UnOp); ok {
							if gl, ok := u.X.(*ssa.Global); ok && cands[gl] != "" {
								pat = cands[gl]
							}
						}
					}
				})
			}
		}
		if pat == "" {
			ctx.Unknown("V18", "testscript#background-specifier", token.NoPos, "no constant pattern consulted by the exec command was found")
		} else if re, err := regexp.Compile(pat); err != nil {
			ctx.Bad("V18", "testscript#background-specifier", token.NoPos, "pattern does not compile: %v", err)
		} else {
			bad := ""
			for _, s := range []string{"&", "&srv&", "&a_1&"} {
				if !re.MatchString(s) {
					bad = "specifier " + strconv.Quote(s) + " not recognised"
				}
			}
			for _, s := range []string{"x&", "http://h/?a=1&", "a=1&b&", "&&", "&a&b", "& ", "", "a", "&a b&"} {
				if re.MatchString(s) {
					bad = "argument " + strconv.Quote(s) + " is taken for a background specifier"
				}
			}
			ctx.Check(bad == "", "V18", "testscript#background-specifier", token.NoPos, "the constant pattern %q accepts exactly the documented specifier forms %s", pat, bad)
		}
	}
	// ---- V19: a command that walks over its operands looks at every one of them
	ctx.Rule("V19", "all operands count: in every built-in a loop over the argument list (or a re-slice of it) is left only when the list is exhausted or through Fatalf; a return or break inside it makes the verdict depend on the first operands only ('! exists absent present' would pass)", 3)
	{
		n := 0
		var names []string
		for name := range cmds {
			names = append(names, name)
		}
		sort.Strings(names)
		for _, name := range names {
			f := cmds[name]
			if f == nil || len(f.Params) < 3 {
				continue
			}
			g := graph(p, f)
			args := f.Params[2]
			for k, l := range elementLoops(g, isVal(args)) {
				n++
				ux := uncountedExits(g, l)
				where := ""
				if len(ux) > 0 {
					where = "left early through b" + itoa(ux[0][0])
				}
				ctx.Check(len(ux) == 0, "V19", "testscript.cmd:"+name+"#operand-loop"+itoa(k+1), f.Blocks[l.Header].Instrs[0].Pos(), "the loop over the operands runs to the end of the list %s", where)
			}
		}
		if n == 0 {
			ctx.Bad("V19", "testscript#operand-loops", token.NoPos, "no built-in iterates over its operands")
		}
	}
	// ---- V20-V22: the state the next line sees (round 5)
	ctx.Rule("V20", "stdin is consumed by one exec: every return of the foreground exec reached after the attempt to start the command passes the store that clears TestScript.stdin; a start failure that returns early leaves the text for the next exec and changes that line's verdict", 1)
	ctx.Rule("V21", "relative paths resolve against the current directory: in Chdir and MkAbs the non-absolute operand is joined to TestScript.cd (not to the work directory root)", 2)
	ctx.Rule("V22", "archive entries replace earlier ones: writeFile opens with O_WRONLY|O_CREATE|O_TRUNC whatever the exclusive flag, adding O_EXCL exactly when it is set", 1)
	if ex := p.Func("testscript", "(*TestScript).exec"); ex != nil {
		g := graph(p, ex)
		n := 0
		// the point at which the command was started (or failed to start) with the script's stdin text
		var handed ssa.Instruction
		g.Instrs(func(i ssa.Instruction) {
			if handed != nil {
				return
			}
			if c, ok := i.(*ssa.Call); ok && ssax.CalleeName(&c.Call) == "(*os/exec.Cmd).Start" {
				handed = c
			}
		})
		clears := func(i ssa.Instruction) bool {
			st, ok := i.(*ssa.Store)
			return ok && isFieldAddrOf("stdin")(st.Addr) && isConstStr("")(st.Val)
		}
		if handed != nil {
			for _, r := range g.Returns() {
				if !g.Dominates(handed, r) {
					continue
				}
				n++
				hit, _ := g.ReachableWithout(ssax.PointAfter(handed), func(i ssa.Instruction) bool { return i == ssa.Instruction(r) }, clears)
				ctx.Check(hit == nil, "V20", "testscript.exec#stdin-cleared"+itoa(n), r.Pos(), "this return of exec, reached after the attempt to start the command, lies behind the store that clears TestScript.stdin")
			}
		}
		if n == 0 {
			ctx.Note("V20", "testscript.exec#stdin-cleared", ex.Pos(), "exec does not start a command; clause not decided")
		}
	}
	for _, nm := range []string{"Chdir", "MkAbs"} {
		f := p.Func("testscript", "(*TestScript)."+nm)
		if f == nil || len(f.Params) < 2 {
			continue
		}
		g := graph(p, f)
		n := 0
		for _, j := range g.Calls("path/filepath.Join") {
			el := variadicElems(j.Call.Args[0])
			if len(el) != 2 || el[1] != ssa.Value(f.Params[1]) {
				continue
			}
			n++
			ctx.Check(isFieldLoad("cd")(el[0]), "V21", "testscript."+nm+"#base"+itoa(n), j.Pos(), "the relative operand is joined to TestScript.cd")
		}
		if n == 0 {
			ctx.Note("V21", "testscript."+nm+"#base", f.Pos(), "no filepath.Join(base, operand) found; clause not decided")
		}
	}
	if wf := p.Func("testscript", "writeFile"); wf != nil && len(wf.Params) == 4 {
		g := graph(p, wf)
		n := 0
		for _, o := range g.Calls("os.OpenFile") {
			n++
			base := osFlag(p, "O_WRONLY") | osFlag(p, "O_CREATE") | osFlag(p, "O_TRUNC")
			vals, okV := ssax.PossibleInts(o.Call.Args[1])
			ok := okV && len(vals) > 0
			for _, v := range vals {
				if v != base && v != base|osFlag(p, "O_EXCL") {
					ok = false
				}
			}
			ctx.Check(ok, "V22", "testscript.writeFile#flags"+itoa(n), o.Pos(), "open flags are O_WRONLY|O_CREATE|O_TRUNC, plus O_EXCL exactly when exclusive creation is asked for")
		}
	}
	// ---- V23-V25 (round 6): what "exec prog" finds, what symlink and cp create
	ctx.Rule("V23", "a directory is not a program: in the PATH search (execpath.findExecutable, unix) nil is returned only for a file whose mode is known not to be a directory and to have an execute bit; a directory named like the program earlier on PATH otherwise satisfies [exec:prog] and makes '! exec prog' pass on 'permission denied'", 1)
	ctx.Rule("V24", "symlink's target is taken as written: the first operand of os.Symlink in the symlink command is the script argument itself (relative targets are relative to the link's directory), the link name goes through MkAbs", 1)
	ctx.Rule("V25", "cp keeps the permission bits: the mode given to the copy of a file is the source's mode masked with 0o777 exactly", 1)
	if fe := p.Func("internal/os/execpath", "findExecutable"); fe != nil {
		g := graph(p, fe)
		if len(g.Calls("os.Stat")) > 0 {
			n := 0
			for _, r := range g.Returns() {
				if !ssax.IsNil(ssax.ReturnValues(r)[0]) {
					continue
				}
				n++
				facts := g.FactsAtInstr(r)
				notDir := hasFact(facts, false, func(v ssa.Value) bool {
					c, ok := v.(*ssa.Call)
					return ok && strings.HasSuffix(ssax.CalleeName(&c.Call), "FileMode).IsDir")
				}) || hasFact(facts, true, func(v ssa.Value) bool {
					c, ok := v.(*ssa.Call)
					return ok && strings.HasSuffix(ssax.CalleeName(&c.Call), "FileMode).IsRegular")
				})
				ctx.Check(notDir, "V23", "execpath.findExecutable#ok-return"+itoa(n), r.Pos(), "success is returned only for something known not to be a directory")
			}
			if n == 0 {
				ctx.Unknown("V23", "execpath.findExecutable#ok-return", fe.Pos(), "findExecutable never returns nil")
			}
		} else {
			ctx.Note("V23", "execpath.findExecutable", fe.Pos(), "this platform's findExecutable does not use os.Stat; clause decided on the unix configurations")
		}
	} else {
		ctx.Note("V23", "execpath.findExecutable", token.NoPos, "no findExecutable in this configuration")
	}
	if sl := cmds["symlink"]; sl != nil && len(sl.Params) >= 3 {
		g := graph(p, sl)
		n := 0
		for _, c := range g.Calls("os.Symlink") {
			n++
			raw := isElemLoad(sl.Params[2], isConstIntV(2))(ssax.Strip(c.Call.Args[0]))
			abs := false
			if mc, ok := c.Call.Args[1].(*ssa.Call); ok && strings.HasSuffix(ssax.CalleeName(&mc.Call), "TestScript).MkAbs") {
				abs = isElemLoad(sl.Params[2], isConstIntV(0))(ssax.Strip(mc.Call.Args[1]))
			}
			ctx.Check(raw && abs, "V24", "testscript.cmd:symlink#operands"+itoa(n), c.Pos(), "os.Symlink(target as written (%v), MkAbs(link name) (%v))", raw, abs)
		}
		if n == 0 {
			ctx.Unknown("V24", "testscript.cmd:symlink#operands", sl.Pos(), "the symlink command does not call os.Symlink")
		}
	}
	if cp := cmds["cp"]; cp != nil {
		g := graph(p, cp)
		n := 0
		g.Instrs(func(i ssa.Instruction) {
			b, ok := i.(*ssa.BinOp)
			if !ok || b.Op != token.AND {
				return
			}
			mc, isC := b.X.(*ssa.Call)
			if !isC || !mc.Call.IsInvoke() || mc.Call.Method.Name() != "Mode" {
				return
			}
			n++
			k, isK := ssax.ConstInt(b.Y)
			ctx.Check(isK && k == 0o777, "V25", "testscript.cmd:cp#mode-mask"+itoa(n), b.Pos(), "the source's mode is masked with 0o777")
		})
		if n == 0 {
			ctx.Note("V25", "testscript.cmd:cp#mode-mask", cp.Pos(), "cp does not mask the source's mode; clause not decided")
		}
	}
	// ---- V17: skip checks the status of background commands first
	ctx.Rule("V17", "skip settles background commands like wait does: on the way to T.Skip the background commands are waited for with their exit status checked (waitBackground(true), directly or through the wait command)", 1)
	if sk := cmds["skip"]; sk != nil {
		g := graph(p, sk)
		checked := false
		g.Instrs(func(i ssa.Instruction) {
			c, ok := i.(*ssa.Call)
			if !ok {
				return
			}
			n := ssax.CalleeName(&c.Call)
			if strings.HasSuffix(n, "TestScript).waitBackground") {
				if k, ok := ssax.ConstBool(c.Call.Args[1]); ok && k {
					checked = true
				}
			}
			if strings.HasSuffix(n, "TestScript).cmdWait") {
				if k, ok := ssax.ConstBool(c.Call.Args[1]); ok && !k && ssax.IsNil(c.Call.Args[2]) {
					checked = true // wait with no arguments and no negation = waitBackground(true), see V8
				}
			}
		})
		ctx.Check(checked, "V17", "testscript.cmdSkip#status-checked", sk.Pos(), "skip waits for background commands with their status checked: a background command that ended the wrong way must fail the script, not be hidden by the skip")
	}

	// ---- V11
	c01FatalScope(ctx)

	// ---- V12
	for _, n := range names {
		s, ok := doc[n]
		if !ok {
			continue
		}
		f := cmds[n]
		g := graph(p, f)
		argsP := f.Params[2]
		negP := f.Params[1]
		for k := 0; k <= 4; k++ {
			lenEval := func(v ssa.Value) (int64, bool) {
				c, ok := v.(*ssa.Call)
				if !ok {
					return 0, false
				}
				b, ok := c.Call.Value.(*ssa.Builtin)
				if ok && b.Name() == "len" && c.Call.Args[0] == ssa.Value(argsP) {
					return int64(k), true
				}
				return 0, false
			}
			ex := &ssax.Explorer{G: g, Assume: func(v ssa.Value, nilness bool) ssax.Abs {
				if nilness {
					return ssax.Unknown
				}
				if v == ssa.Value(negP) {
					return ssax.False
				}
				if b, ok := v.(*ssa.BinOp); ok {
					l, okl := lenEval(b.X)
					r, okr := ssax.ConstInt(b.Y)
					if okl && okr {
						switch b.Op {
						case token.EQL:
							return ssax.AbsOf(l == r)
						case token.NEQ:
							return ssax.AbsOf(l != r)
						case token.LSS:
							return ssax.AbsOf(l < r)
						case token.LEQ:
							return ssax.AbsOf(l <= r)
						case token.GTR:
							return ssax.AbsOf(l > r)
						case token.GEQ:
							return ssax.AbsOf(l >= r)
						}
					}
				}
				return ssax.Unknown
			}}
			// stop exploring at the first call that is not a usage Fatalf: we only ask
			// whether some path survives the usage guards
			survives := false
			usage := 0
			ex.Visit = func(i ssa.Instruction) ssax.Action {
				c, ok := i.(*ssa.Call)
				if !ok {
					return ssax.Continue
				}
				if ssax.CalleeName(&c.Call) == tsFatalf {
					if f, ok := ssax.ConstString(c.Call.Args[1]); ok && strings.HasPrefix(f, "usage:") {
						usage++
						return ssax.Stop
					}
				}
				return ssax.Continue
			}
			for _, e := range ex.Run(ssax.Point{Block: 0}) {
				_ = e
				survives = true
			}
			key := fmt.Sprintf("testscript.cmd:%s#args=%d", n, k)
			switch {
			case s.allows(k) && !survives && usage > 0:
				ctx.Bad("V12", key, f.Pos(), "doc.go documents %q, which allows %d argument(s), but with %d argument(s) every path of %s ends in its usage failure: a documented line is reported as FAIL", s.Text, k, k, n)
			case s.allows(k):
				ctx.OK("V12", key, f.Pos(), "%d argument(s) allowed by %q and accepted by the usage guard", k, s.Text)
			case survives && !s.allows(k):
				ctx.Note("V12", key, f.Pos(), "%d argument(s) accepted although %q does not document it", k, s.Text)
			}
		}
	}

	// ---- V14
	// runLine itself keeps 'args' in memory (a closure captures it); go/ssa does not lift such
	// variables and the bounds engine has no memory-SSA, so runLine's own index expressions are
	// not claimed here. The commands receive args as a plain parameter.
	var entries []*ssa.Function
	for _, n := range names {
		entries = append(entries, cmds[n])
	}
	if f := p.Func("gotooltest", "cmdGo"); f != nil {
		entries = append(entries, f)
	}
	stopAt := map[string]bool{}
	for _, n := range []string{"parse", "expand", "exec", "execBackground", "buildExecCmd", "abbrev", "Logf", "logStd", "clearBuiltinStd", "setBuiltinStd"} {
		stopAt["(*"+tsPkg+".TestScript)."+n] = true
	}
	stopAt[tsPkg+".waitOrStop"] = true // C17.DL2 examines it
	totality(ctx, entries, totalOpts{rule: "V14",
		stop: func(f *ssa.Function) bool {
			n := ssax.FuncName(f)
			if stopAt[n] {
				return true
			}
			top := f
			for top.Parent() != nil {
				top = top.Parent()
			}
			if top.Pkg == nil {
				return true
			}
			pp := top.Pkg.Pkg.Path()
			return pp != tsPkg && pp != core.ModPath+"/gotooltest" && pp != core.ModPath+"/internal/misspell"
		},
		allowPanic: func(pn *ssa.Panic) string {
			// re-panic of a recovered value, or Fatalf's own sentinel panic
			if c, ok := pn.X.(*ssa.Call); ok && ssax.CalleeName(&c.Call) == "builtin.recover" {
				return "re-panic of a recovered value"
			}
			if isGlobalLoad("failNow")(pn.X) {
				return "the sentinel panic of Fatalf (caught by runLine)"
			}
			if s, ok := ssax.ConstString(ssax.Strip(pn.X)); ok && s == "unreachable" {
				return "after a no-return call"
			}
			if !pn.Pos().IsValid() {
				return "compiler-synthesised arm of a blocking select (cannot execute)"
			}
			return ""
		},
		assertOK: func(ta *ssa.TypeAssert) string {
			// cmd.Stdout/Stderr of a background command: only *strings.Builder is ever stored there
			if isFieldLoad("Stdout")(ta.X) || isFieldLoad("Stderr")(ta.X) {
				if backgroundStdTypesOK(p) {
					return "every store to Stdout/Stderr of an exec.Cmd in package testscript stores a *strings.Builder"
				}
			}
			if c, ok := ta.X.(*ssa.Call); ok && strings.HasSuffix(ssax.CalleeName(&c.Call), "par.Cache).Do") {
				if ok, _ := doResultTypeOK(p, c); ok {
					return "the cache callback returns exactly the asserted type (C10.K7)"
				}
			}
			return ""
		},
		assume: func(fn *ssa.Function, s boundx.Site) string {
			// bg.cmd.Args[0], bg.cmd.Args[1:]: Args of a command built by exec.Command
			var seq ssa.Value
			switch x := s.Instr.(type) {
			case *ssa.IndexAddr:
				seq = x.X
			case *ssa.Slice:
				seq = x.X
			}
			if seq != nil && isFieldLoad("Args")(seq) && backgroundCmdsFromExecCommand(p) {
				return "exec.Command always sets Cmd.Args to at least the program name, and every *exec.Cmd stored in TestScript.background was created by exec.Command (buildExecCmd is the only constructor)"
			}
			// kv[:strings.Index(kv, "=")] for kv ranging over ts.env
			if sl, ok := s.Instr.(*ssa.Slice); ok && fn.Name() == "cmdEnv" {
				if c, ok := sl.High.(*ssa.Call); ok && ssax.CalleeName(&c.Call) == "strings.Index" && isConstStr("=")(c.Call.Args[1]) {
					if envEntriesWellFormed(p) {
						return "every entry of TestScript.env contains '=': all writers inside the module append KEY=VALUE (setup's literals, Env.Setenv, TestScript.Setenv); only a user Setup that appends a malformed string to Env.Vars could break it, and Setup is outside the property's quantifier"
					}
				}
			}
			return ""
		},
	})
}

// backgroundStdTypesOK: all stores to exec.Cmd.Stdout/Stderr in testscript store *strings.Builder.
func backgroundStdTypesOK(p *core.Prog) bool {
	ok := true
	n := 0
	for _, f := range p.ModFuncs() {
		top := f
		for top.Parent() != nil {
			top = top.Parent()
		}
		if top.Pkg != p.Pkg("testscript") {
			continue
		}
		graph(p, f).Instrs(func(i ssa.Instruction) {
			st, isSt := i.(*ssa.Store)
			if !isSt {
				return
			}
			fa, isFA := st.Addr.(*ssa.FieldAddr)
			if !isFA || !isNamed(fa.X.Type(), "os/exec", "Cmd") {
				return
			}
			nm := ssax.FieldOf(fa).Name()
			if nm != "Stdout" && nm != "Stderr" {
				return
			}
			n++
			mi, isMI := st.Val.(*ssa.MakeInterface)
			if !isMI || mi.X.Type().String() != "*strings.Builder" {
				ok = false
			}
		})
	}
	return ok && n >= 4
}

// envEntriesWellFormed: every append to TestScript.env / Env.Vars inside the
// module appends a string built as key + "=" + value.
func envEntriesWellFormed(p *core.Prog) bool {
	ok := true
	hasEq := func(v ssa.Value) bool {
		return ssax.DerivedFrom(v, func(x ssa.Value) bool {
			s, isS := ssax.ConstString(x)
			return isS && strings.Contains(s, "=")
		}, nil)
	}
	for _, f := range p.ModFuncs() {
		top := f
		for top.Parent() != nil {
			top = top.Parent()
		}
		if top.Pkg != p.Pkg("testscript") {
			continue
		}
		graph(p, f).Instrs(func(i ssa.Instruction) {
			st, isSt := i.(*ssa.Store)
			if !isSt {
				return
			}
			fa, isFA := st.Addr.(*ssa.FieldAddr)
			if !isFA {
				return
			}
			nm := ssax.FieldOf(fa).Name()
			if !(nm == "env" && isNamed(fa.X.Type(), tsPkg, "TestScript")) && !(nm == "Vars" && isNamed(fa.X.Type(), tsPkg, "Env")) {
				return
			}
			c, isC := st.Val.(*ssa.Call)
			if !isC || ssax.CalleeName(&c.Call) != "builtin.append" {
				// ts.env = env.Vars (copy) or a literal
				if isFieldLoad("Vars")(st.Val) {
					return
				}
				if sl, isSl := st.Val.(*ssa.Slice); isSl {
					for _, e := range variadicElems(sl) {
						if !hasEq(e) {
							ok = false
						}
					}
					return
				}
				ok = false
				return
			}
			for _, e := range variadicElems(c.Call.Args[1]) {
				if !hasEq(e) {
					ok = false
				}
			}
		})
	}
	return ok
}

var _ = ast.Inspect

// backgroundCmdsFromExecCommand: the only *exec.Cmd values constructed in package
// testscript come from exec.Command (no &exec.Cmd{} literals).
func backgroundCmdsFromExecCommand(p *core.Prog) bool {
	ok := true
	n := 0
	for _, f := range p.ModFuncs() {
		top := f
		for top.Parent() != nil {
			top = top.Parent()
		}
		if top.Pkg != p.Pkg("testscript") {
			continue
		}
		graph(p, f).Instrs(func(i ssa.Instruction) {
			if al, isAl := i.(*ssa.Alloc); isAl && isNamed(al.Type(), "os/exec", "Cmd") {
				ok = false
			}
			if c, isC := i.(*ssa.Call); isC && ssax.CalleeName(&c.Call) == "os/exec.Command" {
				n++
			}
		})
	}
	return ok && n > 0
}

// c01Wiring checks which script argument reaches which operand of the call
// that performs a command's effect (rule V15).
func c01Wiring(ctx *core.Ctx, cmds map[string]*ssa.Function) {
	p := ctx.P
	ctx.Rule("V15", "operand wiring: for each built-in, the script arguments reach the operands of the effecting call in the documented order (mv old new -> Rename(old, new); cp src... dst; symlink file -> target => Symlink(target, file); cmp file1 file2; grep pattern file; chmod perm path...; stdin file; cd dir), each path operand through MkAbs where the doc says the script's directory applies", 12)
	type want struct {
		cmd    string
		callee string // suffix of the callee name
		opIdx  int    // operand index of the call (receiver counted for methods)
		arg    int    // args[k]; -1 = an element of a range over args; -2 = args[len-1]
		abs    bool   // must pass through MkAbs
	}
	table := []want{
		{"mv", "os.Rename", 0, 0, true}, {"mv", "os.Rename", 1, 1, true},
		{"symlink", "os.Symlink", 0, 2, false}, {"symlink", "os.Symlink", 1, 0, true},
		{"cd", "TestScript).Chdir", 1, 0, false},
		{"mkdir", "os.MkdirAll", 0, -1, true},
		{"rm", "os.RemoveAll", 0, -1, true},
		{"exists", "os.Stat", 0, -1, true},
		{"stdin", "TestScript).ReadFile", 1, 0, false},
		{"chmod", "strconv.ParseUint", 0, 0, false},
		{"chmod", "os.Chmod", 0, -1, false},
		{"cp", "os.WriteFile", 0, -2, true},
		{"unquote", "os.ReadFile", 0, -1, true},
		{"unix2dos", "os.ReadFile", 0, -1, true},
	}
	argLoad := func(f *ssa.Function, k int) func(ssa.Value) bool {
		argsP := f.Params[2]
		return func(v ssa.Value) bool {
			u, ok := v.(*ssa.UnOp)
			if !ok || u.Op != token.MUL {
				return false
			}
			ia, ok := u.X.(*ssa.IndexAddr)
			if !ok {
				return false
			}
			base := ia.X
			// args may have been re-sliced (args[1:]) for range loops
			switch k {
			case -1:
				_, isConst := ssax.ConstInt(ia.Index)
				return !isConst && ssax.DerivedFrom(base, isVal(argsP), nil)
			case -2:
				return base == ssa.Value(argsP) && isLenMinus(argsP, 1)(ia.Index)
			default:
				c, isConst := ssax.ConstInt(ia.Index)
				return isConst && int(c) == k && base == ssa.Value(argsP)
			}
		}
	}
	isMkAbs := func(c *ssa.Call) bool { return strings.HasSuffix(ssax.CalleeName(&c.Call), "TestScript).MkAbs") }
	for _, w := range table {
		f := cmds[w.cmd]
		if f == nil {
			ctx.Unknown("V15", "testscript.cmd:"+w.cmd, token.NoPos, "built-in %q not found", w.cmd)
			continue
		}
		g := graph(p, f)
		var calls []*ssa.Call
		g.Instrs(func(i ssa.Instruction) {
			if c, ok := i.(*ssa.Call); ok && strings.HasSuffix(ssax.CalleeName(&c.Call), w.callee) {
				calls = append(calls, c)
			}
		})
		key := fmt.Sprintf("testscript.cmd:%s#%s[%d]", w.cmd, w.callee[strings.LastIndex(w.callee, ".")+1:], w.opIdx)
		if len(calls) == 0 {
			ctx.Bad("V15", key, f.Pos(), "%s no longer calls %s", w.cmd, w.callee)
			continue
		}
		ok := false
		for _, c := range calls {
			if w.opIdx >= len(c.Call.Args) {
				continue
			}
			op := c.Call.Args[w.opIdx]
			sawAbs := false
			from := ssax.DerivedFrom(op, argLoad(f, w.arg), func(cc *ssa.Call) bool {
				if isMkAbs(cc) {
					sawAbs = true
					return true
				}
				n := ssax.CalleeName(&cc.Call)
				return strings.HasPrefix(n, "path/filepath.") || n == "builtin.append"
			})
			// the other script arguments must not reach this operand
			if from && (!w.abs || sawAbs) {
				ok = true
				for other := 0; other <= 2; other++ {
					if other == w.arg || w.arg < 0 {
						continue
					}
					if ssax.DerivedFrom(op, argLoad(f, other), func(cc *ssa.Call) bool { return true }) {
						ok = false
					}
				}
			}
		}
		what := map[int]string{-1: "each listed argument", -2: "the last argument"}[w.arg]
		if what == "" {
			what = fmt.Sprintf("argument %d", w.arg+1)
		}
		ctx.Check(ok, "V15", key, calls[0].Pos(), "%s: operand %d of %s is %s%s", w.cmd, w.opIdx, w.callee, what, map[bool]string{true: " made absolute against the script's directory", false: ""}[w.abs])
	}
	// cmp/cmpenv: first text from ReadFile(args[0]) (stdout/stderr aware), second from os.ReadFile(MkAbs(args[1]))
	if f := p.Func("testscript", "(*TestScript).doCmdCmp"); f != nil {
		g := graph(p, f)
		argsP := f.Params[2]
		el := func(k int64) func(ssa.Value) bool { return isElemLoad(argsP, isConstIntV(k)) }
		ok1, ok2 := false, false
		for _, c := range g.Calls("(*" + tsPkg + ".TestScript).ReadFile") {
			ok1 = ssax.DerivedFrom(c.Call.Args[1], el(0), nil) && !ssax.DerivedFrom(c.Call.Args[1], el(1), nil)
		}
		for _, c := range g.Calls("os.ReadFile") {
			ok2 = ssax.DerivedFrom(c.Call.Args[0], el(1), func(cc *ssa.Call) bool { return isMkAbs(cc) }) && !ssax.DerivedFrom(c.Call.Args[0], el(0), func(cc *ssa.Call) bool { return true })
		}
		ctx.Check(ok1 && ok2, "V15", "testscript.doCmdCmp#operands", f.Pos(), "cmp reads the actual text from its first argument (stdout/stderr aware) and the expected text from its second")
	}
	// grep: pattern args[0], file args[1]; stdout/stderr: pattern args[0], text = ts.stdout/ts.stderr
	if f := p.Func("testscript", "scriptMatch"); f != nil {
		g := graph(p, f)
		okPat, okFile := false, false
		for _, c := range g.Calls("regexp.Compile") {
			okPat = ssax.DerivedFrom(c.Call.Args[0], func(v ssa.Value) bool {
				u, ok := v.(*ssa.UnOp)
				if !ok {
					return false
				}
				ia, ok := u.X.(*ssa.IndexAddr)
				return ok && isConstIntV(0)(ia.Index)
			}, nil)
		}
		for _, c := range g.Calls("os.ReadFile") {
			okFile = ssax.DerivedFrom(c.Call.Args[0], func(v ssa.Value) bool {
				u, ok := v.(*ssa.UnOp)
				if !ok {
					return false
				}
				ia, ok := u.X.(*ssa.IndexAddr)
				return ok && isConstIntV(1)(ia.Index)
			}, func(cc *ssa.Call) bool { return isMkAbs(cc) })
		}
		ctx.Check(okPat && okFile, "V15", "testscript.scriptMatch#operands", f.Pos(), "the pattern is the first argument (after -count) and grep's file the second")
	}
	for _, w := range []struct{ cmd, field string }{{"stdout", "stdout"}, {"stderr", "stderr"}, {"ttyout", "ttyout"}} {
		f := cmds[w.cmd]
		if f == nil {
			continue
		}
		ok := false
		for _, c := range graph(p, f).Calls(tsPkg + ".scriptMatch") {
			ok = isFieldLoad(w.field)(c.Call.Args[3]) && isConstStr(w.cmd)(c.Call.Args[4])
		}
		ctx.Check(ok, "V15", "testscript.cmd:"+w.cmd+"#stream", f.Pos(), "%s matches against TestScript.%s", w.cmd, w.field)
	}
}
