package rules

import (
	"go/token"
	"strings"

	"golang.org/x/tools/go/ssa"

	"verif/checker/core"
	"verif/checker/ssax"
)

// Rules added after the fifth seeding round for the cache properties (C05, C11, C12, C13).

// putAlwaysCopies: a Put that reports success has gone through the data-file copy (which
// re-checks or rewrites the stored output) and the index write - there is no shortcut on
// "the index already says so".
func putAlwaysCopies(ctx *core.Ctx, rule string) {
	p := ctx.P
	ctx.Rule(rule, "no shortcut in put: every return of put with a nil (or forwarded index-write) error lies behind the call of the data-file copy with its error found nil; an early return on 'the index already maps this id to this output' leaves a damaged or trimmed output file unrepaired while reporting success", 1)
	put := ctx.Need(rule, "cache", "(*Cache).put")
	if put == nil {
		return
	}
	g := graph(p, put)
	cf := g.Calls("(*" + cachePkg + ".Cache).copyFile")
	n := 0
	for _, r := range g.Returns() {
		rv := ssax.ReturnValues(r)
		ev := rv[len(rv)-1]
		// returns that hand back the error of an earlier failing step are not success returns
		if !ssax.IsNil(ev) {
			if c, ok := ssax.Strip(ev).(*ssa.Call); !ok || !strings.HasSuffix(ssax.CalleeName(&c.Call), ".putIndexEntry") {
				if ssax.KnownNil(g.FactsAtInstr(r), ev, false) {
					continue
				}
				if _, isPhi := ev.(*ssa.Phi); !isPhi {
					continue
				}
			}
		}
		n++
		ok := false
		for _, c := range cf {
			if g.Dominates(c, r) && ssax.KnownNil(g.FactsAtInstr(r), c, true) {
				ok = true
			}
		}
		ctx.Check(ok, rule, "cache.put#success-after-copy"+itoa(n), r.Pos(), "this successful return of put is reached only after copyFile returned nil")
	}
	if n == 0 {
		ctx.Unknown(rule, "cache.put#success-after-copy", put.Pos(), "no successful return found in put")
	}
}

// cacheReaders: the lookup entry points.
func cacheReaders(p *core.Prog) []*ssa.Function {
	var out []*ssa.Function
	for _, n := range []string{"(*Cache).Get", "(*Cache).get", "(*Cache).GetFile", "(*Cache).GetBytes", "(*Cache).OutputFile"} {
		if f := p.Func("cache", n); f != nil {
			out = append(out, f)
		}
	}
	return out
}

// lookupsShareNothing: concurrent lookups through one *Cache do not write to memory owned by it.
func lookupsShareNothing(ctx *core.Ctx, rule string) {
	p := ctx.P
	ctx.Rule(rule, "lookups share nothing they write: in the functions reachable from Get, GetFile and GetBytes the address of a field of the *Cache receiver is only ever loaded from - never stored to, sliced or handed to a call (a scratch buffer kept in the Cache is overwritten by the lookup next door)", 1)
	n := 0
	for _, f := range reachableMod(p, cacheReaders(p), nil) {
		if f.Signature.Recv() == nil || len(f.Params) == 0 || !isNamed(f.Params[0].Type(), cachePkg, "Cache") {
			continue
		}
		recv := f.Params[0]
		for _, r := range ssax.Referrers(recv) {
			fa, ok := r.(*ssa.FieldAddr)
			if !ok {
				continue
			}
			n++
			bad := ""
			for _, q := range ssax.Referrers(fa) {
				switch x := q.(type) {
				case *ssa.UnOp:
					if x.Op != token.MUL {
						bad = "used by " + x.String()
					}
				case *ssa.DebugRef:
				default:
					bad = "used by " + q.String()
				}
			}
			fld := "?"
			if fv := ssax.FieldOf(fa); fv != nil {
				fld = fv.Name()
			}
			ctx.Check(bad == "", rule, shortFn(f)+"#field-"+fld+itoa(n), fa.Pos(), "Cache.%s is only read during a lookup %s", fld, bad)
		}
	}
	if n == 0 {
		ctx.Unknown(rule, "cache#lookup-fields", token.NoPos, "the lookup functions do not touch the receiver's fields")
	}
}

// lookupsReadOnly: a lookup changes nothing in the cache directory but access times.
func lookupsReadOnly(ctx *core.Ctx, rule string) {
	p := ctx.P
	ctx.Rule(rule, "lookups do not modify the cache: nothing reachable from Get, GetFile and GetBytes removes, renames, truncates, creates or opens for writing (a reader that 'heals' a file it finds damaged pulls it from under the writer that is filling it); refreshing access times is the one effect allowed", 1)
	wr := osFlag(p, "O_WRONLY") | osFlag(p, "O_RDWR") | osFlag(p, "O_CREATE") | osFlag(p, "O_TRUNC") | osFlag(p, "O_APPEND")
	n, bad := 0, 0
	for _, f := range reachableMod(p, cacheReaders(p), nil) {
		g := graph(p, f)
		n++
		for _, c := range g.Calls("os.Remove", "os.RemoveAll", "os.Rename", "os.Truncate", "(*os.File).Truncate", "os.WriteFile", "os.Create", "(*os.File).Write", "(*os.File).WriteAt", "(*os.File).WriteString", "os.Mkdir", "os.MkdirAll", "os.Link", "os.Symlink") {
			bad++
			ctx.Bad(rule, shortFn(f)+"#effect"+itoa(bad), c.Pos(), "%s on the lookup path", ssax.CalleeName(&c.Call))
		}
		for _, c := range g.Calls("os.OpenFile") {
			vals, ok := ssax.PossibleInts(c.Call.Args[1])
			writes := !ok
			for _, v := range vals {
				if v&wr != 0 {
					writes = true
				}
			}
			if writes {
				bad++
				ctx.Bad(rule, shortFn(f)+"#effect"+itoa(bad), c.Pos(), "a file is opened for writing on the lookup path")
			}
		}
	}
	if bad == 0 {
		ctx.OK(rule, "cache#lookups-read-only", token.NoPos, "%d functions reachable from the lookups; none removes, renames, truncates, creates or writes a file", n)
	}
}

// presentFileNotRewritten: an existing output file of the right size is opened for writing only
// after its bytes were re-hashed (or could not be read).
func presentFileNotRewritten(ctx *core.Ctx, rule string) {
	p := ctx.P
	ctx.Rule(rule, "a present output is checked before it is rewritten: in the data-file copy every path to the open-for-writing either found no file (Stat error), found one of a different size, or went through the open of the existing file for re-hashing; any further condition on taking the check (its age, say) lets a good, shared file be rewritten in place - and truncated when that rewrite fails", 1)
	cpf := ctx.Need(rule, "cache", "(*Cache).copyFile")
	if cpf == nil || len(cpf.Params) < 4 {
		return
	}
	g := graph(p, cpf)
	size := cpf.Params[3]
	stats := g.Calls("os.Stat")
	opens := g.Calls("os.OpenFile")
	if len(stats) != 1 || len(opens) != 1 {
		ctx.Unknown(rule, "cache.copyFile#present-check", cpf.Pos(), "expected one os.Stat and one os.OpenFile in the data-file copy, found %d and %d", len(stats), len(opens))
		return
	}
	serr := ssax.Extracted(stats[0], 1)
	isSizeCall := func(v ssa.Value) bool {
		c, ok := v.(*ssa.Call)
		return ok && c.Call.IsInvoke() && c.Call.Method.Name() == "Size"
	}
	stopEdge := func(pb, sb int, extra []ssax.Fact) bool {
		facts := append(g.EdgeFacts(pb, sb), extra...)
		for _, f := range facts {
			if f.NilOf != nil {
				if f.NilOf == serr && !f.IsNil {
					return true
				}
				continue
			}
			if x, eq, ok := ssax.NilCheck(f.Cond); ok && x == serr && eq != f.Val {
				return true // Stat failed: there is no file
			}
		}
		if cmpFact(facts, token.NEQ, isSizeCall, func(v ssa.Value) bool { return origin(v) == ssa.Value(size) }) {
			return true // a file of another size
		}
		return false
	}
	stopInstr := func(i ssa.Instruction) bool {
		c, ok := i.(*ssa.Call)
		return ok && ssax.CalleeName(&c.Call) == "os.Open"
	}
	target := func(i ssa.Instruction) bool { return i == ssa.Instruction(opens[0]) }
	_, reach := pathAvoiding(g, -1, stats[0].Block().Index, target, stopInstr, stopEdge)
	ctx.Check(!reach, rule, "cache.copyFile#present-check", opens[0].Pos(), "the open-for-writing is not reachable with an existing file of the expected size that was not opened for re-hashing")
}
