package rules

import (
	"go/constant"
	"go/types"
)

type constantValue = constant.Value

// constOf returns the int64 value of a constant object (0 if not one).
func constOf(obj types.Object) int64 {
	c, ok := obj.(*types.Const)
	if !ok {
		return 0
	}
	v, _ := constant.Int64Val(constant.ToInt(c.Val()))
	return v
}
