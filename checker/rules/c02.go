package rules

import (
	"fmt"
	"go/token"
	"go/types"
	"strings"

	"golang.org/x/tools/go/ssa"

	"verif/checker/core"
	"verif/checker/ssax"
)

func init() {
	Registry["C02"] = Spec{Run: runC02, Configs: notPlan9, MayFailToLoad: func(c core.Config, msg string) bool { return c.GOOS == "plan9" }}
}

func tsFuncs(p *core.Prog) []*ssa.Function {
	var out []*ssa.Function
	for _, f := range p.ModFuncs() {
		top := f
		for top.Parent() != nil {
			top = top.Parent()
		}
		if top.Pkg == p.Pkg("testscript") {
			out = append(out, f)
		}
	}
	return out
}

func isCallSuffix(v ssa.Value, suffix string) (*ssa.Call, bool) {
	c, ok := v.(*ssa.Call)
	if !ok {
		return nil, false
	}
	return c, strings.HasSuffix(ssax.CalleeName(&c.Call), suffix)
}

func runC02(ctx *core.Ctx) {
	c02Round6(ctx)
	ctx.Trusted = append(ctx.Trusted, "go/types, go/ssa", "os.Expand calls its mapping function once per reference and does not rescan the result; os/exec passes Cmd.Env to the child")
	p := ctx.P
	ctx.Rule("N13", "the lookup map is rebuilt from the whole list: each MapUpdate of envMap in setup takes its key and value from element i of TestScript.env, i counting from 0 to len", 1)
	ctx.Rule("N1", "environment list and map stay coherent: TestScript.env and TestScript.envMap are written only in setup (which rebuilds the map from the list) and in Setenv (which appends key=value to the list and stores the same value under envvarname(key) in the map); every index into envMap uses a key produced by envvarname", 5)
	ctx.Rule("N2", "children see the list: every Cmd.Start in package testscript is dominated by a store of Cmd.Env derived from TestScript.env and of Cmd.Dir derived from TestScript.cd on that command", 2)
	ctx.Rule("N3", "no re-expansion, no re-splitting: no argument of expand/os.Expand/parse derives from a result of expand; inside the tokenizer every expand operand is a sub-slice of the line parameter", 3)
	ctx.Rule("N4", "quote-state discipline in the tokenizer: every text chunk appended through expand is appended where 'quoted' is known false, every chunk appended raw where it is known true; running off the end of the line while quoted ends in Fatalf", 4)
	ctx.Rule("N5", "@R expansion: the mapping function returns regexp.QuoteMeta(Getenv(key without the @R suffix)) exactly when the key has that suffix and Getenv(key) otherwise", 2)

	setup := ctx.Need("N1", "testscript", "(*TestScript).setup")
	setenv := ctx.Need("N1", "testscript", "(*TestScript).Setenv")
	parse := ctx.Need("N4", "testscript", "(*TestScript).parse")
	expand := ctx.Need("N5", "testscript", "(*TestScript).expand")
	if setup == nil || setenv == nil || parse == nil || expand == nil {
		return
	}
	// ---- N1
	for _, fld := range []string{"env", "envMap"} {
		for k, w := range fieldWriters(p, tsPkg, "TestScript", fld) {
			ok := w.Fn == setup || w.Fn == setenv
			ctx.Check(ok, "N1", shortFn(w.Fn)+"#"+fld+"-write"+itoa(k+1), w.Instr.Pos(), "TestScript.%s written in %s (allowed: setup, Setenv); any other writer can update the list without the map or the reverse, and $VAR expansion then disagrees with what child processes see", fld, shortFn(w.Fn))
		}
	}
	{
		g := graph(p, setenv)
		keyP, valP := setenv.Params[1], setenv.Params[2]
		okList, okMap := false, false
		g.Instrs(func(i ssa.Instruction) {
			switch x := i.(type) {
			case *ssa.Store:
				fa, ok := x.Addr.(*ssa.FieldAddr)
				if !ok || ssax.FieldOf(fa).Name() != "env" {
					return
				}
				c, ok := x.Val.(*ssa.Call)
				if !ok || ssax.CalleeName(&c.Call) != "builtin.append" || !isFieldLoad("env")(c.Call.Args[0]) {
					return
				}
				el := variadicElems(c.Call.Args[1])
				if len(el) == 1 {
					var parts []ssa.Value
					var flat func(v ssa.Value)
					flat = func(v ssa.Value) {
						if b, ok := v.(*ssa.BinOp); ok && b.Op == token.ADD {
							flat(b.X)
							flat(b.Y)
							return
						}
						parts = append(parts, v)
					}
					flat(el[0])
					okList = len(parts) == 3 && parts[0] == ssa.Value(keyP) && isConstStr("=")(parts[1]) && parts[2] == ssa.Value(valP)
				}
			case *ssa.MapUpdate:
				if !isFieldLoad("envMap")(x.Map) {
					return
				}
				kc, ok := isCallSuffix(x.Key, "testscript.envvarname")
				okMap = ok && kc.Call.Args[0] == ssa.Value(keyP) && x.Value == ssa.Value(valP)
			}
		})
		ctx.Check(okList && okMap, "N1", "testscript.Setenv#both", setenv.Pos(), "Setenv appends key+\"=\"+value to the list (%v) and stores value under envvarname(key) in the map (%v)", okList, okMap)
		// ... both on every path: a Setenv that returns having done only one of them leaves list and map apart
		{
			isListStore := func(i ssa.Instruction) bool {
				st, ok := i.(*ssa.Store)
				return ok && isFieldAddrOf("env")(st.Addr)
			}
			isMapStore := func(i ssa.Instruction) bool {
				mu, ok := i.(*ssa.MapUpdate)
				return ok && isFieldLoad("envMap")(mu.Map)
			}
			uncond := true
			for _, r := range g.Returns() {
				for _, pred := range []func(ssa.Instruction) bool{isListStore, isMapStore} {
					if hit, _ := g.ReachableWithout(ssax.Point{}, func(i ssa.Instruction) bool { return i == ssa.Instruction(r) }, pred); hit != nil {
						uncond = false
					}
				}
			}
			ctx.Check(uncond, "N1", "testscript.Setenv#unconditional", setenv.Pos(), "every return of Setenv lies behind both the list append and the map update (no value, such as the empty string, is special)")
		}
	}
	{
		// setup rebuilds the map from the list
		g := graph(p, setup)
		okRebuild := false
		g.Instrs(func(i ssa.Instruction) {
			mu, ok := i.(*ssa.MapUpdate)
			if !ok || !isFieldLoad("envMap")(mu.Map) {
				return
			}
			kc, ok := isCallSuffix(mu.Key, "testscript.envvarname")
			if !ok {
				return
			}
			kx, ksep, ok1 := beforeFirst(kc.Call.Args[0])
			vx, vsep, ok2 := afterFirst(mu.Value)
			if ok1 && ok2 && kx == vx && ksep == "=" && vsep == "=" && ssax.DerivedFrom(kx, isFieldLoad("env"), nil) {
				okRebuild = true
			}
		})
		// N13: the rebuild covers the whole list and nothing else fills the map
		{
			k := 0
			g.Instrs(func(i ssa.Instruction) {
				mu, ok := i.(*ssa.MapUpdate)
				if !ok || !isFieldLoad("envMap")(mu.Map) {
					return
				}
				k++
				why := ""
				kc, isK := isCallSuffix(mu.Key, "testscript.envvarname")
				var kx ssa.Value
				if isK {
					kx, _, isK = beforeFirst(kc.Call.Args[0])
				}
				if !isK {
					why = "the key is not envvarname(<text before '='> of a list entry)"
				} else if ld, isL := ssax.Strip(kx).(*ssa.UnOp); !isL || ld.Op != token.MUL {
					why = "the entry is not an element of the list"
				} else if ia, isIA := ld.X.(*ssa.IndexAddr); !isIA {
					why = "the entry is not an element of the list"
				} else if !isFieldLoad("env")(ssax.Strip(ia.X)) {
					why = "the entries come from " + ssax.AccessPath(ia.X) + ", not from the whole of TestScript.env"
				} else if _, init, d, isC := counter(ia.Index); !isC {
					why = "the entry index is not a counter stepping by one"
				} else if a, isA := ssax.ConstInt(init); !isA || a+d != 0 {
					why = "the entries are not visited from the first one"
				} else if l, inL := innermostLoop(g, mu.Block().Index); !inL {
					why = "the update is not in a loop"
				} else {
					full := false
					for _, ex := range loopExits(g, l) {
						if ce, isCE := exitIsCounted(g, l, ex[0], ex[1]); isCE {
							if ln, isLn := ce.Bound.(*ssa.Call); isLn && isBuiltinCall(ln, "len") && (ln.Call.Args[0] == ia.X || isFieldLoad("env")(ssax.Strip(ln.Call.Args[0]))) {
								full = true
							}
						}
					}
					if !full {
						why = "the loop does not run to the end of the list"
					}
				}
				ctx.Check(why == "", "N13", "testscript.setup#envMap-update"+itoa(k), mu.Pos(), "every entry setup puts into envMap comes from the loop over the whole final TestScript.env, first entry to last (a map pre-filled from the defaults, or filled from a tail of the list, disagrees with the list once Params.Setup removes or replaces a variable): %s", why)
			})
			if k == 0 {
				ctx.Note("N13", "testscript.setup#envMap-update", setup.Pos(), "setup does not update envMap")
			}
		}
		// the map is freshly made after env is final
		ctx.Check(okRebuild, "N1", "testscript.setup#rebuild-map", setup.Pos(), "setup fills envMap from each KEY=VALUE entry of the final env list (key before the first '=', value after it)")
	}
	n := 0
	for _, f := range tsFuncs(p) {
		graph(p, f).Instrs(func(i ssa.Instruction) {
			var m, k ssa.Value
			switch x := i.(type) {
			case *ssa.Lookup:
				m, k = x.X, x.Index
			case *ssa.MapUpdate:
				m, k = x.Map, x.Key
			default:
				return
			}
			if !isFieldLoad("envMap")(m) {
				return
			}
			n++
			_, ok := isCallSuffix(ssax.ResolveLoad(k), "testscript.envvarname")
			if !ok {
				_, ok = isCallSuffix(k, "testscript.envvarname")
			}
			ctx.Check(ok, "N1", shortFn(f)+"#envMap-key"+itoa(n), i.Pos(), "envMap indexed with envvarname(...) (on Windows keys are case-folded; a raw key would miss)")
		})
	}
	// no in-place edits of the list: entries are only ever appended
	{
		nb := 0
		for _, f := range tsFuncs(p) {
			graph(p, f).Instrs(func(i ssa.Instruction) {
				st, ok := i.(*ssa.Store)
				if !ok {
					return
				}
				ia, ok := st.Addr.(*ssa.IndexAddr)
				if !ok || !ssax.DerivedFrom(ia.X, isFieldLoad("env"), nil) {
					return
				}
				if _, isAlloc := ia.X.(*ssa.Slice); isAlloc {
					return
				}
				nb++
				ctx.Bad("N1", shortFn(f)+"#env-element-store"+itoa(nb), st.Pos(), "an element of TestScript.env is overwritten in place: the list is append-only (latest assignment wins by position); editing entries desynchronises it from envMap and can clobber another variable")
			})
		}
		if nb == 0 {
			ctx.OK("N1", "testscript#env-append-only", setenv.Pos(), "no element of the env list is ever overwritten in place")
		}
	}
	// ---- N8: cmpenv compares against the expanded text
	ctx.Rule("N8", "cmpenv: every comparison of the two file contents either uses the expansion of the second file or happens only when env substitution is off", 1)
	if cmp := p.Func("testscript", "(*TestScript).doCmdCmp"); cmp != nil {
		g := graph(p, cmp)
		envP := cmp.Params[3]
		k := 0
		g.Instrs(func(i ssa.Instruction) {
			b, ok := i.(*ssa.BinOp)
			if !ok || (b.Op != token.EQL && b.Op != token.NEQ) || !isSeqT(b.X.Type()) {
				return
			}
			fromFile := func(v ssa.Value) bool {
				return ssax.DerivedFrom(v, func(x ssa.Value) bool { _, ok := isCallSuffix(x, ".ReadFile"); return ok }, func(cc *ssa.Call) bool { return true })
			}
			if !fromFile(b.X) || !fromFile(b.Y) {
				return
			}
			k++
			expanded := func(v ssa.Value) bool {
				// the value, on every phi edge, is an expansion or arrives where env is false
				var rec func(v ssa.Value, facts []ssax.Fact, d int) bool
				rec = func(v ssa.Value, facts []ssax.Fact, d int) bool {
					if _, ok := isCallSuffix(v, "TestScript).expand"); ok {
						return true
					}
					if hasFact(facts, false, isVal(envP)) {
						return true
					}
					if ph, ok := v.(*ssa.Phi); ok && d < 3 {
						for e, ev := range ph.Edges {
							if !rec(ev, factsOnEdge(g, ph.Block().Preds[e], ph.Block()), d+1) {
								return false
							}
						}
						return true
					}
					return false
				}
				return rec(v, g.FactsAtInstr(b), 0)
			}
			ctx.Check(expanded(b.X) || expanded(b.Y), "N8", "testscript.doCmdCmp#compare"+itoa(k), b.Pos(), "with env substitution on, the comparison uses the expanded expected text (comparing the raw template first lets a tool that echoes the template pass)")
		})
		if k == 0 {
			ctx.Bad("N8", "testscript.doCmdCmp#compare", cmp.Pos(), "content comparison not found")
		}
	}
	// ---- N9: the 'start' sentinel of the tokenizer is tested only at its boundary
	ctx.Rule("N9", "sentinel discipline in the tokenizer: the chunk-start index uses -1 for 'no chunk'; every comparison of it with a constant is equivalent to 'start >= 0' or 'start < 0' (an off-by-one such as 'start > 0' drops a chunk that begins in column 0)", 2)
	{
		g := graph(p, parse)
		web := map[ssa.Value]bool{}
		g.Instrs(func(i ssa.Instruction) {
			ph, ok := i.(*ssa.Phi)
			if !ok || !isIntT(ph.Type()) {
				return
			}
			for _, e := range ph.Edges {
				if k, ok := ssax.ConstInt(e); ok && k == -1 {
					phs, _ := phiWeb(ph)
					for q := range phs {
						web[q] = true
					}
				}
			}
		})
		k := 0
		g.Instrs(func(i ssa.Instruction) {
			b, ok := i.(*ssa.BinOp)
			if !ok {
				return
			}
			var c int64
			var op token.Token
			if web[b.X] {
				kk, isK := ssax.ConstInt(b.Y)
				if !isK {
					return
				}
				c, op = kk, b.Op
			} else if web[b.Y] {
				kk, isK := ssax.ConstInt(b.X)
				if !isK {
					return
				}
				c = kk
				op = map[token.Token]token.Token{token.LSS: token.GTR, token.GTR: token.LSS, token.LEQ: token.GEQ, token.GEQ: token.LEQ, token.EQL: token.EQL, token.NEQ: token.NEQ}[b.Op]
			} else {
				return
			}
			switch op {
			case token.GEQ, token.LSS, token.GTR, token.LEQ, token.EQL, token.NEQ:
			default:
				return
			}
			k++
			ok2 := (op == token.GEQ && c == 0) || (op == token.LSS && c == 0) || (op == token.GTR && c == -1) || (op == token.LEQ && c == -1) || (op == token.EQL && c == -1) || (op == token.NEQ && c == -1)
			ctx.Check(ok2, "N9", "testscript.parse#start-test"+itoa(k), b.Pos(), "chunk-start index compared at the sentinel boundary (found: start %s %d)", op, c)
		})
		if k == 0 {
			ctx.Note("N9", "testscript.parse#start-test", parse.Pos(), "no sentinel-initialised index found; not decided")
			ctx.OKTrivial("N9", "testscript.parse#no-sentinel-1", parse.Pos(), "not decided")
			ctx.OKTrivial("N9", "testscript.parse#no-sentinel-2", parse.Pos(), "not decided")
		}
	}
	// ---- N2
	{
		k := 0
		for _, f := range tsFuncs(p) {
			g := graph(p, f)
			for _, st := range g.Calls("(*os/exec.Cmd).Start") {
				k++
				cmd := st.Call.Args[0]
				envOK, dirOK := false, false
				g.Instrs(func(i ssa.Instruction) {
					s, ok := i.(*ssa.Store)
					if !ok || !g.Dominates(s, st) {
						return
					}
					fa, ok := s.Addr.(*ssa.FieldAddr)
					if !ok || fa.X != cmd {
						return
					}
					switch ssax.FieldOf(fa).Name() {
					case "Env":
						envOK = ssax.DerivedFrom(s.Val, isFieldLoad("env"), nil)
					case "Dir":
						dirOK = isFieldLoad("cd")(s.Val) || ssax.DerivedFrom(s.Val, isFieldLoad("cd"), nil)
					}
				})
				ctx.Check(envOK && dirOK, "N2", shortFn(f)+"#start"+itoa(k), st.Pos(), "before Start the command's Env is set from TestScript.env (%v) and its Dir from TestScript.cd (%v); an unset Env makes the child inherit the host environment", envOK, dirOK)
			}
		}
		if k == 0 {
			ctx.Bad("N2", "testscript#start", token.NoPos, "no Cmd.Start found")
		}
	}
	// ---- N3
	{
		isExpandResult := func(v ssa.Value) bool {
			c, ok := v.(*ssa.Call)
			if !ok {
				return false
			}
			n := ssax.CalleeName(&c.Call)
			return strings.HasSuffix(n, "TestScript).expand") || n == "os.Expand"
		}
		k := 0
		for _, f := range tsFuncs(p) {
			g := graph(p, f)
			g.Instrs(func(i ssa.Instruction) {
				c, ok := i.(*ssa.Call)
				if !ok {
					return
				}
				n := ssax.CalleeName(&c.Call)
				var arg ssa.Value
				switch {
				case strings.HasSuffix(n, "TestScript).expand"), strings.HasSuffix(n, "TestScript).parse"):
					arg = c.Call.Args[1]
				case n == "os.Expand":
					arg = c.Call.Args[0]
				default:
					return
				}
				k++
				re := ssax.DerivedFrom(arg, isExpandResult, func(cc *ssa.Call) bool { return !isExpandResult(cc) })
				ctx.Check(!re, "N3", shortFn(f)+"#expand-arg"+itoa(k), c.Pos(), "the argument of %s does not derive from an earlier expansion (a value containing '$' or blanks would be expanded or split a second time)", n[strings.LastIndex(n, ".")+1:])
				if f == parse && strings.HasSuffix(n, "TestScript).expand") {
					sl, ok := arg.(*ssa.Slice)
					ctx.Check(ok && sl.X == ssa.Value(parse.Params[1]), "N3", shortFn(f)+"#expand-operand"+itoa(k), c.Pos(), "the tokenizer expands sub-slices of the line only")
				}
			})
		}
	}
	// ---- N4
	{
		g := graph(p, parse)
		line := parse.Params[1]
		// the 'quoted' phi: a boolean phi in the loop header
		// the quote-state flag, whatever it is called: a boolean phi one of whose incoming
		// values is the negation of a phi of its own web (it is toggled at each quote character)
		isQuoted := func(v ssa.Value) bool {
			ph, ok := v.(*ssa.Phi)
			if !ok || ph.Type().String() != "bool" {
				return false
			}
			web, _ := phiWeb(ph)
			for q := range web {
				for _, e := range q.Edges {
					if u, isU := e.(*ssa.UnOp); isU && u.Op == token.NOT {
						if x, isPhi := u.X.(*ssa.Phi); isPhi && web[x] {
							return true
						}
					}
				}
			}
			return false
		}
		anyQuotedPhi := false
		g.Instrs(func(i ssa.Instruction) {
			if ph, ok := i.(*ssa.Phi); ok && ph.Type().String() == "bool" {
				anyQuotedPhi = true
				_ = ph
			}
		})
		isBoolPhi := func(v ssa.Value) bool {
			ph, ok := v.(*ssa.Phi)
			return ok && ph.Type().String() == "bool"
		}
		_ = isQuoted
		k := 0
		g.Instrs(func(i ssa.Instruction) {
			b, ok := i.(*ssa.BinOp)
			if !ok || b.Op != token.ADD || !isSeqT(b.Type()) {
				return
			}
			facts := g.FactsAtInstr(b)
			if c, isExp := isCallSuffix(b.Y, "TestScript).expand"); isExp {
				k++
				_ = c
				ctx.Check(hasFact(facts, false, isBoolPhi), "N4", "testscript.parse#expanded-chunk"+itoa(k), b.Pos(), "a chunk is expanded only where the quote flag is known false")
				return
			}
			if sl, isSl := b.Y.(*ssa.Slice); isSl && sl.X == ssa.Value(line) {
				k++
				ctx.Check(hasFact(facts, true, isBoolPhi), "N4", "testscript.parse#raw-chunk"+itoa(k), b.Pos(), "a chunk is appended without expansion only where the quote flag is known true")
			}
		})
		okUnterm := false
		for _, c := range g.Calls(tsFatalf) {
			if s, ok := ssax.ConstString(c.Call.Args[1]); ok && strings.Contains(s, "unterminated") {
				okUnterm = cmpFact(g.FactsAtInstr(c), token.GEQ, anyVal, isLenOf(line))
			}
		}
		ctx.Check(okUnterm && anyQuotedPhi, "N4", "testscript.parse#unterminated", parse.Pos(), "reaching the end of the line inside quotes ends in Fatalf")
		if k < 3 {
			ctx.Bad("N4", "testscript.parse#chunks", parse.Pos(), "expected expanded and raw chunk appends in the tokenizer, found %d", k)
		}
	}
	// ---- N6: separator bytes split unconditionally outside quotes
	ctx.Rule("N6", "separator tests: outside quotes each of blank, tab and '#' ends the current word unconditionally - from the true edge of every comparison of the current byte with one of these constants, every path to the next byte (or the return) appends the finished word to the result list or crosses the edge on which there is no current word", 1)
	{
		g := graph(p, parse)
		line := parse.Params[1]
		targets := map[int][]string{}
		where := map[int][]int{}
		n := 0
		type sepTest struct {
			ifi *ssa.If
			sep string
		}
		var tests []sepTest
		g.Instrs(func(i ssa.Instruction) {
			ifi, ok := i.(*ssa.If)
			if !ok {
				return
			}
			b, ok := ifi.Cond.(*ssa.BinOp)
			if !ok {
				return
			}
			// set form: strings.IndexByte(" \t\r#", line[i]) >= 0 (or != -1, or ContainsRune)
			if c, isC := b.X.(*ssa.Call); isC && (b.Op == token.GEQ || b.Op == token.NEQ) {
				nm := ssax.CalleeName(&c.Call)
				if (nm == "strings.IndexByte" || nm == "strings.IndexRune" || nm == "bytes.IndexByte") && len(c.Call.Args) == 2 {
					set, isSet := ssax.ConstString(c.Call.Args[0])
					kk, isK := ssax.ConstInt(b.Y)
					if isSet && isK && ((b.Op == token.GEQ && kk == 0) || (b.Op == token.NEQ && kk == -1)) && isElemLoad(line, anyVal)(ssax.Strip(c.Call.Args[1])) &&
						hasFact(g.FactsAtInstr(ifi), false, func(v ssa.Value) bool { ph, ok := v.(*ssa.Phi); return ok && ph.Type().String() == "bool" }) {
						t := ifi.Block().Succs[0].Index
						for _, sep := range []byte{' ', '\t', '#'} {
							if strings.IndexByte(set, sep) >= 0 {
								n++
								targets[t] = append(targets[t], string(rune(sep)))
								where[t] = append(where[t], ifi.Block().Index)
								tests = append(tests, sepTest{ifi, string(rune(sep))})
							}
						}
					}
				}
				return
			}
			if b.Op != token.EQL {
				return
			}
			k, ok := ssax.ConstInt(b.Y)
			if !ok || (k != ' ' && k != '\t' && k != '#') {
				return
			}
			if !isElemLoad(line, anyVal)(b.X) {
				return
			}
			// only tests in the not-quoted region
			if !hasFact(g.FactsAtInstr(ifi), false, func(v ssa.Value) bool { ph, ok := v.(*ssa.Phi); return ok && ph.Type().String() == "bool" }) {
				return
			}
			n++
			t := ifi.Block().Succs[0].Index
			targets[t] = append(targets[t], string(rune(k)))
			where[t] = append(where[t], ifi.Block().Index)
			tests = append(tests, sepTest{ifi, string(rune(k))})
		})
		_, _ = targets, where
		// What "ends the current word unconditionally" means, whatever the layout: from the true edge of
		// the test, every way to the end of this iteration (the next byte, or the return) either appends the
		// finished word to the result list or runs over the edge that says there is no current word
		// (chunk start < 0). A way that does neither carries the separator on into the word, or drops it.
		isWordAppend := func(i ssa.Instruction) bool {
			c, ok := i.(*ssa.Call)
			return ok && isBuiltinCall(c, "append") && c.Type().String() == "[]string"
		}
		noWord := map[[2]int]bool{}
		for _, blk := range parse.Blocks {
			ifi, ok := blk.Instrs[len(blk.Instrs)-1].(*ssa.If)
			if !ok || len(blk.Succs) != 2 {
				continue
			}
			cond, pos := stripNotB(ifi.Cond, true)
			b, ok := cond.(*ssa.BinOp)
			if !ok {
				continue
			}
			z, isZ := ssax.ConstInt(b.Y)
			if _, isPhi := b.X.(*ssa.Phi); !isPhi || !isZ || z != 0 {
				continue
			}
			switch b.Op {
			case token.LSS: // start < 0: the true edge
				if pos {
					noWord[[2]int{blk.Index, blk.Succs[0].Index}] = true
				} else {
					noWord[[2]int{blk.Index, blk.Succs[1].Index}] = true
				}
			case token.GEQ: // start >= 0: the false edge
				if pos {
					noWord[[2]int{blk.Index, blk.Succs[1].Index}] = true
				} else {
					noWord[[2]int{blk.Index, blk.Succs[0].Index}] = true
				}
			}
		}
		// blocks that can be reached, within one iteration, with the word still open
		open := map[int]bool{}
		{
			var hdrs []int
			for _, t := range tests {
				if l, ok := innermostLoop(g, t.ifi.Block().Index); ok {
					hdrs = append(hdrs, l.Header)
				}
			}
			type e2 struct{ pred, blk int }
			seen := map[e2]bool{}
			var work []e2
			for _, h := range hdrs {
				work = append(work, e2{-1, h})
			}
			for len(work) > 0 {
				cur := work[0]
				work = work[1:]
				if seen[cur] || !g.Reach[cur.blk] || noWord[[2]int{cur.pred, cur.blk}] {
					continue
				}
				seen[cur] = true
				if cur.pred >= 0 {
					isHdr := false
					for _, h := range hdrs {
						if h == cur.blk {
							isHdr = true
						}
					}
					if isHdr {
						continue
					}
				}
				open[cur.blk] = true
				closed := false
				for _, ins := range parse.Blocks[cur.blk].Instrs {
					if isWordAppend(ins) {
						closed = true
					}
				}
				if closed || g.Cut[cur.blk] >= 0 {
					continue
				}
				for _, nx := range g.Succs[cur.blk] {
					work = append(work, e2{cur.blk, nx})
				}
			}
		}
		seps := map[string]bool{}
		var bad []string
		for _, t := range tests {
			if !open[t.ifi.Block().Index] {
				continue // asked after the word was closed ("was that a '#'? then stop")
			}
			seps[t.sep] = true
			from := t.ifi.Block()
			l, inLoop := innermostLoop(g, from.Index)
			// breadth-first over (predecessor, block); a block that branches on a boolean merged in it is
			// left in the direction the value arriving from the predecessor decides
			type st struct{ pred, blk int }
			seen := map[st]bool{}
			work := []st{{from.Index, from.Succs[0].Index}}
			escape := ""
			for len(work) > 0 && escape == "" {
				cur := work[0]
				work = work[1:]
				if seen[cur] || !g.Reach[cur.blk] {
					continue
				}
				seen[cur] = true
				if noWord[[2]int{cur.pred, cur.blk}] {
					continue
				}
				if inLoop && cur.blk == l.Header {
					escape = "the next byte is reached"
					break
				}
				blk := parse.Blocks[cur.blk]
				stopped := false
				end := len(blk.Instrs)
				if c := g.Cut[cur.blk]; c >= 0 {
					end = c + 1
				}
				for _, ins := range blk.Instrs[:end] {
					if isWordAppend(ins) {
						stopped = true
						break
					}
					if _, isRet := ins.(*ssa.Return); isRet {
						escape = "the tokenizer returns"
					}
				}
				if stopped || escape != "" || g.Cut[cur.blk] >= 0 {
					continue
				}
				succs := g.Succs[cur.blk]
				if ifi, ok := blk.Instrs[len(blk.Instrs)-1].(*ssa.If); ok && len(blk.Succs) == 2 {
					cond, pos := stripNotB(ifi.Cond, true)
					if ph, isPhi := cond.(*ssa.Phi); isPhi && ph.Block() == blk {
						for k, pb := range blk.Preds {
							if pb.Index != cur.pred {
								continue
							}
							if kb, isK := ssax.ConstBool(ph.Edges[k]); isK {
								take := blk.Succs[1].Index
								if kb == pos {
									take = blk.Succs[0].Index
								}
								succs = []int{take}
							}
						}
					}
				}
				for _, nx := range succs {
					work = append(work, st{cur.blk, nx})
				}
			}
			if escape != "" {
				bad = append(bad, fmt.Sprintf("after %q is recognised outside quotes (%s) %s without the word having been closed", t.sep, p.Pos(t.ifi.Pos()), escape))
			}
		}
		switch {
		case n == 0:
			ctx.Note("N6", "testscript.parse#separators", parse.Pos(), "separator comparisons not found in the tokenizer (moved into a helper?): clause not decided")
			ctx.OKTrivial("N6", "testscript.parse#separators-unrecognised", parse.Pos(), "not decided")
		case len(bad) == 0 && seps[" "] && seps["\t"] && seps["#"]:
			ctx.OK("N6", "testscript.parse#separators", parse.Pos(), "%d separator tests; after each, every way to the next byte closes the current word or finds there is none", n)
		case len(bad) == 0:
			ctx.Bad("N6", "testscript.parse#separators", parse.Pos(), "not every separator is tested outside quotes: blank=%v tab=%v '#'=%v", seps[" "], seps["\t"], seps["#"])
		default:
			ctx.Bad("N6", "testscript.parse#separators", parse.Pos(), "some separator byte ends a word only under an extra condition, so e.g. 'word#comment' is no longer cut at '#': %s", strings.Join(bad, "; "))
		}
	}
	// ---- N7: env NAME=VALUE splits at the first '=' only
	ctx.Rule("N7", "env assignment: the env command passes Setenv the text before the first '=' and everything after it (strings.Index/IndexByte slices, strings.Cut, or SplitN with limit 2); a value may itself contain '='", 1)
	if cmdEnv := p.Func("testscript", "(*TestScript).cmdEnv"); cmdEnv != nil {
		g := graph(p, cmdEnv)
		k := 0
		for _, c := range g.Calls(ssax.FuncName(setenv)) {
			k++
			a1, a2 := c.Call.Args[1], c.Call.Args[2]
			ok := false
			s1, ok1 := a1.(*ssa.Slice)
			s2, ok2 := a2.(*ssa.Slice)
			if ok1 && ok2 && s1.X == s2.X && s1.Low == nil && s2.High == nil {
				if ic, isC := s1.High.(*ssa.Call); isC {
					nm := ssax.CalleeName(&ic.Call)
					if (nm == "strings.Index" || nm == "strings.IndexByte") && ic.Call.Args[0] == s1.X {
						if lo, isB := s2.Low.(*ssa.BinOp); isB && lo.Op == token.ADD && lo.X == ssa.Value(ic) && isConstIntV(1)(lo.Y) {
							ok = true
						}
					}
				}
			}
			if e1, isE := a1.(*ssa.Extract); isE {
				if cc, isC := e1.Tuple.(*ssa.Call); isC && ssax.CalleeName(&cc.Call) == "strings.Cut" {
					if e2, isE2 := a2.(*ssa.Extract); isE2 && e2.Tuple == e1.Tuple && e1.Index == 0 && e2.Index == 1 {
						ok = true
					}
				}
			}
			for _, a := range []ssa.Value{a1, a2} {
				if ssax.DerivedFrom(a, func(v ssa.Value) bool {
					cc, isC := v.(*ssa.Call)
					if !isC || ssax.CalleeName(&cc.Call) != "strings.SplitN" {
						return false
					}
					lim, isK := ssax.ConstInt(cc.Call.Args[2])
					return isK && lim == 2
				}, nil) {
					ok = true
				}
			}
			ctx.Check(ok, "N7", "testscript.cmdEnv#split"+itoa(k), c.Pos(), "NAME=VALUE is split at the first '=' only")
		}
		if k == 0 {
			ctx.Bad("N7", "testscript.cmdEnv#split", cmdEnv.Pos(), "the env command does not go through Setenv")
		}
	}
	// ---- N5
	{
		var cb *ssa.Function
		for _, a := range expand.AnonFuncs {
			cb = a
		}
		if cb == nil {
			ctx.Bad("N5", "testscript.expand#mapping", expand.Pos(), "mapping function not found")
		} else {
			g := graph(p, cb)
			key := cb.Params[0]
			okR, okPlain := false, false
			for _, r := range g.Returns() {
				v := ssax.ReturnValues(r)[0]
				facts := g.FactsAtInstr(r)
				if q, ok := isCallSuffix(v, "regexp.QuoteMeta"); ok {
					ge, ok := isCallSuffix(q.Call.Args[0], "TestScript).Getenv")
					if ok {
						if x, suf, ok := withoutSuffix(ge.Call.Args[1]); ok && x == ssa.Value(key) && suf == "@R" {
							for _, f := range facts {
								if fx, fs, holds, ok := suffixFact(f); ok && fx == ssa.Value(key) && fs == "@R" && holds {
									okR = true
								}
							}
						}
					}
					continue
				}
				if ge, ok := isCallSuffix(v, "TestScript).Getenv"); ok && ge.Call.Args[1] == ssa.Value(key) {
					okPlain = true
				}
			}
			ctx.Check(okR, "N5", "testscript.expand#at-R", cb.Pos(), "${NAME@R} yields regexp.QuoteMeta of NAME's value, only for keys carrying the suffix")
			ctx.Check(okPlain, "N5", "testscript.expand#plain", cb.Pos(), "$NAME yields Getenv(NAME)")
			// expand passes the string and that mapping to os.Expand
			eg := graph(p, expand)
			okE := false
			for _, c := range eg.Calls("os.Expand") {
				okE = c.Call.Args[0] == ssa.Value(expand.Params[1])
			}
			ctx.Check(okE, "N5", "testscript.expand#os-expand", expand.Pos(), "expand is os.Expand of its argument with that mapping")
		}
	}
	c02More(ctx)
}

// c02More: rules added after the third seeding round.
func c02More(ctx *core.Ctx) {
	p := ctx.P
	ctx.Rule("N10", "the tokenizer sees the line as written: the string handed to the tokenizer by runLine is the line itself (or a re-slice of it), never the result of a call that rewrites it (strings.TrimSpace strips form feeds, non-breaking spaces and other characters the tokenizer treats as text)", 1)
	ctx.Rule("N12", "one tokenizer: every value returned by the tokenizer is nil or the result of appending a finished word to its list; the line is never split by any other means", 1)
	ctx.Rule("N11", "a word only grows: inside the tokenizer every new value of the word being assembled is either the empty string (a new word starts after the finished one was appended to the result) or the previous value with a chunk appended; an assignment that does not extend the previous value drops the text collected so far", 1)
	runLine := ctx.Need("N10", "testscript", "(*TestScript).runLine")
	parse := ctx.Need("N11", "testscript", "(*TestScript).parse")
	if runLine == nil || parse == nil {
		return
	}
	n := 0
	for _, c := range graph(p, runLine).Calls(ssax.FuncName(parse)) {
		n++
		raw := ssax.DerivedFrom(c.Call.Args[1], isVal(runLine.Params[1]), nil)
		ctx.Check(raw, "N10", "testscript.runLine#tokenizer-input"+itoa(n), c.Pos(), "the tokenizer receives runLine's line parameter unmodified")
	}
	if n == 0 {
		ctx.Bad("N10", "testscript.runLine#tokenizer-input", runLine.Pos(), "runLine does not call the tokenizer")
	}
	// ... and what run hands to runLine is cut out of the script text, not rewritten: on the way from the
	// script to the line there are only re-slices, merges and strings.Cut (any other strings/bytes/regexp
	// call - ReplaceAll, TrimSpace, Map - changes bytes that the tokenizer must see)
	if run := p.Func("testscript", "(*TestScript).run"); run != nil {
		k := 0
		for _, c := range graph(p, run).Calls(ssax.FuncName(runLine)) {
			k++
			seen := map[ssa.Value]bool{}
			culprit := ""
			var walk func(v ssa.Value, depth int)
			walk = func(v ssa.Value, depth int) {
				if seen[v] || depth > 12 || culprit != "" {
					return
				}
				seen[v] = true
				switch x := ssax.Strip(v).(type) {
				case *ssa.Slice:
					walk(x.X, depth+1)
				case *ssa.Phi:
					for _, e := range x.Edges {
						walk(e, depth+1)
					}
				case *ssa.Extract:
					walk(x.Tuple, depth+1)
				case *ssa.UnOp:
					if r := ssax.ResolveLoad(x); r != nil && r != ssa.Value(x) {
						walk(r, depth+1)
					}
				case *ssa.Call:
					nm := ssax.CalleeName(&x.Call)
					if nm == "strings.Cut" {
						walk(x.Call.Args[0], depth+1)
						return
					}
					if strings.HasPrefix(nm, "strings.") || strings.HasPrefix(nm, "bytes.") || strings.HasPrefix(nm, "regexp.") || strings.HasPrefix(nm, "(*regexp.") || strings.HasPrefix(nm, "(*strings.") {
						culprit = nm
					}
				}
			}
			walk(c.Call.Args[1], 0)
			ctx.Check(culprit == "", "N10", "testscript.run#line-as-written"+itoa(k), c.Pos(), "the line given to runLine is a piece of the script text as written (no rewriting call on the way%s)", map[bool]string{true: "", false: "; found " + culprit}[culprit == ""])
		}
	}
	// the word accumulator: the string that is appended to the result list
	g := graph(p, parse)
	var words []ssa.Value
	g.Instrs(func(i ssa.Instruction) {
		c, ok := i.(*ssa.Call)
		if !ok || !isBuiltinCall(c, "append") || len(c.Call.Args) != 2 {
			return
		}
		if sl, ok := c.Call.Args[0].Type().Underlying().(*types.Slice); !ok || sl.Elem().String() != "string" {
			return
		}
		for _, e := range variadicElems(c.Call.Args[1]) {
			words = append(words, e)
		}
	})
	if len(words) == 0 {
		ctx.Unknown("N11", "testscript.parse#word", parse.Pos(), "no word is appended to the result list")
		return
	}
	inWeb := map[ssa.Value]bool{}
	var leaves []leaf
	var grow func(v ssa.Value)
	grow = func(v ssa.Value) {
		if inWeb[v] {
			return
		}
		inWeb[v] = true
		switch x := v.(type) {
		case *ssa.Phi:
			for k, e := range x.Edges {
				switch e.(type) {
				case *ssa.Phi, *ssa.BinOp:
					grow(e)
				default:
					leaves = append(leaves, leaf{e, x.Block().Preds[k], x})
				}
			}
		case *ssa.BinOp:
			if x.Op == token.ADD {
				grow(x.X) // the previous value; x.Y is the chunk
			}
		}
	}
	for _, w := range words {
		grow(w)
	}
	bad := ""
	for v := range inWeb {
		if b, ok := v.(*ssa.BinOp); ok && b.Op == token.ADD {
			if _, isPhi := b.X.(*ssa.Phi); !isPhi {
				if _, isAdd := b.X.(*ssa.BinOp); !isAdd {
					if s, isK := ssax.ConstString(b.X); !isK || s != "" {
						bad = "a concatenation does not start from the word assembled so far"
					}
				}
			}
		}
	}
	for _, l := range leaves {
		if s, isK := ssax.ConstString(l.Val); isK && s == "" {
			continue
		}
		bad = "the word is replaced by " + l.Val.String() + " instead of being extended (text collected before is lost)"
	}
	// N12: what parse returns is the list it assembled word by word
	{
		okRet := true
		nret := 0
		for _, r := range g.Returns() {
			nret++
			v := ssax.ReturnValues(r)[0]
			_, lv := phiWeb(v)
			if _, isPhi := v.(*ssa.Phi); !isPhi {
				lv = []leaf{{Val: v}}
			}
			for _, l := range lv {
				if ssax.IsNil(l.Val) {
					continue
				}
				c, ok := l.Val.(*ssa.Call)
				if !ok || !isBuiltinCall(c, "append") {
					okRet = false
					continue
				}
				elems := variadicElems(c.Call.Args[1])
				if len(elems) != 1 || !inWeb[elems[0]] {
					okRet = false
				}
			}
		}
		ctx.Check(okRet && nret > 0, "N12", "testscript.parse#result", parse.Pos(), "the tokenizer returns only the list it built by appending finished words (no other way of splitting the line, such as strings.Fields, which splits at every Unicode space)")
	}
	ctx.Check(bad == "", "N11", "testscript.parse#word-grows", parse.Pos(), "every new value of the word under construction is \"\" or the old value plus a chunk %s", bad)
}
