package rules

import (
	"fmt"
	"go/token"
	"go/types"
	"strings"

	"golang.org/x/tools/go/ssa"

	"verif/checker/core"
	"verif/checker/ssax"
)

func init() { Registry["C12"] = Spec{Run: runC12, Packages: []string{"cache"}} }

func origin(v ssa.Value) ssa.Value { return ssax.Origin(v) }

func sameOrigin(a ssa.Value) func(ssa.Value) bool {
	oa := origin(a)
	return func(v ssa.Value) bool { return origin(v) == oa }
}

// fileMethodCalls lists live calls of (*os.File) methods on value f.
func fileMethodCalls(g *ssax.Graph, f ssa.Value) map[string][]*ssa.Call {
	out := map[string][]*ssa.Call{}
	for _, r := range ssax.Referrers(f) {
		c, ok := r.(*ssa.Call)
		if !ok || !g.Live(c) {
			continue
		}
		n := ssax.CalleeName(&c.Call)
		if strings.HasPrefix(n, "(*os.File).") && len(c.Call.Args) > 0 && c.Call.Args[0] == f {
			out[strings.TrimPrefix(n, "(*os.File).")] = append(out[strings.TrimPrefix(n, "(*os.File).")], c)
		}
	}
	// the file held in an interface variable (var w io.Writer = f; w.Write(b)) is the same file
	for _, r := range ssax.Referrers(f) {
		mi, ok := r.(*ssa.MakeInterface)
		if !ok {
			continue
		}
		for _, r2 := range ssax.Referrers(mi) {
			c, ok := r2.(*ssa.Call)
			if ok && g.Live(c) && c.Call.IsInvoke() && c.Call.Value == ssa.Value(mi) {
				out[c.Call.Method.Name()] = append(out[c.Call.Method.Name()], c)
			}
		}
	}
	return out
}

// methodArg returns argument k (not counting the receiver) of a method call,
// whether it is a static call or an interface invoke.
func methodArg(c *ssa.Call, k int) ssa.Value {
	if !c.Call.IsInvoke() {
		k++
	}
	if k < len(c.Call.Args) {
		return c.Call.Args[k]
	}
	return nil
}

func errOf(c *ssa.Call) ssa.Value {
	if c.Type().String() == "error" {
		return c
	}
	if t, ok := c.Type().(interface{ Len() int }); ok {
		return ssax.Extracted(c, t.Len()-1)
	}
	return nil
}

// c12PutOrder implements P3 (= C05.G7): index entry only after the data file.
func c12PutOrder(ctx *core.Ctx, rule string) {
	p := ctx.P
	ctx.Rule(rule, "index after data: the index entry is written only on the nil-error edge of the data-file copy, with the same output id and size values that were computed in the hashing pass and handed to the copy", 1)
	put := ctx.Need(rule, "cache", "(*Cache).put")
	if put == nil {
		return
	}
	g := graph(p, put)
	cf := g.Calls("(*" + cachePkg + ".Cache).copyFile")
	pi := g.Calls("(*" + cachePkg + ".Cache).putIndexEntry")
	if len(cf) != 1 || len(pi) != 1 {
		ctx.Bad(rule, "cache.put#order", put.Pos(), "expected one copyFile and one putIndexEntry call in put, found %d and %d", len(cf), len(pi))
		return
	}
	facts := g.FactsAtInstr(pi[0])
	okErr := ssax.KnownNil(facts, cf[0], true)
	sameOut := origin(pi[0].Call.Args[2]) == origin(cf[0].Call.Args[2]) || sameLocal(pi[0].Call.Args[2], cf[0].Call.Args[2])
	sameSize := origin(pi[0].Call.Args[3]) == origin(cf[0].Call.Args[3])
	ctx.Check(okErr && sameOut && sameSize && g.Dominates(cf[0], pi[0]), rule, "cache.put#order", pi[0].Pos(), "putIndexEntry reached only when copyFile returned nil (%v), with the same output id (%v) and size (%v)", okErr, sameOut, sameSize)
	// the hashing pass reads the source from its start: Seek(0, io.SeekStart) checked, before the copy into the hash
	src := put.Params[2]
	var seek, cp *ssa.Call
	g.Instrs(func(i ssa.Instruction) {
		c, ok := i.(*ssa.Call)
		if !ok {
			return
		}
		if c.Call.IsInvoke() && c.Call.Method.Name() == "Seek" && c.Call.Value == ssa.Value(src) {
			seek = c
		}
		if ssax.CalleeName(&c.Call) == "io.Copy" && ssax.Strip(c.Call.Args[1]) == ssa.Value(src) {
			cp = c
		}
	})
	okRewind := false
	if seek != nil && cp != nil {
		off, ok1 := ssax.ConstInt(seek.Call.Args[0])
		wh, ok2 := ssax.ConstInt(seek.Call.Args[1])
		okRewind = ok1 && ok2 && off == 0 && wh == 0 && g.Dominates(seek, cp) && ssax.KnownNil(g.FactsAtInstr(cp), errOf(seek), true)
	}
	ctx.Check(okRewind, rule, "cache.put#hash-from-start", put.Pos(), "the first pass rewinds the source to offset 0 (Seek(0, io.SeekStart), error checked) before hashing it: a reader that is not at its start would otherwise be stored truncated under a wrong id")
	// the size recorded is the number of bytes that pass copied
	okSize := cp != nil && ssax.Extracted(cp, 0) != nil && origin(cf[0].Call.Args[3]) == ssax.Extracted(cp, 0)
	ctx.Check(okSize, rule, "cache.put#size-is-bytes-hashed", put.Pos(), "the size handed on is the byte count of the hashing pass")
}

func runC12(ctx *core.Ctx) {
	ctx.Trusted = append(ctx.Trusted, "go/types, go/ssa", "a write that reports success wrote its bytes; close-after-write and truncate behave as documented; a crash stops execution between two file operations (crash points themselves are not enumerated)")
	p := ctx.P
	ctx.Rule("P1", "commit protocol in the data-file copy: on the success path that writes the file the events are, each dominating the next: open (no O_APPEND) - seek source to 0 (err nil) - bulk copy of exactly size-1 bytes into file+hash (err nil) - read one byte (err nil) - hash of all bytes compared equal to the expected id - write of that same byte (err nil) - close (err nil); nothing else writes to or resizes the file except Truncate(0) on failure paths", 8)
	ctx.Rule("P2", "failure clean-up: once the data file is open with size > 0, every return of a non-nil error is preceded on its path by Truncate(0) on that file or os.Remove of its name", 1)
	ctx.Rule("P4", "index-entry failure: after the index file is opened, every non-nil error return is preceded by os.Remove of that entry's own name; and every os.Remove reachable from Put removes a name that the same function opened for writing (no other file is ever removed)", 2)
	ctx.Rule("P5", "first pass: a seek or copy error in the hashing pass returns before the data-file copy or the index write is attempted", 1)
	c12PutOrder(ctx, "P3")
	expectedIDReadOnly(ctx, "P7")
	truncGuard(ctx, "P8", false)
	indexNilMeansWritten(ctx, "P9")
	lookupGates(ctx, "LG")
	ctx.Rule("P6", "digests reach the variable that is compared: a hash Sum call whose result is discarded is given x[:0] of an array x of at least the digest size, so that the digest lands in x; any other argument leaves x unchanged (all zero), the 'already present' comparison can then never succeed, and every Put of present content rewrites a shared data file in place, where a failing source truncates it under the entries that share it", 2)
	for _, name := range []string{"(*Cache).put", "(*Cache).copyFile"} {
		f := ctx.Need("P6", "cache", name)
		if f == nil {
			continue
		}
		g := graph(p, f)
		k := 0
		g.Instrs(func(i ssa.Instruction) {
			c, ok := i.(*ssa.Call)
			if !ok {
				return
			}
			isSum := c.Call.IsInvoke() && c.Call.Method.Name() == "Sum"
			if !isSum && !(c.Call.StaticCallee() != nil && c.Call.StaticCallee().Name() == "Sum" && len(c.Call.Args) == 2) {
				return
			}
			used := false
			for _, r := range ssax.Referrers(c) {
				if _, dbg := r.(*ssa.DebugRef); !dbg {
					used = true
				}
			}
			k++
			key := shortFn(f) + "#sum" + itoa(k)
			if used {
				ctx.OK("P6", key, c.Pos(), "the digest returned by Sum is used directly")
				return
			}
			arg := c.Call.Args[len(c.Call.Args)-1]
			sl, isSl := arg.(*ssa.Slice)
			good := false
			if isSl {
				hi, okH := int64(-1), false
				if sl.High != nil {
					hi, okH = ssax.ConstInt(sl.High)
				}
				lowZero := sl.Low == nil
				if sl.Low != nil {
					lo, okL := ssax.ConstInt(sl.Low)
					lowZero = okL && lo == 0
				}
				if pt, okP := sl.X.Type().Underlying().(*types.Pointer); okP && okH && hi == 0 && lowZero {
					if at, okA := pt.Elem().Underlying().(*types.Array); okA && at.Len() >= 32 {
						good = true
					}
				}
			}
			ctx.Check(good, "P6", key, c.Pos(), "Sum with a discarded result appends into x[:0] of a digest-sized array (so the digest lands in x)")
		})
		if k == 0 {
			ctx.Bad("P6", shortFn(f)+"#sum", f.Pos(), "no digest computation found")
		}
	}

	cpf := ctx.Need("P1", "cache", "(*Cache).copyFile")
	put := ctx.Need("P5", "cache", "(*Cache).put")
	pidx := ctx.Need("P4", "cache", "(*Cache).putIndexEntry")
	if cpf == nil || put == nil || pidx == nil {
		return
	}

	// ---- P1 / P2 in copyFile
	{
		g := graph(p, cpf)
		src := cpf.Params[1]
		outP := cpf.Params[2]
		size := cpf.Params[3]
		opens := g.Calls("os.OpenFile")
		if len(opens) != 1 {
			ctx.Bad("P1", "cache.copyFile#open", cpf.Pos(), "expected exactly one os.OpenFile in the data-file copy, found %d", len(opens))
			return
		}
		open := opens[0]
		f := ssax.Extracted(open, 0)
		name := open.Call.Args[0]
		flags, ok := ssax.PossibleInts(open.Call.Args[1])
		appendBit := osFlag(p, "O_APPEND")
		okFlags := ok
		for _, fl := range flags {
			if fl&appendBit != 0 {
				okFlags = false
			}
		}
		ctx.Check(okFlags, "P1", "cache.copyFile#open-flags", open.Pos(), "data file opened with constant flags %v without O_APPEND", flags)
		// name = fileName(out, "d")
		nameOK := false
		if nc, ok := name.(*ssa.Call); ok && strings.HasSuffix(ssax.CalleeName(&nc.Call), ".fileName") {
			nameOK = ssax.DerivedFrom(nc.Call.Args[1], func(v ssa.Value) bool { return origin(v) == ssa.Value(outP) }, nil)
		}
		ctx.Check(nameOK, "P1", "cache.copyFile#name", open.Pos(), "data file name is derived from the expected output id")

		fm := fileMethodCalls(g, f)
		// source events
		var seek, readOne *ssa.Call
		g.Instrs(func(i ssa.Instruction) {
			c, ok := i.(*ssa.Call)
			if !ok || !c.Call.IsInvoke() || c.Call.Value != ssa.Value(src) || !g.Dominates(open, c) {
				return
			}
			switch c.Call.Method.Name() {
			case "Seek":
				seek = c
			case "Read":
				readOne = c
			}
		})
		copyN := g.Calls("io.CopyN")
		eq := digestCompares(g, open)
		var writes []*ssa.Call
		writes = append(writes, fm["Write"]...)
		writes = append(writes, fm["WriteString"]...)
		writes = append(writes, fm["WriteAt"]...)
		writes = append(writes, fm["ReadFrom"]...)
		closes := fm["Close"]
		// Close via defer does not count as the committing close
		// the success return: nil-error return dominated by the write
		var succ *ssa.Return
		for _, r := range g.Returns() {
			if ssax.IsNil(ssax.ReturnValues(r)[0]) && len(writes) == 1 && g.Dominates(writes[0], r) {
				succ = r
			}
		}
		if seek == nil || readOne == nil || len(copyN) != 1 || len(eq) != 1 || len(writes) != 1 || succ == nil {
			ctx.Bad("P1", "cache.copyFile#events", open.Pos(), "protocol events not found: seek=%v read-last-byte=%v CopyN=%d bytes.Equal=%d direct writes to file=%d success-return-after-write=%v", seek != nil, readOne != nil, len(copyN), len(eq), len(writes), succ != nil)
		} else {
			cn, w := copyN[0], writes[0]
			facts := g.FactsAtInstr(succ)
			// order
			chain := []ssa.Instruction{open, seek, cn, readOne, eq[0].instr, w}
			names := []string{"open", "seek", "CopyN", "read-last-byte", "hash-compare", "write-last-byte"}
			for k := 0; k+1 < len(chain); k++ {
				ctx.Check(g.Dominates(chain[k], chain[k+1]), "P1", "cache.copyFile#order:"+names[k]+"<"+names[k+1], chain[k+1].Pos(), "%s happens before %s on every path", names[k], names[k+1])
			}
			// seek to 0
			z1, ok1 := ssax.ConstInt(seek.Call.Args[0])
			z2, ok2 := ssax.ConstInt(seek.Call.Args[1])
			ctx.Check(ok1 && ok2 && z1 == 0 && z2 == 0, "P1", "cache.copyFile#seek0", seek.Pos(), "source rewound to offset 0 (Seek(0, io.SeekStart))")
			// CopyN length = size-1, destination includes f and a hash, source = src
			ln := cn.Call.Args[2]
			lenOK := false
			if b, ok := ln.(*ssa.BinOp); ok && b.Op == token.SUB && origin(b.X) == ssa.Value(size) {
				k, ok := ssax.ConstInt(b.Y)
				lenOK = ok && k == 1
			}
			ctx.Check(lenOK, "P1", "cache.copyFile#copy-length", cn.Pos(), "bulk copy transfers exactly size-1 bytes, leaving the committing last byte unwritten")
			var mw *ssa.Call
			ssax.DerivedFrom(cn.Call.Args[0], func(v ssa.Value) bool {
				if c, ok := v.(*ssa.Call); ok && ssax.CalleeName(&c.Call) == "io.MultiWriter" {
					mw = c
					return true
				}
				return false
			}, nil)
			var hash ssa.Value
			mwOK := false
			if mw != nil {
				el := variadicElems(mw.Call.Args[0])
				hasF := false
				for _, e := range el {
					if ssax.Strip(e) == f {
						hasF = true
					} else {
						hash = ssax.Strip(e)
					}
				}
				mwOK = hasF && hash != nil && len(el) == 2
			}
			ctx.Check(mwOK && ssax.Strip(cn.Call.Args[1]) == ssa.Value(src), "P1", "cache.copyFile#copy-dest", cn.Pos(), "bulk copy reads the source and writes to the file and to a hash together")
			// read one byte into buf of length 1; the same buf is hashed and written
			buf := readOne.Call.Args[0]
			one := false
			if ms, ok := buf.(*ssa.Slice); ok {
				if n, ok := arrayLenOfAlloc(ms); ok && n == 1 {
					one = true
				}
			}
			if mk, ok := buf.(*ssa.MakeSlice); ok {
				k, ok := ssax.ConstInt(mk.Len)
				one = ok && k == 1
			}
			ctx.Check(one && methodArg(w, 0) == buf, "P1", "cache.copyFile#last-byte", w.Pos(), "the committing write writes the one-byte buffer that was read last (one-byte buffer=%v, same buffer=%v)", one, methodArg(w, 0) == buf)
			// hash: h.Write(buf) between read and Sum; Equal(sum, out[:])
			hashed := false
			var sum *ssa.Call
			g.Instrs(func(i ssa.Instruction) {
				c, ok := i.(*ssa.Call)
				if !ok || !c.Call.IsInvoke() || hash == nil || ssax.Strip(c.Call.Value) != hash {
					return
				}
				if c.Call.Method.Name() == "Write" && c.Call.Args[0] == buf && g.Dominates(readOne, c) && g.Dominates(c, eq[0].instr) {
					hashed = true
				}
				if c.Call.Method.Name() == "Sum" && g.Dominates(readOne, c) {
					sum = c
				}
			})
			eqOK := false
			if sum != nil {
				a0, a1 := eq[0].a, eq[0].b
				isSum := func(v ssa.Value) bool {
					if v == ssa.Value(sum) {
						return true
					}
					// the array form: a load of the array that Sum appended into (x[:0])
					if ld, ok := v.(*ssa.UnOp); ok && ld.Op == token.MUL && len(sum.Call.Args) == 1 {
						if sl, ok := sum.Call.Args[0].(*ssa.Slice); ok && sl.X == ld.X && sl.High != nil && isConstIntV(0)(sl.High) && g.Dominates(sum, ld) {
							return true
						}
					}
					return false
				}
				isOut := func(v ssa.Value) bool {
					return ssax.DerivedFrom(v, func(x ssa.Value) bool { return origin(x) == ssa.Value(outP) || x == ssa.Value(outP) }, nil) || derivesFromAllocOf(v, outP)
				}
				eqOK = (isSum(a0) && isOut(a1)) || (isSum(a1) && isOut(a0))
			}
			ctx.Check(hashed && eqOK, "P1", "cache.copyFile#hash", eq[0].instr.Pos(), "the last byte is added to the running hash (%v) and the digest is compared with the expected output id (%v)", hashed, eqOK)
			// gates at the committing write
			wf := g.FactsAtInstr(w)
			gate := func(name string, ok bool) {
				ctx.Check(ok, "P1", "cache.copyFile#gate:"+name, w.Pos(), "the committing write is reachable only when %s", name)
			}
			gate("the source seek succeeded", ssax.KnownNil(wf, errOf(seek), true))
			gate("the bulk copy succeeded", ssax.KnownNil(wf, errOf(cn), true))
			gate("the last byte was read", ssax.KnownNil(wf, errOf(readOne), true))
			gate("the digest matched", eq[0].matched(wf))
			// success return gates: write err nil, close err nil
			werr := errOf(w)
			ctx.Check(werr != nil && ssax.KnownNil(facts, werr, true), "P1", "cache.copyFile#gate:write-ok", succ.Pos(), "success is returned only when the committing write succeeded")
			closeOK := false
			for _, cl := range closes {
				if ssax.KnownNil(facts, cl, true) && g.Dominates(w, cl) {
					closeOK = true
				}
			}
			ctx.Check(closeOK, "P1", "cache.copyFile#gate:close-ok", succ.Pos(), "success is returned only after a close of the file that reported no error")
			// nothing else resizes or writes: Truncate only with 0; no other writer
			for k, t := range fm["Truncate"] {
				z, ok := ssax.ConstInt(t.Call.Args[1])
				ctx.Check(ok && z == 0, "P1", "cache.copyFile#truncate"+itoa(k+1), t.Pos(), "Truncate on the data file only ever truncates to 0 (a non-zero size would make an unverified file look complete)")
			}
			for _, n := range []string{"Seek", "Sync", "Chmod"} {
				_ = n
			}
			// other escapes of f: allowed = MultiWriter element, methods above, defer Close
			for _, r := range ssax.Referrers(f) {
				switch x := r.(type) {
				case *ssa.Call:
					n := ssax.CalleeName(&x.Call)
					if strings.HasPrefix(n, "(*os.File).") {
						continue
					}
					ctx.Bad("P1", "cache.copyFile#escape", x.Pos(), "data file handed to %s: an additional writer outside the protocol", n)
				case *ssa.Defer:
					if ssax.CalleeName(&x.Call) != "(*os.File).Close" {
						ctx.Bad("P1", "cache.copyFile#escape", x.Pos(), "data file used by a deferred %s", ssax.CalleeName(&x.Call))
					}
				case *ssa.MakeInterface:
					// only as MultiWriter element
					used := false
					for _, rr := range ssax.Referrers(x) {
						if _, ok := rr.(*ssa.Store); ok {
							used = true
						}
					}
					if !used {
						ctx.Bad("P1", "cache.copyFile#escape", x.Pos(), "data file converted to an interface outside the MultiWriter")
					}
				}
			}
		}
		// ---- P2: region after the size==0 early return
		var start *ssax.Point
		for _, b := range cpf.Blocks {
			if !g.Reach[b.Index] || !g.DomBlock(open.Block().Index, b.Index) {
				continue
			}
			// first block where size != 0 is known
			if cmpFact(g.FactsAt(b.Index), token.NEQ, func(v ssa.Value) bool { return origin(v) == ssa.Value(size) }, isConstIntV(0)) {
				if start == nil || g.DomBlock(b.Index, start.Block) {
					start = &ssax.Point{Block: b.Index}
				}
			}
		}
		if start == nil {
			ctx.Bad("P2", "cache.copyFile#cleanup", open.Pos(), "no size == 0 early exit found after the open: cannot locate the start of the copy region")
		} else {
			isCleanup := func(i ssa.Instruction) bool {
				c, ok := i.(*ssa.Call)
				if !ok {
					return false
				}
				n := ssax.CalleeName(&c.Call)
				if n == "(*os.File).Truncate" && c.Call.Args[0] == f {
					z, ok := ssax.ConstInt(c.Call.Args[1])
					return ok && z == 0
				}
				if n == "os.Remove" && c.Call.Args[0] == name {
					return true
				}
				return false
			}
			exits := g.MustPass(*start, isCleanup, false)
			bad := 0
			for _, e := range exits {
				r := e.Last.(*ssa.Return)
				if ssax.IsNil(ssax.ReturnValues(r)[0]) {
					continue
				}
				bad++
				ctx.Bad("P2", "cache.copyFile#cleanup"+itoa(bad), r.Pos(), "error return reachable (path %s) without Truncate(0) or Remove of the partially written data file: a same-length file with unverified content may be left behind", ssax.TrailString(e.Trail))
			}
			if bad == 0 {
				ctx.OK("P2", "cache.copyFile#cleanup", open.Pos(), "every error return after the copy started passes Truncate(0) on the file or Remove of its name")
			}
		}
	}

	// ---- P4
	{
		g := graph(p, pidx)
		opens := g.Calls("os.OpenFile")
		if len(opens) != 1 {
			ctx.Bad("P4", "cache.putIndexEntry#open", pidx.Pos(), "expected one os.OpenFile, found %d", len(opens))
		} else {
			open := opens[0]
			name := open.Call.Args[0]
			ferr := ssax.Extracted(open, 1)
			var start *ssax.Point
			for _, b := range pidx.Blocks {
				if g.Reach[b.Index] && ssax.KnownNil(g.FactsAt(b.Index), ferr, true) {
					if start == nil || g.DomBlock(b.Index, start.Block) {
						start = &ssax.Point{Block: b.Index}
					}
				}
			}
			if start == nil {
				ctx.Bad("P4", "cache.putIndexEntry#cleanup", open.Pos(), "open error is not checked")
			} else {
				exits := g.MustPass(*start, func(i ssa.Instruction) bool {
					c, ok := i.(*ssa.Call)
					return ok && ssax.CalleeName(&c.Call) == "os.Remove" && c.Call.Args[0] == name
				}, false)
				bad := 0
				for _, e := range exits {
					r := e.Last.(*ssa.Return)
					if ssax.IsNil(ssax.ReturnValues(r)[0]) {
						continue
					}
					bad++
					ctx.Bad("P4", "cache.putIndexEntry#cleanup"+itoa(bad), r.Pos(), "error return without removing the half-written index entry (path %s)", ssax.TrailString(e.Trail))
				}
				if bad == 0 {
					ctx.OK("P4", "cache.putIndexEntry#cleanup", open.Pos(), "every error return after the index file was opened removes that entry's own file first")
				}
			}
		}
		whoRemoves(ctx, "P4")
		presentFileNotRewritten(ctx, "P10")
		putAlwaysCopies(ctx, "P11")

	}

	// ---- P5
	{
		g := graph(p, put)
		cf := g.Calls("(*" + cachePkg + ".Cache).copyFile")
		if len(cf) == 1 {
			facts := g.FactsAtInstr(cf[0])
			var seek, cp ssa.Value
			g.Instrs(func(i ssa.Instruction) {
				c, ok := i.(*ssa.Call)
				if !ok || !g.Dominates(c, cf[0]) {
					return
				}
				if c.Call.IsInvoke() && c.Call.Method.Name() == "Seek" {
					seek = errOf(c)
				}
				if ssax.CalleeName(&c.Call) == "io.Copy" {
					cp = errOf(c)
				}
			})
			ok := seek != nil && cp != nil && ssax.KnownNil(facts, seek, true) && ssax.KnownNil(facts, cp, true)
			ctx.Check(ok, "P5", "cache.put#first-pass", cf[0].Pos(), "the data-file copy starts only after the hashing pass's seek and copy both succeeded")
		} else {
			ctx.Bad("P5", "cache.put#first-pass", put.Pos(), "copyFile call not found")
		}
	}
}

func arrayLenOfAlloc(s *ssa.Slice) (int64, bool) {
	al, ok := s.X.(*ssa.Alloc)
	if !ok {
		return 0, false
	}
	return constArrayLenT(al.Type())
}

func constArrayLenT(t interface{ String() string }) (int64, bool) {
	// "*[1]byte"
	s := t.String()
	if !strings.HasPrefix(s, "*[") {
		return 0, false
	}
	e := strings.Index(s, "]")
	var n int64
	for _, ch := range s[2:e] {
		if ch < '0' || ch > '9' {
			return 0, false
		}
		n = n*10 + int64(ch-'0')
	}
	return n, true
}

// derivesFromAllocOf: v is a slice of the local that holds parameter par.
func derivesFromAllocOf(v ssa.Value, par ssa.Value) bool {
	sl, ok := v.(*ssa.Slice)
	if !ok {
		return false
	}
	al, ok := sl.X.(*ssa.Alloc)
	if !ok {
		return false
	}
	for _, r := range ssax.Referrers(al) {
		if st, ok := r.(*ssa.Store); ok && st.Addr == ssa.Value(al) && st.Val == par {
			return true
		}
	}
	return false
}

// sameLocal: both values are loads of the same local variable (go/ssa has no
// CSE, so two reads of one variable are distinct values).
func sameLocal(a, b ssa.Value) bool {
	la := func(v ssa.Value) *ssa.Alloc {
		for {
			if ct, ok := v.(*ssa.ChangeType); ok {
				v = ct.X
				continue
			}
			break
		}
		u, ok := v.(*ssa.UnOp)
		if !ok || u.Op != token.MUL {
			return nil
		}
		al, _ := u.X.(*ssa.Alloc)
		return al
	}
	x, y := la(a), la(b)
	return x != nil && x == y
}

// whoRemoves: every os.Remove/Rename reachable from Put removes a name that the
// same function has itself opened successfully before (C12.P4, also C11.R9).
func whoRemoves(ctx *core.Ctx, rule string) {
	p := ctx.P
	// who removes what, over everything reachable from Put
	Put := p.Func("cache", "(*Cache).Put")
	n := 0
	for _, f := range reachableMod(p, []*ssa.Function{Put}, func(f *ssa.Function) bool {
		return f.Pkg != nil && f.Pkg != p.Pkg("cache")
	}) {
		fg := graph(p, f)
		opens := fg.Calls("os.OpenFile", "os.Create")
		for _, c := range fg.Calls("os.Remove", "os.RemoveAll", "os.Rename") {
			n++
			ok := false
			for _, o := range opens {
				// the same name, and only once this function has itself opened it successfully:
				// before that the file on disk is somebody else's (possibly a valid shared output)
				if c.Call.Args[0] == o.Call.Args[0] && fg.Dominates(o, c) && ssax.KnownNil(fg.FactsAtInstr(c), ssax.Extracted(o, 1), true) {
					ok = true
				}
			}
			ctx.Check(ok, rule, fmt.Sprintf("%s#remove%d", shortFn(f), n), c.Pos(), "%s reachable from Put removes only a file this function itself opened for writing (a removal of any other name can make an unrelated entry unreadable)", ssax.CalleeName(&c.Call))
		}
	}
}

// digestCmp is a comparison of a computed digest with the expected output id: bytes.Equal of the
// two, or (in)equality of two digest-sized arrays.
type digestCmp struct {
	instr   ssa.Instruction
	val     ssa.Value
	negated bool      // the instruction is a != comparison
	a, b    ssa.Value // operands (for bytes.Equal: the two slices; for arrays: the two array values)
	isArray bool
}

func (d digestCmp) matched(facts []ssax.Fact) bool {
	return hasFact(facts, !d.negated, isVal(d.val))
}

// digestCompares lists the digest comparisons of a function that come after instruction `after`.
func digestCompares(g *ssax.Graph, after ssa.Instruction) []digestCmp {
	var out []digestCmp
	g.Instrs(func(i ssa.Instruction) {
		if after != nil && !g.Dominates(after, i) {
			return
		}
		switch x := i.(type) {
		case *ssa.Call:
			if ssax.CalleeName(&x.Call) == "bytes.Equal" && len(x.Call.Args) == 2 {
				out = append(out, digestCmp{instr: x, val: x, a: x.Call.Args[0], b: x.Call.Args[1]})
			}
		case *ssa.BinOp:
			if x.Op != token.EQL && x.Op != token.NEQ {
				return
			}
			at, ok := x.X.Type().Underlying().(*types.Array)
			if !ok || at.Len() < 20 {
				return
			}
			out = append(out, digestCmp{instr: x, val: x, negated: x.Op == token.NEQ, a: x.X, b: x.Y, isArray: true})
		}
	})
	return out
}
