package rules

import (
	"go/token"
	"go/types"
	"strings"

	"golang.org/x/tools/go/ssa"

	"verif/checker/boundx"
	"verif/checker/core"
	"verif/checker/ssax"
)

func init() { Registry["C19"] = Spec{Run: runC19, Packages: []string{"imports"}} }

func isTagMap(t types.Type) bool {
	m, ok := t.Underlying().(*types.Map)
	if !ok {
		return false
	}
	k, ok1 := m.Key().Underlying().(*types.Basic)
	e, ok2 := m.Elem().Underlying().(*types.Basic)
	return ok1 && ok2 && k.Kind() == types.String && e.Kind() == types.Bool
}

func runC19(ctx *core.Ctx) {
	ctx.Trusted = append(ctx.Trusted, "go/types, go/ssa", "strings.Fields returns only non-empty fields (so a line that starts with '+' has a non-empty first field)", "unicode.IsLetter/IsDigit, strings.* are total")
	ctx.Rule("B1", "one interpreter of the tag set: in package imports a tags parameter (map[string]bool) is indexed with a non-constant key only inside the single function that implements the android=>linux and '*' rules (the function that reads tags[\"android\"]); constant-key reads are exempt", 1)
	ctx.Rule("B2", "mechanisms present in that function: every 'return true' short-circuit is dominated by tags[\"*\"], name != \"\" and name != \"ignore\"; tags[\"android\"] is consulted exactly under name == \"linux\" and flows into the result, which is compared with the wanted polarity; a character outside letters/digits/_/. returns false before the polarity is looked at", 4)
	ctx.Rule("B3", "combinators: in the term evaluator a comma yields the conjunction of the two recursive results, '!!' is false, '!x' calls the tag interpreter on x (non-empty) with want=false, a plain term with want=true; in ShouldBuild the line verdict becomes true only under a successful term match and the overall verdict only ever changes to false, and only when a +build line had no matching term", 6)
	ctx.Rule("B4", "totality of ShouldBuild and MatchFile (bounds engine)", 20)
	p := ctx.P
	sp := p.Pkg("imports")
	if sp == nil {
		ctx.Unknown("B1", "imports", token.NoPos, "package imports not loaded")
		return
	}
	var fns []*ssa.Function
	for _, f := range p.ModFuncs() {
		top := f
		for top.Parent() != nil {
			top = top.Parent()
		}
		if top.Pkg == sp {
			fns = append(fns, f)
		}
	}
	// F*: function with Lookup(param, "android")
	var interp *ssa.Function
	type lk struct {
		f *ssa.Function
		l *ssa.Lookup
	}
	var dyn []lk
	for _, f := range fns {
		graph(p, f).Instrs(func(i ssa.Instruction) {
			l, ok := i.(*ssa.Lookup)
			if !ok || !isTagMap(l.X.Type()) {
				return
			}
			if _, isParam := l.X.(*ssa.Parameter); !isParam {
				return
			}
			if s, ok := ssax.ConstString(l.Index); ok {
				if s == "android" {
					interp = f
				}
				return
			}
			dyn = append(dyn, lk{f, l})
		})
	}
	if interp == nil {
		ctx.Bad("B1", "imports#interpreter", sp.Func("MatchFile").Pos(), "no function in package imports reads tags[\"android\"]: the android=>linux rule is not implemented anywhere")
		return
	}
	ctx.Seen(interp)
	n := map[*ssa.Function]int{}
	bad := false
	for _, d := range dyn {
		if d.f == interp {
			continue
		}
		n[d.f]++
		bad = true
		ctx.Bad("B1", shortFn(d.f)+"#tags-index"+itoa(n[d.f]), d.l.Pos(), "%s indexes the tag set directly with a computed key, bypassing %s: the android=>linux, '*' and 'ignore' rules do not apply to this read", shortFn(d.f), shortFn(interp))
	}
	if !bad {
		ctx.OK("B1", "imports#single-interpreter", interp.Pos(), "all %d computed-key reads of a tags parameter are inside %s", len(dyn), shortFn(interp))
	}
	// both public entry points must reach the interpreter
	for _, name := range []string{"ShouldBuild", "MatchFile"} {
		e := ctx.Need("B1", "imports", name)
		if e == nil {
			continue
		}
		reach := false
		for _, f := range reachableMod(p, []*ssa.Function{e}, nil) {
			if f == interp {
				reach = true
			}
		}
		ctx.Check(reach, "B1", "imports."+name+"#reaches-interpreter", e.Pos(), "%s reaches %s: %v", name, shortFn(interp), reach)
	}

	// ---- B2
	g := graph(p, interp)
	var nameP, tagsP, wantP *ssa.Parameter
	for _, par := range interp.Params {
		switch {
		case isTagMap(par.Type()):
			tagsP = par
		case isSeqT(par.Type()):
			nameP = par
		default:
			wantP = par
		}
	}
	if nameP == nil || tagsP == nil || wantP == nil {
		ctx.Unknown("B2", shortFn(interp), interp.Pos(), "interpreter signature not (name string, tags map[string]bool, want bool)")
	} else {
		star := func(v ssa.Value) bool {
			l, ok := v.(*ssa.Lookup)
			if !ok || l.X != ssa.Value(tagsP) {
				return false
			}
			s, ok := ssax.ConstString(l.Index)
			return ok && s == "*"
		}
		nt, nf := 0, 0
		for _, r := range g.Returns() {
			k, isConst := ssax.ConstBool(r.Results[0])
			facts := g.FactsAtInstr(r)
			switch {
			case isConst && k:
				nt++
				var miss []string
				if !hasFact(facts, true, star) {
					miss = append(miss, `tags["*"]`)
				}
				if !cmpFact(facts, token.NEQ, isVal(nameP), isConstStr("")) {
					miss = append(miss, `name != ""`)
				}
				if !cmpFact(facts, token.NEQ, isVal(nameP), isConstStr("ignore")) {
					miss = append(miss, `name != "ignore"`)
				}
				if len(miss) == 0 {
					ctx.OK("B2", shortFn(interp)+"#return-true"+itoa(nt), r.Pos(), "unconditional true only under tags[\"*\"] with name neither empty nor \"ignore\"")
				} else {
					ctx.Bad("B2", shortFn(interp)+"#return-true"+itoa(nt), r.Pos(), "returns true regardless of polarity without %v", miss)
				}
			case isConst && !k:
				nf++
				// invalid character: facts must show the rune failed all four tests
				rs := hasFact(facts, false, isCallOf([]string{"unicode.IsLetter"})) && hasFact(facts, false, isCallOf([]string{"unicode.IsDigit"})) &&
					cmpFact(facts, token.NEQ, anyVal, isConstIntV('_')) && cmpFact(facts, token.NEQ, anyVal, isConstIntV('.'))
				if rs {
					ctx.OK("B2", shortFn(interp)+"#invalid-char", r.Pos(), "a rune that is no letter, digit, '_' or '.' yields false for either polarity")
				} else {
					ctx.Note("B2", shortFn(interp)+"#return-false"+itoa(nf), r.Pos(), "constant false return not classified")
				}
			default:
				// the comparison with want
				b, ok := r.Results[0].(*ssa.BinOp)
				okCmp := ok && b.Op == token.EQL && (b.X == ssa.Value(wantP) || b.Y == ssa.Value(wantP))
				var have ssa.Value
				if okCmp {
					have = b.X
					if have == ssa.Value(wantP) {
						have = b.Y
					}
				}
				ctx.Check(okCmp, "B2", shortFn(interp)+"#polarity", r.Pos(), "result is (have == want)")
				if okCmp {
					// have derives from tags[name] and, under name=="linux", tags["android"]
					var android *ssa.Lookup
					dynRead := false
					ssax.DerivedFrom(have, func(v ssa.Value) bool {
						if l, ok := v.(*ssa.Lookup); ok && l.X == ssa.Value(tagsP) {
							if s, ok := ssax.ConstString(l.Index); ok && s == "android" {
								android = l
							} else if l.Index == ssa.Value(nameP) {
								dynRead = true
							}
						}
						return false
					}, nil)
					ctx.Check(dynRead, "B2", shortFn(interp)+"#have-tags-name", r.Pos(), "have derives from tags[name]")
					if android == nil {
						ctx.Bad("B2", shortFn(interp)+"#android", r.Pos(), "tags[\"android\"] does not flow into the result")
					} else {
						af := g.FactsAtInstr(android)
						ctx.Check(cmpFact(af, token.EQL, isVal(nameP), isConstStr("linux")), "B2", shortFn(interp)+"#android", android.Pos(), "tags[\"android\"] consulted exactly under name == \"linux\"")
						// it must be a disjunction: have = tags[name] || tags["android"]
						e := boolOf(phiLeafFor(have, android))
						ctx.Check(e.Op == "or", "B2", shortFn(interp)+"#android-or", android.Pos(), "android is OR-ed with the linux tag (found %s)", e.Op)
					}
				}
			}
		}
		if nt == 0 {
			ctx.Bad("B2", shortFn(interp)+"#star", interp.Pos(), "no '*' short-circuit found")
		}
	}

	// ---- B3: term evaluator = the caller(s) of interp
	var evals []*ssa.Function
	for _, f := range fns {
		if f == interp {
			continue
		}
		for _, c := range graph(p, f).Calls(ssax.FuncName(interp)) {
			_ = c
			if len(evals) == 0 || evals[len(evals)-1] != f {
				evals = append(evals, f)
			}
		}
	}
	// the term evaluator is the caller that handles negation (passes want=false);
	// other callers (the file-name rule) must ask with positive polarity.
	var termEvals []*ssa.Function
	for _, ev := range evals {
		neg := false
		for _, c := range graph(p, ev).Calls(ssax.FuncName(interp)) {
			if k, ok := ssax.ConstBool(c.Call.Args[2]); !ok || !k {
				neg = true
			}
		}
		if neg {
			termEvals = append(termEvals, ev)
			continue
		}
		ctx.Seen(ev)
		for k, c := range graph(p, ev).Calls(ssax.FuncName(interp)) {
			ctx.OK("B3", shortFn(ev)+"#positive-call"+itoa(k+1), c.Pos(), "asks the tag interpreter with want=true")
		}
	}
	evals = termEvals
	for _, ev := range evals {
		eg := graph(p, ev)
		ctx.Seen(ev)
		if len(ev.Params) < 1 || !isSeqT(ev.Params[0].Type()) {
			ctx.Note("B3", shortFn(ev), ev.Pos(), "caller of the interpreter without a leading string parameter")
			continue
		}
		nm := ev.Params[0]
		bang := func(s string) func(ssa.Value) bool {
			return isCallOf([]string{"strings.HasPrefix"}, isVal(nm), isConstStr(s))
		}
		k := 0
		for _, c := range eg.Calls(ssax.FuncName(interp)) {
			k++
			facts := eg.FactsAtInstr(c)
			want, isConst := ssax.ConstBool(c.Call.Args[2])
			key := shortFn(ev) + "#interp-call" + itoa(k)
			if !isConst {
				ctx.Bad("B3", key, c.Pos(), "polarity argument is not a constant")
				continue
			}
			if hasFact(facts, true, bang("!!")) {
				ctx.Bad("B3", key, c.Pos(), "interpreter reached for a term starting with \"!!\"")
				continue
			}
			if want {
				okArg := c.Call.Args[0] == ssa.Value(nm)
				okFact := hasFact(facts, false, bang("!"))
				ctx.Check(okArg && okFact, "B3", key, c.Pos(), "want=true call: whole term (%v) and only when it does not start with '!' (%v)", okArg, okFact)
			} else {
				sl, ok := c.Call.Args[0].(*ssa.Slice)
				okArg := ok && sl.X == ssa.Value(nm) && sl.High == nil && isConstIntV(1)(orZero(sl.Low))
				okFact := hasFact(facts, true, bang("!"))
				nonEmpty := cmpFact(facts, token.GTR, isLenOf(nm), isConstIntV(1)) || cmpFact(facts, token.GEQ, isLenOf(nm), isConstIntV(2))
				ctx.Check(okArg && okFact && nonEmpty, "B3", key, c.Pos(), "want=false call: term without its '!' (%v), only when it starts with '!' (%v) and is longer than \"!\" (%v)", okArg, okFact, nonEmpty)
			}
		}
		// '!!' => false, "" => false
		sawBangBang, sawEmpty := false, false
		for _, r := range eg.Returns() {
			if kk, ok := ssax.ConstBool(r.Results[0]); ok && !kk {
				f := eg.FactsAtInstr(r)
				if hasFact(f, true, bang("!!")) {
					sawBangBang = true
				}
				if cmpFact(f, token.EQL, isVal(nm), isConstStr("")) {
					sawEmpty = true
				}
			}
		}
		ctx.Check(sawBangBang, "B3", shortFn(ev)+"#bangbang", ev.Pos(), "a term starting with \"!!\" returns false")
		ctx.Check(sawEmpty, "B3", shortFn(ev)+"#empty", ev.Pos(), "the empty term returns false")
		// comma => conjunction of the two recursive calls
		commaOK := false
		for _, r := range eg.Returns() {
			f := eg.FactsAtInstr(r)
			idxCall := func(v ssa.Value) bool {
				return isCallOf([]string{"strings.Index", "strings.IndexByte"}, isVal(nm), nil)(v)
			}
			if !cmpFact(f, token.GEQ, idxCall, isConstIntV(0)) {
				continue
			}
			e := boolOf(r.Results[0])
			if e.Op != "and" || len(e.Args) != 2 {
				ctx.Bad("B3", shortFn(ev)+"#comma", r.Pos(), "comma-separated terms are combined with %q, not a two-way AND", e.Op)
				commaOK = true
				continue
			}
			rec := 0
			lows, highs := 0, 0
			for _, a := range e.atoms() {
				c, ok := a.(*ssa.Call)
				if ok && c.Call.StaticCallee() == ev {
					rec++
					if sl, ok := c.Call.Args[0].(*ssa.Slice); ok && sl.X == ssa.Value(nm) {
						if sl.Low == nil && sl.High != nil {
							highs++
						}
						if sl.Low != nil && sl.High == nil {
							lows++
						}
					}
				}
			}
			ctx.Check(rec == 2 && lows == 1 && highs == 1, "B3", shortFn(ev)+"#comma", r.Pos(), "comma => AND of the evaluator applied to the part before and the part after the comma")
			commaOK = true
		}
		if !commaOK {
			ctx.Bad("B3", shortFn(ev)+"#comma", ev.Pos(), "no comma handling found in the term evaluator")
		}
	}
	if len(evals) == 0 {
		ctx.Bad("B3", "imports#evaluator", interp.Pos(), "no caller of the tag interpreter found")
	}
	// ShouldBuild verdict webs
	if sb := ctx.Need("B3", "imports", "ShouldBuild"); sb != nil {
		sg := graph(p, sb)
		for _, r := range sg.Returns() {
			phis, leaves := phiWeb(r.Results[0])
			if len(phis) == 0 {
				ctx.Bad("B3", "imports.ShouldBuild#verdict", r.Pos(), "verdict is not a loop-carried boolean")
				continue
			}
			okAll := true
			why := ""
			var okWebVal ssa.Value
			for _, l := range leaves {
				k, isConst := ssax.ConstBool(l.Val)
				if !isConst {
					okAll, why = false, "verdict receives a non-constant value"
					continue
				}
				if k {
					// only as the initial value: the edge must come from outside every loop containing the phi,
					// i.e. the pred block is not dominated by the phi's block
					if sg.DomBlock(l.Phi.Block().Index, l.Pred.Index) {
						okAll, why = false, "verdict is set back to true inside the loop"
					}
					continue
				}
				// false leaf: needs a fact "<line verdict> == false"
				found := false
				for _, f := range factsOnEdge(sg, l.Pred, l.Phi.Block()) {
					if _, isPhi := f.Cond.(*ssa.Phi); isPhi && !f.Val {
						found = true
						okWebVal = f.Cond
					}
				}
				if !found {
					okAll, why = false, "verdict set to false without the line verdict being false"
				}
			}
			ctx.Check(okAll, "B3", "imports.ShouldBuild#verdict", r.Pos(), "overall verdict starts true and only ever becomes false when a line verdict is false %s", why)
			if okWebVal != nil {
				_, ll := phiWeb(okWebVal)
				lineOK := true
				lwhy := ""
				for _, l := range ll {
					k, isConst := ssax.ConstBool(l.Val)
					if !isConst {
						lineOK, lwhy = false, "line verdict receives a non-constant"
						continue
					}
					if !k {
						continue
					}
					found := false
					for _, f := range factsOnEdge(sg, l.Pred, l.Phi.Block()) {
						if c, ok := f.Cond.(*ssa.Call); ok && f.Val {
							for _, ev := range evals {
								if c.Call.StaticCallee() == ev {
									found = true
								}
							}
						}
					}
					if !found {
						lineOK, lwhy = false, "line verdict set to true without a successful term match"
					}
				}
				ctx.Check(lineOK, "B3", "imports.ShouldBuild#line-verdict", okWebVal.Pos(), "a +build line is satisfied only by a matching term (OR over its terms) %s", lwhy)
				// the line verdict starts false for every +build line: each false leaf arrives under the '+build' test
				resetOK := false
				for _, l := range ll {
					if k, isConst := ssax.ConstBool(l.Val); isConst && !k {
						if cmpFact(factsOnEdge(sg, l.Pred, l.Phi.Block()), token.EQL, anyVal, isConstStr("+build")) {
							resetOK = true
						} else {
							resetOK = false
							break
						}
					}
				}
				ctx.Check(resetOK, "B3", "imports.ShouldBuild#line-verdict-reset", okWebVal.Pos(), "the line verdict is reset to false for each +build line (otherwise one satisfied line satisfies all later ones and lines are no longer ANDed)")
			}
		}
	}

	// ---- B4
	var entries []*ssa.Function
	for _, name := range []string{"ShouldBuild", "MatchFile"} {
		if f := p.Func("imports", name); f != nil {
			entries = append(entries, f)
		}
	}
	totality(ctx, entries, totalOpts{rule: "B4", assume: func(fn *ssa.Function, s boundx.Site) string {
		// f := strings.Fields(string(line)) with line[0] == '+' known
		var seq ssa.Value
		switch x := s.Instr.(type) {
		case *ssa.IndexAddr:
			seq = x.X
		case *ssa.Slice:
			seq = x.X
		}
		if c, ok := seq.(*ssa.Call); ok && ssax.CalleeName(&c.Call) == "strings.Fields" {
			facts := graph(p, fn).FactsAtInstr(s.Instr)
			if cmpFact(facts, token.EQL, func(v ssa.Value) bool {
				u, ok := v.(*ssa.UnOp)
				if !ok {
					return false
				}
				_, ok = u.X.(*ssa.IndexAddr)
				return ok
			}, isConstIntV('+')) {
				return "strings.Fields of a string whose first byte is '+' (a non-space) returns at least one field"
			}
		}
		return ""
	}})
	// informational: lists vs GOROOT
	_ = strings.Fields
}

func orZero(v ssa.Value) ssa.Value {
	if v == nil {
		return ssa.NewConst(nil, types.Typ[types.Int])
	}
	return v
}

// phiLeafFor walks phis from v to the value whose formula contains target.
func phiLeafFor(v ssa.Value, target ssa.Value) ssa.Value {
	seen := map[ssa.Value]bool{}
	var rec func(v ssa.Value) ssa.Value
	rec = func(v ssa.Value) ssa.Value {
		if seen[v] {
			return nil
		}
		seen[v] = true
		if p, ok := v.(*ssa.Phi); ok {
			for _, e := range p.Edges {
				if e == target {
					return v
				}
			}
			for _, e := range p.Edges {
				if r := rec(e); r != nil {
					return r
				}
			}
		}
		return nil
	}
	if r := rec(v); r != nil {
		return r
	}
	return v
}
