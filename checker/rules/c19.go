package rules

import (
	"go/ast"
	"go/constant"
	"go/parser"
	"go/token"
	"go/types"
	"os/exec"
	"path/filepath"
	"runtime"
	"sort"
	"strconv"
	"strings"

	"golang.org/x/tools/go/ssa"

	"verif/checker/boundx"
	"verif/checker/core"
	"verif/checker/ssax"
)

func init() { Registry["C19"] = Spec{Run: runC19, Packages: []string{"imports"}} }

func isTagMap(t types.Type) bool {
	m, ok := t.Underlying().(*types.Map)
	if !ok {
		return false
	}
	k, ok1 := m.Key().Underlying().(*types.Basic)
	e, ok2 := m.Elem().Underlying().(*types.Basic)
	return ok1 && ok2 && k.Kind() == types.String && e.Kind() == types.Bool
}

func runC19(ctx *core.Ctx) {
	c19Round6(ctx)
	c19Round5(ctx)
	ctx.Trusted = append(ctx.Trusted, "go/types, go/ssa", "strings.Fields returns only non-empty fields (so a line that starts with '+' has a non-empty first field)", "unicode.IsLetter/IsDigit, strings.* are total")
	ctx.Rule("B1", "one interpreter of the tag set: in package imports a tags parameter (map[string]bool) is indexed with a non-constant key only inside the single function that implements the android=>linux and '*' rules (the function that reads tags[\"android\"]); constant-key reads are exempt", 1)
	ctx.Rule("B2", "mechanisms present in that function: every 'return true' short-circuit is dominated by tags[\"*\"], name != \"\" and name != \"ignore\"; tags[\"android\"] is consulted exactly under name == \"linux\" and flows into the result, which is compared with the wanted polarity; a character outside letters/digits/_/. returns false before the polarity is looked at", 4)
	ctx.Rule("B3", "combinators: in the term evaluator a comma yields the conjunction of the two recursive results, '!!' is false, '!x' calls the tag interpreter on x (non-empty) with want=false, a plain term with want=true; in ShouldBuild the line verdict becomes true only under a successful term match and the overall verdict only ever changes to false, and only when a +build line had no matching term", 6)
	ctx.Rule("B5", "known-name tables: the OS and architecture list constants contain every name of the reference lists (those of the pinned tree), no duplicates, and nothing beyond them that the toolchain's go/build does not list as known; KnownOS and KnownArch are filled from the fields of these constants", 4)
	ctx.Rule("B6", "the file name is cut at its first dot (no LastIndex-derived cut)", 0)
	ctx.Rule("B7", "blank lines are recognised after removing white space on both sides", 1)
	ctx.Rule("B4", "totality of ShouldBuild and MatchFile (bounds engine)", 1)
	p := ctx.P
	sp := p.Pkg("imports")
	if sp == nil {
		ctx.Unknown("B1", "imports", token.NoPos, "package imports not loaded")
		return
	}
	var fns []*ssa.Function
	for _, f := range p.ModFuncs() {
		top := f
		for top.Parent() != nil {
			top = top.Parent()
		}
		if top.Pkg == sp {
			fns = append(fns, f)
		}
	}
	// F*: function with Lookup(param, "android")
	var interp *ssa.Function
	type lk struct {
		f *ssa.Function
		l *ssa.Lookup
	}
	var dyn []lk
	for _, f := range fns {
		graph(p, f).Instrs(func(i ssa.Instruction) {
			l, ok := i.(*ssa.Lookup)
			if !ok || !isTagMap(l.X.Type()) {
				return
			}
			if _, isParam := l.X.(*ssa.Parameter); !isParam {
				return
			}
			if s, ok := ssax.ConstString(l.Index); ok {
				if s == "android" {
					interp = f
				}
				return
			}
			dyn = append(dyn, lk{f, l})
		})
	}
	if interp == nil {
		ctx.Bad("B1", "imports#interpreter", sp.Func("MatchFile").Pos(), "no function in package imports reads tags[\"android\"]: the android=>linux rule is not implemented anywhere")
		return
	}
	ctx.Seen(interp)
	n := map[*ssa.Function]int{}
	bad := false
	for _, d := range dyn {
		if d.f == interp {
			continue
		}
		n[d.f]++
		bad = true
		ctx.Bad("B1", shortFn(d.f)+"#tags-index"+itoa(n[d.f]), d.l.Pos(), "%s indexes the tag set directly with a computed key, bypassing %s: the android=>linux, '*' and 'ignore' rules do not apply to this read", shortFn(d.f), shortFn(interp))
	}
	if !bad {
		ctx.OK("B1", "imports#single-interpreter", interp.Pos(), "all %d computed-key reads of a tags parameter are inside %s", len(dyn), shortFn(interp))
	}
	// both public entry points must reach the interpreter
	for _, name := range []string{"ShouldBuild", "MatchFile"} {
		e := ctx.Need("B1", "imports", name)
		if e == nil {
			continue
		}
		reach := false
		for _, f := range reachableMod(p, []*ssa.Function{e}, nil) {
			if f == interp {
				reach = true
			}
		}
		ctx.Check(reach, "B1", "imports."+name+"#reaches-interpreter", e.Pos(), "%s reaches %s: %v", name, shortFn(interp), reach)
	}

	// ---- B2
	g := graph(p, interp)
	var nameP, tagsP, wantP *ssa.Parameter
	for _, par := range interp.Params {
		switch {
		case isTagMap(par.Type()):
			tagsP = par
		case isSeqT(par.Type()):
			nameP = par
		default:
			wantP = par
		}
	}
	if nameP == nil || tagsP == nil || wantP == nil {
		ctx.Unknown("B2", shortFn(interp), interp.Pos(), "interpreter signature not (name string, tags map[string]bool, want bool)")
	} else {
		star := func(v ssa.Value) bool {
			l, ok := v.(*ssa.Lookup)
			if !ok || l.X != ssa.Value(tagsP) {
				return false
			}
			s, ok := ssax.ConstString(l.Index)
			return ok && s == "*"
		}
		nt, nf := 0, 0
		for _, r := range g.Returns() {
			k, isConst := ssax.ConstBool(r.Results[0])
			facts := g.FactsAtInstr(r)
			switch {
			case isConst && k:
				nt++
				var miss []string
				if !hasFact(facts, true, star) {
					miss = append(miss, `tags["*"]`)
				}
				if !cmpFact(facts, token.NEQ, isVal(nameP), isConstStr("")) {
					miss = append(miss, `name != ""`)
				}
				if !cmpFact(facts, token.NEQ, isVal(nameP), isConstStr("ignore")) {
					miss = append(miss, `name != "ignore"`)
				}
				if len(miss) == 0 {
					ctx.OK("B2", shortFn(interp)+"#return-true"+itoa(nt), r.Pos(), "unconditional true only under tags[\"*\"] with name neither empty nor \"ignore\"")
				} else {
					ctx.Bad("B2", shortFn(interp)+"#return-true"+itoa(nt), r.Pos(), "returns true regardless of polarity without %v", miss)
				}
			case isConst && !k:
				nf++
				// invalid character: facts must show the rune failed all four tests
				rs := hasFact(facts, false, isCallOf([]string{"unicode.IsLetter"})) && hasFact(facts, false, isCallOf([]string{"unicode.IsDigit"})) &&
					cmpFact(facts, token.NEQ, anyVal, isConstIntV('_')) && cmpFact(facts, token.NEQ, anyVal, isConstIntV('.'))
				if rs {
					ctx.OK("B2", shortFn(interp)+"#invalid-char", r.Pos(), "a rune that is no letter, digit, '_' or '.' yields false for either polarity")
				} else {
					ctx.Note("B2", shortFn(interp)+"#return-false"+itoa(nf), r.Pos(), "constant false return not classified")
				}
			default:
				// the comparison with want
				b, ok := r.Results[0].(*ssa.BinOp)
				okCmp := ok && b.Op == token.EQL && (b.X == ssa.Value(wantP) || b.Y == ssa.Value(wantP))
				var have ssa.Value
				if okCmp {
					have = b.X
					if have == ssa.Value(wantP) {
						have = b.Y
					}
				}
				ctx.Check(okCmp, "B2", shortFn(interp)+"#polarity", r.Pos(), "result is (have == want)")
				if okCmp {
					// have derives from tags[name] and, under name=="linux", tags["android"]
					var android *ssa.Lookup
					dynRead := false
					ssax.DerivedFrom(have, func(v ssa.Value) bool {
						if l, ok := v.(*ssa.Lookup); ok && l.X == ssa.Value(tagsP) {
							if s, ok := ssax.ConstString(l.Index); ok && s == "android" {
								android = l
							} else if l.Index == ssa.Value(nameP) {
								dynRead = true
							}
						}
						return false
					}, nil)
					ctx.Check(dynRead, "B2", shortFn(interp)+"#have-tags-name", r.Pos(), "have derives from tags[name]")
					if android == nil {
						ctx.Bad("B2", shortFn(interp)+"#android", r.Pos(), "tags[\"android\"] does not flow into the result")
					} else {
						af := g.FactsAtInstr(android)
						ctx.Check(cmpFact(af, token.EQL, isVal(nameP), isConstStr("linux")), "B2", shortFn(interp)+"#android", android.Pos(), "tags[\"android\"] consulted exactly under name == \"linux\"")
						// it must be a disjunction: have = tags[name] || tags["android"]
						e := boolOf(phiLeafFor(have, android))
						ctx.Check(e.Op == "or", "B2", shortFn(interp)+"#android-or", android.Pos(), "android is OR-ed with the linux tag (found %s)", e.Op)
					}
				}
			}
		}
		if nt == 0 {
			ctx.Bad("B2", shortFn(interp)+"#star", interp.Pos(), "no '*' short-circuit found")
		}
	}

	// ---- B3: term evaluator = the caller(s) of interp
	var evals []*ssa.Function
	for _, f := range fns {
		if f == interp {
			continue
		}
		for _, c := range graph(p, f).Calls(ssax.FuncName(interp)) {
			_ = c
			if len(evals) == 0 || evals[len(evals)-1] != f {
				evals = append(evals, f)
			}
		}
	}
	// the term evaluator is the caller that handles negation (passes want=false);
	// other callers (the file-name rule) must ask with positive polarity.
	var termEvals []*ssa.Function
	for _, ev := range evals {
		neg := false
		for _, c := range graph(p, ev).Calls(ssax.FuncName(interp)) {
			if k, ok := ssax.ConstBool(c.Call.Args[2]); !ok || !k {
				neg = true
			}
		}
		if neg {
			termEvals = append(termEvals, ev)
			continue
		}
		ctx.Seen(ev)
		for k, c := range graph(p, ev).Calls(ssax.FuncName(interp)) {
			ctx.OK("B3", shortFn(ev)+"#positive-call"+itoa(k+1), c.Pos(), "asks the tag interpreter with want=true")
		}
	}
	evals = termEvals
	for _, ev := range evals {
		eg := graph(p, ev)
		ctx.Seen(ev)
		if len(ev.Params) < 1 || !isSeqT(ev.Params[0].Type()) {
			ctx.Note("B3", shortFn(ev), ev.Pos(), "caller of the interpreter without a leading string parameter")
			continue
		}
		nm := ev.Params[0]
		// "the term starts with s": HasPrefix(term, s) or the found result of CutPrefix(term, s)
		bang := func(s string) func(ssa.Value) bool {
			return func(v ssa.Value) bool {
				x, k, ok := hasPrefixTest(v)
				return ok && x == ssa.Value(nm) && k == s
			}
		}
		k := 0
		for _, c := range eg.Calls(ssax.FuncName(interp)) {
			k++
			facts := eg.FactsAtInstr(c)
			want, isConst := ssax.ConstBool(c.Call.Args[2])
			key := shortFn(ev) + "#interp-call" + itoa(k)
			if !isConst {
				ctx.Bad("B3", key, c.Pos(), "polarity argument is not a constant")
				continue
			}
			if hasFact(facts, true, bang("!!")) {
				ctx.Bad("B3", key, c.Pos(), "interpreter reached for a term starting with \"!!\"")
				continue
			}
			if want {
				okArg := c.Call.Args[0] == ssa.Value(nm)
				okFact := hasFact(facts, false, bang("!"))
				ctx.Check(okArg && okFact, "B3", key, c.Pos(), "want=true call: whole term (%v) and only when it does not start with '!' (%v)", okArg, okFact)
			} else {
				arg := c.Call.Args[0]
				wx, wn, ok := withoutPrefix(arg)
				okArg := ok && wx == ssa.Value(nm) && wn == 1
				okFact := hasFact(facts, true, bang("!"))
				nonEmpty := cmpFact(facts, token.GTR, isLenOf(nm), isConstIntV(1)) || cmpFact(facts, token.GEQ, isLenOf(nm), isConstIntV(2)) ||
					cmpFact(facts, token.NEQ, isVal(arg), isConstStr("")) || cmpFact(facts, token.GTR, isLenOf(arg), isConstIntV(0)) || cmpFact(facts, token.GEQ, isLenOf(arg), isConstIntV(1))
				ctx.Check(okArg && okFact && nonEmpty, "B3", key, c.Pos(), "want=false call: term without its '!' (%v), only when it starts with '!' (%v) and is longer than \"!\" (%v)", okArg, okFact, nonEmpty)
			}
		}
		// '!!' => false, "" => false
		sawBangBang, sawEmpty := false, false
		for _, r := range eg.Returns() {
			if kk, ok := ssax.ConstBool(r.Results[0]); ok && !kk {
				f := eg.FactsAtInstr(r)
				if hasFact(f, true, bang("!!")) {
					sawBangBang = true
				}
				if cmpFact(f, token.EQL, isVal(nm), isConstStr("")) {
					sawEmpty = true
				}
			}
		}
		ctx.Check(sawBangBang, "B3", shortFn(ev)+"#bangbang", ev.Pos(), "a term starting with \"!!\" returns false")
		ctx.Check(sawEmpty, "B3", shortFn(ev)+"#empty", ev.Pos(), "the empty term returns false")
		// comma => conjunction of the two recursive calls
		commaOK := false
		for _, r := range eg.Returns() {
			f := eg.FactsAtInstr(r)
			idxCall := func(v ssa.Value) bool {
				return isCallOf([]string{"strings.Index", "strings.IndexByte"}, isVal(nm), nil)(v)
			}
			// the comma is located by an index search (parts are slices of the term) or by strings.Cut
			// (parts are its first two results, taken when the third is true)
			isCut := func(v ssa.Value) bool {
				return isCallOf([]string{"strings.Cut"}, isVal(nm), isConstStr(","))(v)
			}
			cutFound := hasFact(f, true, func(v ssa.Value) bool {
				e, ok := v.(*ssa.Extract)
				return ok && e.Index == 2 && isCut(e.Tuple)
			})
			if !cmpFact(f, token.GEQ, idxCall, isConstIntV(0)) && !cutFound {
				continue
			}
			e := boolOf(r.Results[0])
			if e.Op != "and" || len(e.Args) != 2 {
				ctx.Bad("B3", shortFn(ev)+"#comma", r.Pos(), "comma-separated terms are combined with %q, not a two-way AND", e.Op)
				commaOK = true
				continue
			}
			rec := 0
			lows, highs := 0, 0
			for _, a := range e.atoms() {
				c, ok := a.(*ssa.Call)
				if ok && c.Call.StaticCallee() == ev {
					rec++
					if sl, ok := c.Call.Args[0].(*ssa.Slice); ok && sl.X == ssa.Value(nm) {
						if sl.Low == nil && sl.High != nil {
							highs++
						}
						if sl.Low != nil && sl.High == nil {
							lows++
						}
					}
					if ex, ok := c.Call.Args[0].(*ssa.Extract); ok && isCut(ex.Tuple) {
						switch ex.Index {
						case 0:
							highs++
						case 1:
							lows++
						}
					}
				}
			}
			ctx.Check(rec == 2 && lows == 1 && highs == 1, "B3", shortFn(ev)+"#comma", r.Pos(), "comma => AND of the evaluator applied to the part before and the part after the comma")
			commaOK = true
		}
		if !commaOK {
			ctx.Bad("B3", shortFn(ev)+"#comma", ev.Pos(), "no comma handling found in the term evaluator")
		}
	}
	if len(evals) == 0 {
		ctx.Bad("B3", "imports#evaluator", interp.Pos(), "no caller of the tag interpreter found")
	}
	// ShouldBuild verdict webs
	if sb := ctx.Need("B3", "imports", "ShouldBuild"); sb != nil {
		sg := graph(p, sb)
		// the line verdict: a boolean merged from constants only, true somewhere under a successful term match
		isEvalTrue := func(f ssax.Fact) bool {
			c, ok := f.Cond.(*ssa.Call)
			if !ok || !f.Val {
				return false
			}
			for _, ev := range evals {
				if c.Call.StaticCallee() == ev {
					return true
				}
			}
			return false
		}
		// the line verdict may also be one call: slices.ContainsFunc(terms, func(t) bool { return evaluator(t, ...) })
		isExistsTerm := func(v ssa.Value) bool {
			c, ok := v.(*ssa.Call)
			if !ok || !strings.HasPrefix(ssax.CalleeName(&c.Call), "slices.ContainsFunc") || len(c.Call.Args) != 2 {
				return false
			}
			var fn *ssa.Function
			switch x := c.Call.Args[1].(type) {
			case *ssa.MakeClosure:
				fn, _ = x.Fn.(*ssa.Function)
			case *ssa.Function:
				fn = x
			}
			if fn == nil || len(fn.Blocks) == 0 || len(fn.Params) != 1 {
				return false
			}
			n := 0
			for _, r := range graph(p, fn).Returns() {
				rc, isC := ssax.ReturnValues(r)[0].(*ssa.Call)
				if !isC || len(rc.Call.Args) == 0 || rc.Call.Args[0] != ssa.Value(fn.Params[0]) {
					return false
				}
				isEv := false
				for _, ev := range evals {
					if rc.Call.StaticCallee() == ev {
						isEv = true
					}
				}
				if !isEv {
					return false
				}
				n++
			}
			return n > 0
		}
		var existsCalls []*ssa.Call
		sg.Instrs(func(i ssa.Instruction) {
			if c, ok := i.(*ssa.Call); ok && isExistsTerm(c) {
				existsCalls = append(existsCalls, c)
			}
		})
		lineWeb := map[*ssa.Phi]bool{}
		var boolPhis []*ssa.Phi
		sg.Instrs(func(i ssa.Instruction) {
			if ph, ok := i.(*ssa.Phi); ok && ph.Type().String() == "bool" {
				boolPhis = append(boolPhis, ph)
			}
		})
		// smallest webs first: a merge that merely consumes the line verdict contains its web
		sort.SliceStable(boolPhis, func(i, j int) bool {
			a, _ := phiWeb(boolPhis[i])
			b, _ := phiWeb(boolPhis[j])
			return len(a) < len(b)
		})
		for _, ph := range boolPhis {
			if lineWeb[ph] {
				continue
			}
			phs, lv := phiWeb(ph)
			consumer := false
			for q := range phs {
				if lineWeb[q] {
					consumer = true
				}
			}
			if consumer {
				continue
			}
			hit, bad := false, false
			for _, l := range lv {
				k, isConst := ssax.ConstBool(l.Val)
				if !isConst {
					bad = true
					break
				}
				if k {
					under := false
					for _, f := range factsOnEdge(sg, l.Pred, l.Phi.Block()) {
						if isEvalTrue(f) {
							under = true
						}
					}
					if !under {
						bad = true // a true that does not come from a term match: not the line verdict
						break
					}
					hit = true
				}
			}
			if hit && !bad {
				for q := range phs {
					lineWeb[q] = true
				}
			}
		}
		for _, r := range sg.Returns() {
			stop := map[*ssa.Phi]bool{}
			if q, isPhi := r.Results[0].(*ssa.Phi); !isPhi || !lineWeb[q] {
				stop = lineWeb
			}
			phis, leaves := phiWebStop(r.Results[0], stop)
			if len(phis) == 0 {
				ctx.Bad("B3", "imports.ShouldBuild#verdict", r.Pos(), "verdict is not a loop-carried boolean")
				continue
			}
			okAll := true
			why := ""
			var okWebVal ssa.Value
			for q := range lineWeb {
				if !phis[q] {
					okWebVal = q
				}
			}
			inWeb := func(v ssa.Value, web map[*ssa.Phi]bool) bool {
				q, ok := v.(*ssa.Phi)
				return ok && web[q]
			}
			for _, l := range leaves {
				facts := factsOnEdge(sg, l.Pred, l.Phi.Block())
				k, isConst := ssax.ConstBool(l.Val)
				switch {
				case !isConst:
					// allok = allok && ok: the line verdict itself may flow in, but only while the
					// overall verdict is still true
					still := false
					for _, f := range facts {
						if f.Val && inWeb(f.Cond, phis) {
							still = true
						}
					}
					if !inWeb(l.Val, lineWeb) || !still {
						okAll, why = false, "verdict receives a value that is not the line verdict taken while the verdict is still true"
					}
				case k:
					// only as the initial value: the edge must come from outside every loop containing the phi,
					// i.e. the pred block is not dominated by the phi's block
					if sg.DomBlock(l.Phi.Block().Index, l.Pred.Index) {
						okAll, why = false, "verdict is set back to true inside the loop"
					}
				default:
					// false: because the line verdict is false, or because it already was false
					found := false
					for _, f := range facts {
						if !f.Val && (inWeb(f.Cond, lineWeb) || inWeb(f.Cond, phis) || isExistsTerm(f.Cond)) {
							found = true
						}
					}
					if !found {
						okAll, why = false, "verdict set to false without the line verdict being false"
					}
				}
			}
			ctx.Check(okAll, "B3", "imports.ShouldBuild#verdict", r.Pos(), "overall verdict starts true and only ever becomes false when a line verdict is false %s", why)
			if okWebVal == nil && len(existsCalls) > 0 {
				// the line verdict is computed afresh for each line by one call
				okTerms := true
				for _, ec := range existsCalls {
					if !cmpFact(sg.FactsAtInstr(ec), token.EQL, anyVal, isConstStr("+build")) {
						okTerms = false
					}
				}
				ctx.Check(okTerms, "B3", "imports.ShouldBuild#line-verdict", existsCalls[0].Pos(), "a +build line is satisfied only by a matching term (slices.ContainsFunc over its terms with the evaluator as predicate), asked under the \"+build\" test")
				ctx.OK("B3", "imports.ShouldBuild#line-verdict-reset", existsCalls[0].Pos(), "the line verdict is the result of one call per +build line; nothing is carried over from the previous line")
			}
			if okWebVal != nil {
				_, ll := phiWeb(okWebVal)
				lineOK := true
				lwhy := ""
				for _, l := range ll {
					k, isConst := ssax.ConstBool(l.Val)
					if !isConst {
						lineOK, lwhy = false, "line verdict receives a non-constant"
						continue
					}
					if !k {
						continue
					}
					found := false
					for _, f := range factsOnEdge(sg, l.Pred, l.Phi.Block()) {
						if c, ok := f.Cond.(*ssa.Call); ok && f.Val {
							for _, ev := range evals {
								if c.Call.StaticCallee() == ev {
									found = true
								}
							}
						}
					}
					if !found {
						lineOK, lwhy = false, "line verdict set to true without a successful term match"
					}
				}
				ctx.Check(lineOK, "B3", "imports.ShouldBuild#line-verdict", okWebVal.Pos(), "a +build line is satisfied only by a matching term (OR over its terms) %s", lwhy)
				// the line verdict starts false for every +build line: each false leaf arrives under the '+build' test
				resetOK := false
				for _, l := range ll {
					if k, isConst := ssax.ConstBool(l.Val); isConst && !k {
						if cmpFact(factsOnEdge(sg, l.Pred, l.Phi.Block()), token.EQL, anyVal, isConstStr("+build")) {
							resetOK = true
						} else {
							resetOK = false
							break
						}
					}
				}
				ctx.Check(resetOK, "B3", "imports.ShouldBuild#line-verdict-reset", okWebVal.Pos(), "the line verdict is reset to false for each +build line (otherwise one satisfied line satisfies all later ones and lines are no longer ANDed)")
			}
		}
	}

	// ---- B4
	var entries []*ssa.Function
	for _, name := range []string{"ShouldBuild", "MatchFile"} {
		if f := p.Func("imports", name); f != nil {
			entries = append(entries, f)
		}
	}
	totality(ctx, entries, totalOpts{rule: "B4", assume: func(fn *ssa.Function, s boundx.Site) string {
		// f := strings.Fields(string(line)) with line[0] == '+' known
		var seq ssa.Value
		switch x := s.Instr.(type) {
		case *ssa.IndexAddr:
			seq = x.X
		case *ssa.Slice:
			seq = x.X
		}
		if c, ok := seq.(*ssa.Call); ok && ssax.CalleeName(&c.Call) == "strings.Fields" {
			facts := graph(p, fn).FactsAtInstr(s.Instr)
			if cmpFact(facts, token.EQL, func(v ssa.Value) bool {
				u, ok := v.(*ssa.UnOp)
				if !ok {
					return false
				}
				_, ok = u.X.(*ssa.IndexAddr)
				return ok
			}, isConstIntV('+')) {
				return "strings.Fields of a string whose first byte is '+' (a non-space) returns at least one field"
			}
		}
		return ""
	}})
	// ---- B8/B9/B2b: how names, lines and tags are taken apart (round 4)
	ctx.Rule("B8", "the part of a file name before its first underscore is never a constraint: what MatchFile splits at underscores is the name cut at the first underscore (a re-slice from strings.Index(name, \"_\"), or the part after a Cut), not the whole name - linux_test.go is an ordinary test file", 1)
	ctx.Rule("B9", "the +build line is tokenised at any white space: the directive word and the options come from strings.Fields, so a tab separates as well as a blank", 1)
	ctx.Rule("B2b", "tag characters are judged rune by rune: the value handed to unicode.IsLetter/IsDigit comes from ranging over the tag string (decoded runes), not from single bytes", 1)
	if mf := p.Func("imports", "MatchFile"); mf != nil {
		g := graph(p, mf)
		n := 0
		for _, c := range g.Calls("strings.Split", "strings.SplitN") {
			if !isConstStr("_")(c.Call.Args[1]) {
				continue
			}
			n++
			arg := c.Call.Args[0]
			cut := false
			if sl, ok := arg.(*ssa.Slice); ok && sl.Low != nil {
				if _, sep, ok := firstIndexOf(sl.Low); ok && sep == "_" {
					cut = true
				}
				if b, ok := sl.Low.(*ssa.BinOp); ok && b.Op == token.ADD {
					if _, sep, ok := firstIndexOf(b.X); ok && sep == "_" {
						cut = true
					}
				}
			}
			if _, sep, ok := afterFirst(arg); ok && sep == "_" {
				cut = true
			}
			ctx.Check(cut, "B8", "imports.MatchFile#after-first-underscore"+itoa(n), c.Pos(), "the name is split at underscores only after everything before its first underscore was cut off")
		}
		if n == 0 {
			ctx.Note("B8", "imports.MatchFile#after-first-underscore", mf.Pos(), "MatchFile does not split the name at underscores with strings.Split; clause not decided")
		}
	}
	if sb := p.Func("imports", "ShouldBuild"); sb != nil {
		g := graph(p, sb)
		n := 0
		g.Instrs(func(i ssa.Instruction) {
			b, ok := i.(*ssa.BinOp)
			if !ok || (b.Op != token.EQL && b.Op != token.NEQ) {
				return
			}
			word := b.X
			if isConstStr("+build")(b.X) {
				word = b.Y
			} else if !isConstStr("+build")(b.Y) {
				return
			}
			n++
			fields := ssax.DerivedFrom(word, isCallOf([]string{"strings.Fields", "bytes.Fields"}), nil)
			ctx.Check(fields, "B9", "imports.ShouldBuild#tokens"+itoa(n), b.Pos(), "the word compared with \"+build\" is a field of strings.Fields")
		})
		if n == 0 {
			ctx.Note("B9", "imports.ShouldBuild#tokens", sb.Pos(), "no comparison with \"+build\" found; clause not decided")
		}
	}
	if interp != nil {
		g := graph(p, interp)
		n := 0
		check := func(c *ssa.Call, viaFunc bool) {
			n++
			ranged := false
			if e, ok := c.Call.Args[0].(*ssa.Extract); ok {
				if nx, ok := e.Tuple.(*ssa.Next); ok && nx.IsString {
					ranged = true
				}
			}
			// ... or the rune parameter of a predicate handed to a strings function that decodes runes
			if prm, ok := c.Call.Args[0].(*ssa.Parameter); ok && viaFunc && types.Identical(prm.Type(), types.Typ[types.Rune]) {
				ranged = true
			}
			ctx.Check(ranged, "B2b", shortFn(interp)+"#rune"+itoa(n), c.Pos(), "the character classified is a rune produced by ranging over the tag")
		}
		for _, c := range g.Calls("unicode.IsLetter", "unicode.IsDigit") {
			check(c, false)
		}
		for _, fc := range g.Calls("strings.ContainsFunc", "strings.IndexFunc", "strings.LastIndexFunc", "strings.TrimFunc", "strings.FieldsFunc") {
			var fn *ssa.Function
			switch x := fc.Call.Args[1].(type) {
			case *ssa.MakeClosure:
				fn, _ = x.Fn.(*ssa.Function)
			case *ssa.Function:
				fn = x
			}
			if fn == nil || len(fn.Blocks) == 0 {
				continue
			}
			for _, c := range graph(p, fn).Calls("unicode.IsLetter", "unicode.IsDigit") {
				check(c, true)
			}
		}
	}
	// ---- B5: the known-OS and known-architecture tables
	{
		refOS := strings.Fields("aix android darwin dragonfly freebsd hurd illumos ios js linux nacl netbsd openbsd plan9 solaris windows zos")
		refArch := strings.Fields("386 amd64 amd64p32 arm armbe arm64 arm64be loong64 mips mipsle mips64 mips64le mips64p32 mips64p32le ppc ppc64 ppc64le riscv riscv64 s390 s390x sparc sparc64 wasm")
		goOS, goArch := goKnownLists()
		tp := p.TPkg("imports")
		for _, t := range []struct {
			constName, table string
			ref              []string
			goList           map[string]bool
		}{{"goosList", "KnownOS", refOS, goOS}, {"goarchList", "KnownArch", refArch, goArch}} {
			var val string
			found := false
			if tp != nil && tp.Types != nil {
				if c, ok := tp.Types.Scope().Lookup(t.constName).(*types.Const); ok && c.Val().Kind() == constant.String {
					val, found = constant.StringVal(c.Val()), true
				}
			}
			key := "imports." + t.constName
			if !found {
				ctx.Unknown("B5", key, token.NoPos, "list constant %s not found", t.constName)
				continue
			}
			have := map[string]bool{}
			var bad []string
			for _, w := range strings.Fields(val) {
				if have[w] {
					bad = append(bad, "duplicate "+w)
				}
				have[w] = true
			}
			for _, w := range t.ref {
				if !have[w] {
					bad = append(bad, "missing "+w)
				}
			}
			inRef := map[string]bool{}
			for _, w := range t.ref {
				inRef[w] = true
			}
			for w := range have {
				if !inRef[w] && (t.goList == nil || !t.goList[w]) {
					bad = append(bad, "unknown word "+strconv.Quote(w))
				}
			}
			sort.Strings(bad)
			note := ""
			if t.goList == nil {
				note = " (go/build's own list was not readable; additions are compared with the reference only)"
			}
			ctx.Check(len(bad) == 0, "B5", key, token.NoPos, "%s holds every name of the reference list and nothing that go/build does not know%s %v", t.constName, note, bad)
			// the table is filled from that constant
			fills := false
			for _, f := range fns {
				graph(p, f).Instrs(func(i ssa.Instruction) {
					mu, ok := i.(*ssa.MapUpdate)
					if !ok {
						return
					}
					if u, ok := mu.Map.(*ssa.UnOp); ok {
						if g, ok := u.X.(*ssa.Global); ok && g.Name() == t.table {
							if ssax.DerivedFrom(mu.Key, func(v ssa.Value) bool { s, ok := ssax.ConstString(v); return ok && s == val }, func(c *ssa.Call) bool { return strings.HasPrefix(ssax.CalleeName(&c.Call), "strings.") }) {
								fills = true
							}
						}
					}
				})
			}
			ctx.Check(fills, "B5", "imports."+t.table+"#filled", token.NoPos, "%s is filled from the fields of %s", t.table, t.constName)
		}
	}
	// ---- B6 / B7: how MatchFile and ShouldBuild cut their input
	if mf := p.Func("imports", "MatchFile"); mf != nil {
		g := graph(p, mf)
		name := mf.Params[0]
		n := 0
		g.Instrs(func(i ssa.Instruction) {
			sl, ok := i.(*ssa.Slice)
			if !ok || sl.X != ssa.Value(name) || sl.High == nil || sl.Low != nil {
				return
			}
			// name[:dot]
			n++
			last := ssax.DerivedFrom(sl.High, func(v ssa.Value) bool {
				c, ok := v.(*ssa.Call)
				return ok && strings.HasPrefix(ssax.CalleeName(&c.Call), "strings.LastIndex")
			}, nil)
			ctx.Check(!last, "B6", "imports.MatchFile#first-dot"+itoa(n), sl.Pos(), "the file name is cut at its first '.', as go/build does (x_windows.pb.go is a windows file; cutting at the last '.' leaves 'x_windows.pb' and the suffix rule no longer sees the OS)")
		})
		if n == 0 {
			ctx.Note("B6", "imports.MatchFile#first-dot", mf.Pos(), "no name[:i] cut found in MatchFile (the extension may be removed by strings.Cut or similar); nothing to check")
		}
	}
	if sb := p.Func("imports", "ShouldBuild"); sb != nil {
		g := graph(p, sb)
		n := 0
		g.Instrs(func(i ssa.Instruction) {
			b, ok := i.(*ssa.BinOp)
			if !ok || b.Op != token.EQL {
				return
			}
			k, isK := ssax.ConstInt(b.Y)
			ln, isLen := b.X.(*ssa.Call)
			if !isK || k != 0 || !isLen || !isBuiltinCall(ln, "len") {
				return
			}
			// a blank-line test: the tested value must come out of a trim
			var trims []*ssa.Call
			ssax.DerivedFrom(ln.Call.Args[0], func(v ssa.Value) bool {
				c, ok := v.(*ssa.Call)
				if ok && (strings.HasPrefix(ssax.CalleeName(&c.Call), "bytes.Trim") || strings.HasPrefix(ssax.CalleeName(&c.Call), "strings.Trim")) {
					trims = append(trims, c)
				}
				return false
			}, nil)
			if len(trims) == 0 {
				return
			}
			n++
			two := false
			for _, c := range trims {
				switch strings.TrimPrefix(strings.TrimPrefix(ssax.CalleeName(&c.Call), "bytes."), "strings.") {
				case "TrimSpace":
					two = true
				case "Trim":
					if cs, ok := ssax.ConstString(c.Call.Args[1]); ok && strings.Contains(cs, " ") && strings.Contains(cs, "\t") && strings.Contains(cs, "\r") {
						two = true
					}
				}
			}
			ctx.Check(two, "B7", "imports.ShouldBuild#blank-line"+itoa(n), b.Pos(), "the blank-line test looks at the line with white space removed on both sides, so that a CRLF-terminated empty line (\"\\r\") ends the leading comment block as it does for go/build")
		})
		if n == 0 {
			ctx.Bad("B7", "imports.ShouldBuild#blank-line", sb.Pos(), "no blank-line test found in ShouldBuild")
		}
	}
}

// goKnownLists reads knownOS and knownArch from the toolchain's own
// go/build/syslist.go (parsed, not imported); nil maps when unavailable.
func goKnownLists() (map[string]bool, map[string]bool) {
	root := runtime.GOROOT()
	if out, err := exec.Command("go", "env", "GOROOT").Output(); err == nil && strings.TrimSpace(string(out)) != "" {
		root = strings.TrimSpace(string(out))
	}
	f, err := parser.ParseFile(token.NewFileSet(), filepath.Join(root, "src", "go", "build", "syslist.go"), nil, 0)
	if err != nil {
		return nil, nil
	}
	read := func(name string) map[string]bool {
		var out map[string]bool
		ast.Inspect(f, func(n ast.Node) bool {
			vs, ok := n.(*ast.ValueSpec)
			if !ok || len(vs.Names) != 1 || vs.Names[0].Name != name || len(vs.Values) != 1 {
				return true
			}
			cl, ok := vs.Values[0].(*ast.CompositeLit)
			if !ok {
				return true
			}
			out = map[string]bool{}
			for _, e := range cl.Elts {
				if kv, ok := e.(*ast.KeyValueExpr); ok {
					if bl, ok := kv.Key.(*ast.BasicLit); ok {
						if s, err := strconv.Unquote(bl.Value); err == nil {
							out[s] = true
						}
					}
				}
			}
			return false
		})
		return out
	}
	return read("knownOS"), read("knownArch")
}

func orZero(v ssa.Value) ssa.Value {
	if v == nil {
		return ssa.NewConst(nil, types.Typ[types.Int])
	}
	return v
}

// phiLeafFor walks phis from v to the value whose formula contains target.
func phiLeafFor(v ssa.Value, target ssa.Value) ssa.Value {
	seen := map[ssa.Value]bool{}
	var rec func(v ssa.Value) ssa.Value
	rec = func(v ssa.Value) ssa.Value {
		if seen[v] {
			return nil
		}
		seen[v] = true
		if p, ok := v.(*ssa.Phi); ok {
			for _, e := range p.Edges {
				if e == target {
					return v
				}
			}
			for _, e := range p.Edges {
				if r := rec(e); r != nil {
					return r
				}
			}
		}
		return nil
	}
	if r := rec(v); r != nil {
		return r
	}
	return v
}
