package rules

import (
	"fmt"
	"go/token"
	"strings"

	"golang.org/x/tools/go/ssa"

	"verif/checker/core"
	"verif/checker/ssax"
)

func init() { Registry["C07"] = Spec{Run: runC07, Packages: []string{"lockedfile"}} }

// onFile: the *os.File receiver value derives from the locked *File f.
func onFile(f ssa.Value) func(ssa.Value) bool {
	return func(v ssa.Value) bool {
		return ssax.DerivedFrom(v, func(x ssa.Value) bool { return x == f || ssax.ResolveLoad(x) == f }, nil)
	}
}

func runC07(ctx *core.Ctx) {
	c07Round6(ctx)
	ctx.Trusted = append(ctx.Trusted, "go/types, go/ssa", "C06 (mutual exclusion) and OS file semantics: effects confined to one exclusive critical section are serialised by the lock; what a failing WriteAt leaves on disk is not modelled")
	p := ctx.P
	ctx.Rule("A1", "all content I/O inside the critical section: Read, Write and Transform touch the file only through the locked File they opened; the path name is used for nothing but that open", 3)
	ctx.Rule("A2", "truncate after lock: the flag word given to the OS open has the O_TRUNC bit cleared for every caller flag; the explicit Truncate(0) is reached only with the lock call's error known nil and only when the caller's flag had O_TRUNC", 2)
	ctx.Rule("A3", "Transform protocol: the user function runs after the complete read and before any write; on its error nothing is written; the tail is written (at offset len(old), only when the file grows) before any byte of the old contents is overwritten and its failure truncates back to len(old); the roll-back is registered before the first overwrite and rewrites old at offset 0 on error; when the file shrinks the Truncate comes after the successful write", 7)
	ctx.Rule("A4", "Write opens with O_TRUNC under a write lock and returns the first error of copy and close", 2)

	if p.Cfg.GOOS != "plan9" {
		if of := ctx.Need("A2", "lockedfile", "openFile"); of != nil {
			g := graph(p, of)
			flagP := of.Params[1]
			trunc := osFlag(p, "O_TRUNC")
			for _, open := range g.Calls("os.OpenFile") {
				ok := true
				for _, fl := range []int64{-1, trunc, trunc | osFlag(p, "O_RDWR") | osFlag(p, "O_CREATE"), trunc | osFlag(p, "O_WRONLY")} {
					v, evalOK := evalInt(open.Call.Args[1], map[ssa.Value]int64{flagP: fl})
					if !evalOK || v&trunc != 0 {
						ok = false
					}
				}
				ctx.Check(ok, "A2", "lockedfile.openFile#open-flag", open.Pos(), "O_TRUNC is stripped from the flags of the OS open (otherwise the kernel empties the file before the lock is held, and a reader holding the lock sees it vanish)")
			}
			tr := g.Calls("(*os.File).Truncate")
			if len(tr) == 0 {
				ctx.Bad("A2", "lockedfile.openFile#truncate", of.Pos(), "no explicit Truncate: O_TRUNC callers (Create, Write) would not truncate at all")
			}
			for k, t := range tr {
				facts := g.FactsAtInstr(t)
				locked := false
				for _, f := range facts {
					x, eq, ok := ssax.NilCheck(f.Cond)
					if !ok || eq != f.Val {
						continue
					}
					_, leaves := phiWeb(x)
					if len(leaves) == 0 {
						leaves = []leaf{{Val: x}}
					}
					all := true
					for _, l := range leaves {
						c, ok := l.Val.(*ssa.Call)
						if !ok || !strings.HasPrefix(ssax.CalleeName(&c.Call), flPkg+".") {
							all = false
						}
					}
					if all {
						locked = true
					}
				}
				// guarded by flag&O_TRUNC
				guard := false
				for _, f := range facts {
					if v1, ok := evalInt(f.Cond, map[ssa.Value]int64{flagP: trunc}); ok {
						if v0, ok := evalInt(f.Cond, map[ssa.Value]int64{flagP: 0}); ok && (v1 != 0) == f.Val && (v0 != 0) != f.Val {
							guard = true
						}
					}
				}
				z, isZ := ssax.ConstInt(t.Call.Args[1])
				ctx.Check(locked && guard && isZ && z == 0, "A2", "lockedfile.openFile#truncate"+itoa(k+1), t.Pos(), "Truncate(0) happens under the lock (%v), only for O_TRUNC callers (%v)", locked, guard)
				// a failed truncation may be forgiven only for a file that is known not to be regular
				var statErr, isReg ssa.Value
				for _, c := range g.Calls("(*os.File).Stat") {
					if g.Dominates(t, c) {
						statErr = ssax.Extracted(c, 1)
					}
				}
				g.Instrs(func(i ssa.Instruction) {
					if c, ok := i.(*ssa.Call); ok && ssax.CalleeName(&c.Call) == "(io/fs.FileMode).IsRegular" && g.Dominates(t, c) {
						isReg = c
					}
				})
				bad := ""
				for _, statOK := range []bool{true, false} {
					for _, regular := range []bool{true, false} {
						ex := &ssax.Explorer{G: g, Assume: func(v ssa.Value, nilness bool) ssax.Abs {
							switch {
							case nilness && v == ssa.Value(t):
								return ssax.False // the truncation failed
							case nilness && statErr != nil && v == statErr:
								return ssax.AbsOf(statOK)
							case !nilness && isReg != nil && v == isReg:
								return ssax.AbsOf(regular)
							}
							return ssax.Unknown
						}}
						for _, e := range ex.Run(ssax.PointAfter(t)) {
							r, ok := e.Last.(*ssa.Return)
							if !ok || e.Kind != ssax.ExitReturn || e.Nil == nil || len(r.Results) != 2 {
								continue
							}
							success := e.Nil(r.Results[1]) != ssax.False
							if success && !(statOK && !regular) {
								bad = fmt.Sprintf("with a failed Truncate, Stat ok=%v and regular=%v the file is still handed out (its old contents survive under the new ones)", statOK, regular)
							}
						}
					}
				}
				ctx.Check(bad == "", "A2", "lockedfile.openFile#truncate-failure"+itoa(k+1), t.Pos(), "a failed Truncate(0) is forgiven only when Stat succeeded and the file is not regular %s", bad)
			}
		}
	}
	// ---- A5: the lock kind each operation actually gets
	ctx.Rule("A5", "lock kind per operation: following the constant flag each of Read (via Open), Write and Transform (via Edit) passes through OpenFile into openFile's dispatch, Read reaches exactly RLock and Write/Transform exactly Lock", 3)
	if p.Cfg.GOOS != "plan9" {
		if of := p.Func("lockedfile", "openFile"); of != nil {
			g := graph(p, of)
			start := -1
			for _, open := range g.Calls("os.OpenFile") {
				oerr := ssax.Extracted(open, 1)
				for _, b := range of.Blocks {
					if g.Reach[b.Index] && ssax.KnownNil(g.FactsAt(b.Index), oerr, true) && (start < 0 || g.DomBlock(b.Index, start)) {
						start = b.Index
					}
				}
			}
			for _, op := range []struct{ fn, via, want string }{{"Read", "Open", "RLock"}, {"Write", "", "Lock"}, {"Transform", "Edit", "Lock"}} {
				f := p.Func("lockedfile", op.fn)
				src := f
				if op.via != "" && f != nil {
					// the helper must be what the operation calls
					if len(graph(p, f).Calls(lfPkg+"."+op.via)) == 0 {
						ctx.Bad("A5", "lockedfile."+op.fn+"#lock-kind", f.Pos(), "%s no longer opens through %s", op.fn, op.via)
						continue
					}
					src = p.Func("lockedfile", op.via)
				}
				if f == nil || src == nil || start < 0 {
					ctx.Unknown("A5", "lockedfile."+op.fn+"#lock-kind", token.NoPos, "anchor not found")
					continue
				}
				var got []string
				flOK := false
				for _, c := range graph(p, src).Calls(lfPkg + ".OpenFile") {
					fl, ok := ssax.ConstInt(c.Call.Args[1])
					if !ok {
						continue
					}
					flOK = true
					got = setNames(reachUnder(g, start, map[ssa.Value]int64{of.Params[1]: fl}), func(n string) bool {
						return strings.HasPrefix(n, flPkg+".") && (strings.HasSuffix(n, ".Lock") || strings.HasSuffix(n, ".RLock"))
					})
				}
				ctx.Check(flOK && len(got) == 1 && got[0] == op.want, "A5", "lockedfile."+op.fn+"#lock-kind", f.Pos(), "%s runs under %v (want exactly [%s]): a writer under a shared lock overlaps readers and other writers", op.fn, got, op.want)
			}
		}
	}
	// ---- A1
	for _, name := range []string{"Read", "Write", "Transform"} {
		f := ctx.Need("A1", "lockedfile", name)
		if f == nil {
			continue
		}
		g := graph(p, f)
		nameP := f.Params[0]
		bad := ""
		uses := 0
		for _, r := range ssax.Referrers(nameP) {
			if _, dbg := r.(*ssa.DebugRef); dbg {
				continue
			}
			uses++
			c, ok := r.(*ssa.Call)
			if !ok || c.Call.StaticCallee() == nil || c.Call.StaticCallee().Pkg != p.Pkg("lockedfile") {
				bad = "path name used by " + r.String()
			}
		}
		// no os-level file access by name in these functions
		g.Instrs(func(i ssa.Instruction) {
			if c, ok := i.(*ssa.Call); ok {
				n := ssax.CalleeName(&c.Call)
				switch n {
				case "os.ReadFile", "os.WriteFile", "os.OpenFile", "os.Open", "os.Create", "os.Truncate", "io/ioutil.ReadFile", "io/ioutil.WriteFile":
					bad = n + " bypasses the locked File"
				}
			}
		})
		ctx.Check(bad == "" && uses == 1, "A1", "lockedfile."+name+"#single-handle", f.Pos(), "the path is used once, for the locked open, and all I/O goes through that File %s", bad)
	}
	// ---- A3
	if tf := ctx.Need("A3", "lockedfile", "Transform"); tf != nil {
		g := graph(p, tf)
		var openCall, readAll, tcall *ssa.Call
		g.Instrs(func(i ssa.Instruction) {
			c, ok := i.(*ssa.Call)
			if !ok {
				return
			}
			if cal := c.Call.StaticCallee(); cal != nil && cal.Pkg == p.Pkg("lockedfile") && cal.Signature.Results().Len() == 2 {
				openCall = c
			}
			if ssax.CalleeName(&c.Call) == "io.ReadAll" {
				readAll = c
			}
			if c.Call.Value == ssa.Value(tf.Params[1]) {
				tcall = c
			}
		})
		if openCall == nil || readAll == nil || tcall == nil {
			ctx.Bad("A3", "lockedfile.Transform#shape", tf.Pos(), "open/read/transform calls not found")
			return
		}
		file := ssax.Extracted(openCall, 0)
		old := ssax.Extracted(readAll, 0)
		newV := ssax.Extracted(tcall, 0)
		terr := ssax.Extracted(tcall, 1)
		isOld := func(v ssa.Value) bool { return v == old || ssax.ResolveLoad(v) == old }
		lenOld := func(v ssa.Value) bool {
			// through conversions and through a local that holds the length (oldSize := int64(len(old)),
			// a memory cell once a closure captures it)
			for k := 0; k < 6; k++ {
				if cv, ok := v.(*ssa.Convert); ok {
					v = cv.X
					continue
				}
				if r := ssax.ResolveLoad(v); r != nil && r != v {
					v = r
					continue
				}
				break
			}
			c, ok := v.(*ssa.Call)
			if !ok {
				return false
			}
			b, ok := c.Call.Value.(*ssa.Builtin)
			return ok && b.Name() == "len" && isOld(c.Call.Args[0])
		}
		lenNew := func(v ssa.Value) bool {
			for k := 0; k < 6; k++ {
				if cv, ok := v.(*ssa.Convert); ok {
					v = cv.X
					continue
				}
				if r := ssax.ResolveLoad(v); r != nil && r != v {
					v = r
					continue
				}
				break
			}
			return isLenOf(newV)(v)
		}
		var writes, truncs []*ssa.Call
		for _, c := range g.Calls("(*os.File).WriteAt", "(*os.File).Write", "(*os.File).WriteString") {
			if onFile(file)(c.Call.Args[0]) {
				writes = append(writes, c)
			}
		}
		for _, c := range g.Calls("(*os.File).Truncate") {
			if onFile(file)(c.Call.Args[0]) {
				truncs = append(truncs, c)
			}
		}
		// read complete before t; t(old)
		okRead := g.Dominates(readAll, tcall) && ssax.KnownNil(g.FactsAtInstr(tcall), ssax.Extracted(readAll, 1), true) && isOld(tcall.Call.Args[0]) && onFile(file)(readAll.Call.Args[0])
		ctx.Check(okRead, "A3", "lockedfile.Transform#read-then-transform", tcall.Pos(), "the user function receives the result of a complete, successful read of the locked file")
		// all writes/truncates after t and only when t succeeded
		okAfter := len(writes) >= 2
		for _, w := range append(append([]*ssa.Call{}, writes...), truncs...) {
			if !g.Dominates(tcall, w) || !ssax.KnownNil(g.FactsAtInstr(w), terr, true) {
				okAfter = false
			}
		}
		ctx.Check(okAfter, "A3", "lockedfile.Transform#no-write-on-error", tcall.Pos(), "every write or truncate of the file is reached only after the user function returned a nil error (%d writes, %d truncates)", len(writes), len(truncs))
		// classify writes
		var tail *ssa.Call
		var overwrites []*ssa.Call
		for _, w := range writes {
			if len(w.Call.Args) < 3 {
				overwrites = append(overwrites, w)
				continue
			}
			if lenOld(w.Call.Args[2]) {
				tail = w
			} else if z, ok := ssax.ConstInt(w.Call.Args[2]); ok && z == 0 {
				overwrites = append(overwrites, w)
			} else {
				ctx.Bad("A3", "lockedfile.Transform#write-offset", w.Pos(), "write at an offset that is neither 0 nor len(old)")
			}
		}
		if tail == nil {
			ctx.Bad("A3", "lockedfile.Transform#tail-first", tf.Pos(), "no tail write at offset len(old): growth is not written first")
		} else {
			grows := cmpFact(g.FactsAtInstr(tail), token.GTR, lenNew, lenOld)
			first := true
			for _, o := range overwrites {
				if !g.Dominates(tail, o) {
					// the overwrite may also be reached when the file does not grow: then the tail block is skipped.
					// require: no path from an overwrite to the tail write
					if hit, _ := g.ReachableWithout(ssax.PointAfter(o), func(i ssa.Instruction) bool { return i == ssa.Instruction(tail) }, nil); hit != nil {
						first = false
					}
				}
			}
			dataOK := false
			if sl, ok := tail.Call.Args[1].(*ssa.Slice); ok && sl.X == newV && sl.High == nil && lenOld(orZero(sl.Low)) {
				dataOK = true
			}
			ctx.Check(grows && first && dataOK, "A3", "lockedfile.Transform#tail-first", tail.Pos(), "new[len(old):] is written at offset len(old) only when the file grows (%v), never after an overwrite of old bytes (%v), with the right slice (%v)", grows, first, dataOK)
			// failure of tail: truncate back to len(old)
			terr2 := ssax.Extracted(tail, 1)
			okRoll := false
			for _, t := range truncs {
				if ssax.KnownNil(g.FactsAtInstr(t), terr2, false) && lenOld(t.Call.Args[1]) {
					okRoll = true
				}
			}
			ctx.Check(okRoll, "A3", "lockedfile.Transform#tail-failure", tail.Pos(), "a failed tail write truncates the file back to len(old)")
		}
		// roll-back defer before first overwrite. The deferred function may capture the
		// caller's variables or receive them as arguments; either way a value inside it
		// is traced to the caller's value it stands for.
		var rb *ssa.Defer
		var cell ssa.Value
		callerOf := func(d *ssa.Defer, fn *ssa.Function, v ssa.Value) ssa.Value {
			switch x := v.(type) {
			case *ssa.FreeVar:
				if mc, ok := d.Call.Value.(*ssa.MakeClosure); ok {
					for k, fv := range fn.FreeVars {
						if fv == x {
							return mc.Bindings[k]
						}
					}
				}
			case *ssa.Parameter:
				for k, par := range fn.Params {
					if par == x && k < len(d.Call.Args) {
						return d.Call.Args[k]
					}
				}
			}
			return nil
		}
		g.Instrs(func(i ssa.Instruction) {
			d, ok := i.(*ssa.Defer)
			if !ok {
				return
			}
			var fn *ssa.Function
			switch x := d.Call.Value.(type) {
			case *ssa.MakeClosure:
				fn, _ = x.Fn.(*ssa.Function)
			case *ssa.Function:
				fn = x
			}
			if fn == nil || fn.Blocks == nil {
				return
			}
			cg := graph(p, fn)
			for _, w := range cg.Calls("(*os.File).WriteAt") {
				z, ok := ssax.ConstInt(w.Call.Args[2])
				if !ok || z != 0 {
					continue
				}
				// guarded by "<the caller's error variable> != nil" and writes old
				var guardCell ssa.Value
				for _, f := range cg.FactsAtInstr(w) {
					x, eq, ok := ssax.NilCheck(f.Cond)
					if ok && (eq == f.Val) == false {
						if u, ok := x.(*ssa.UnOp); ok && u.Op == token.MUL {
							if c := callerOf(d, fn, u.X); c != nil {
								guardCell = c
							}
						}
					}
				}
				writesOld := false
				switch x := w.Call.Args[1].(type) {
				case *ssa.UnOp:
					if c := callerOf(d, fn, x.X); c != nil {
						// a captured variable: its cell must hold old
						for _, r := range ssax.Referrers(c) {
							if st, ok := r.(*ssa.Store); ok && st.Addr == c && isOld(st.Val) {
								writesOld = true
							}
						}
					}
				case *ssa.Parameter:
					if c := callerOf(d, fn, x); c != nil && isOld(c) {
						writesOld = true
					}
				}
				if guardCell != nil && writesOld {
					rb = d
					cell = guardCell
				}
			}
		})
		if rb == nil {
			ctx.Bad("A3", "lockedfile.Transform#rollback", tf.Pos(), "no deferred roll-back that rewrites old at offset 0 when the result error is non-nil")
		} else {
			// the error the roll-back looks at must be the function's result: every return stores its
			// value into the very cell the deferred function reads (named result); a separate local never
			// sees the errors of the failing steps
			okCell := cell != nil
			for _, r := range g.Returns() {
				u, ok := r.Results[0].(*ssa.UnOp)
				if !ok || u.X != cell {
					okCell = false
				}
			}
			// ... and must not change it: a roll-back that assigns the result hides the failure it reacts to
			{
				var rfn *ssa.Function
				switch x := rb.Call.Value.(type) {
				case *ssa.MakeClosure:
					rfn, _ = x.Fn.(*ssa.Function)
				case *ssa.Function:
					rfn = x
				}
				writes := false
				if rfn != nil {
					for _, b := range rfn.Blocks {
						for _, ins := range b.Instrs {
							if st, ok := ins.(*ssa.Store); ok && callerOf(rb, rfn, st.Addr) == cell && cell != nil {
								writes = true
							}
						}
					}
				}
				ctx.Check(!writes, "A3", "lockedfile.Transform#rollback-keeps-result", rb.Pos(), "the roll-back only reads the function's result error; it never assigns it (a successful roll-back must not turn the failure into a nil return)")
			}
			// success means written: every return of a nil error after the user function succeeded lies
			// behind an overwrite of the file's head
			{
				okW := len(overwrites) > 0
				for _, r := range g.Returns() {
					rv := ssax.ReturnValues(r)
					if len(rv) != 1 || !ssax.IsNil(rv[0]) || !g.Dominates(tcall, r) {
						continue
					}
					behind := false
					for _, o := range overwrites {
						if g.Dominates(o, r) {
							behind = true
						}
					}
					// two alternative overwrites (grow / shrink branches): together they must cover the return
					if !behind {
						hit, _ := g.ReachableWithout(ssax.PointAfter(tcall), func(i ssa.Instruction) bool { return i == ssa.Instruction(r) }, func(i ssa.Instruction) bool {
							for _, o := range overwrites {
								if i == ssa.Instruction(o) {
									return true
								}
							}
							return false
						})
						behind = hit == nil
					}
					if !behind {
						okW = false
					}
				}
				ctx.Check(okW, "A3", "lockedfile.Transform#nil-means-written", tcall.Pos(), "after the user function returned, Transform returns nil only on paths that wrote the new contents over the file's head (no shortcut that skips the write)")
			}
			ctx.Check(okCell, "A3", "lockedfile.Transform#rollback-sees-result", rb.Pos(), "the roll-back tests the function's own result error: every return passes its value through the variable the deferred function reads")
			ok := len(overwrites) > 0
			for _, o := range overwrites {
				if !g.Dominates(rb, o) {
					ok = false
				}
			}
			// and after the tail write (so a failed tail is not 'rolled back' over untouched contents) is not required
			ctx.Check(ok, "A3", "lockedfile.Transform#rollback", rb.Pos(), "the roll-back is registered before every overwrite of existing bytes")
			// the roll-back needs the file open and locked: defers run last-in first-out, so a Close deferred
			// after the roll-back (or called directly later on) closes and unlocks the file first
			{
				closesFile := func(cc *ssa.CallCommon) bool {
					if ssax.CalleeName(cc) == "(*"+lfPkg+".File).Close" {
						return true
					}
					var fn *ssa.Function
					switch x := cc.Value.(type) {
					case *ssa.MakeClosure:
						fn, _ = x.Fn.(*ssa.Function)
					case *ssa.Function:
						fn = x
					}
					found := false
					if fn != nil && fn.Blocks != nil && fn.Pkg == tf.Pkg {
						graph(p, fn).Instrs(func(j ssa.Instruction) {
							if c2 := ssax.CallOf(j); c2 != nil && ssax.CalleeName(c2) == "(*"+lfPkg+".File).Close" {
								found = true
							}
						})
					}
					return found
				}
				late := ""
				g.Instrs(func(i ssa.Instruction) {
					ci, isCall := i.(ssa.CallInstruction)
					if !isCall || i == ssa.Instruction(rb) || !g.Dominates(rb, i) {
						return
					}
					if _, isGo := i.(*ssa.Go); isGo {
						return
					}
					if closesFile(ci.Common()) {
						late = p.Pos(i.Pos())
					}
				})
				ctx.Check(late == "", "A3", "lockedfile.Transform#rollback-before-close", rb.Pos(), "nothing registered or called after the roll-back closes the file (the roll-back would then write to a closed, unlocked file) %s", late)
			}
		}
		// overwrite branches: grow/equal writes new[:len(old)]; shrink writes new then truncates to len(new) after success
		// what is written is the whole of new whenever len(new) < len(old): new itself, new[:len(new)],
		// or new[:min(len(new), len(old))]
		wholeNewWhenShrinking := func(v ssa.Value) bool {
			if v == newV {
				return true
			}
			sl, ok := v.(*ssa.Slice)
			if !ok || sl.X != newV || sl.Max != nil {
				return false
			}
			if z, isZ := ssax.ConstInt(orZero(sl.Low)); !isZ || z != 0 {
				return false
			}
			if sl.High == nil || lenNew(sl.High) {
				return true
			}
			if c, isC := sl.High.(*ssa.Call); isC && isBuiltinCall(c, "min") && len(c.Call.Args) == 2 {
				a, b := c.Call.Args[0], c.Call.Args[1]
				return (lenNew(a) && lenOld(b)) || (lenNew(b) && lenOld(a))
			}
			return false
		}
		shrinkOK := false
		for _, t := range truncs {
			if !lenNew(t.Call.Args[1]) {
				continue
			}
			// dominated by a successful overwrite of `new`
			for _, o := range overwrites {
				if len(o.Call.Args) >= 3 && wholeNewWhenShrinking(o.Call.Args[1]) && g.Dominates(o, t) && ssax.KnownNil(g.FactsAtInstr(t), ssax.Extracted(o, 1), true) {
					shrinkOK = cmpFact(g.FactsAtInstr(t), token.LSS, lenNew, lenOld)
				}
			}
		}
		ctx.Check(shrinkOK, "A3", "lockedfile.Transform#shrink-after-write", tf.Pos(), "when the file shrinks, Truncate(len(new)) comes only after the write of new succeeded (truncating first loses the old tail if the write then fails)")
		// errors of the overwrites are returned
		retOK := true
		for _, o := range overwrites {
			oe := ssax.Extracted(o, 1)
			for _, r := range g.Returns() {
				if g.Dominates(o, r) && ssax.KnownNil(g.FactsAtInstr(r), oe, false) {
					if ssax.IsNil(ssax.ReturnValues(r)[0]) {
						retOK = false
					}
				}
			}
		}
		// ... and so is the error of any other step on the file (the shrinking Truncate, the tail write): on
		// the path where a step's error was found non-nil, that very error is what is returned - a different
		// variable (the still-nil named result, say) reports success and disarms the roll-back
		for _, c := range append(append([]*ssa.Call{}, writes...), truncs...) {
			ce := errOf(c)
			if ce == nil {
				continue
			}
			for _, r := range g.Returns() {
				if !ssax.KnownNil(g.FactsAtInstr(r), ce, false) {
					continue
				}
				rv := ssax.ReturnValues(r)[0]
				if rr := g.Resolve(ssax.Strip(rv), r); rv != ce && ssax.ResolveLoad(rv) != ce && rr != ce && ssax.ResolveLoad(rr) != ce {
					retOK = false
				}
			}
		}
		ctx.Check(retOK, "A3", "lockedfile.Transform#errors-returned", tf.Pos(), "a failed step on the file makes Transform return that step's error (which also triggers the roll-back)")
	}
	// ---- A4
	if w := ctx.Need("A4", "lockedfile", "Write"); w != nil {
		g := graph(p, w)
		var open *ssa.Call
		for _, c := range g.Calls(lfPkg + ".OpenFile") {
			open = c
		}
		if open == nil {
			ctx.Bad("A4", "lockedfile.Write#open", w.Pos(), "Write does not call OpenFile")
			return
		}
		fl, _ := ssax.ConstInt(open.Call.Args[1])
		ctx.Check(fl&osFlag(p, "O_TRUNC") != 0, "A4", "lockedfile.Write#trunc", open.Pos(), "Write opens with O_TRUNC (truncation then happens under the lock by A2)")
		file := ssax.Extracted(open, 0)
		var cp, cl *ssa.Call
		for _, c := range g.Calls("io.Copy") {
			if ssax.Strip(c.Call.Args[0]) == file {
				cp = c
			}
		}
		for _, c := range g.Calls("(*" + lfPkg + ".File).Close") {
			if c.Call.Args[0] == file {
				cl = c
			}
		}
		ok := cp != nil && cl != nil
		if ok {
			cerr := ssax.Extracted(cp, 1)
			sawCopy := false
			for _, r := range g.Returns() {
				if !g.Dominates(cl, r) {
					continue
				}
				// the returned value is the copy error, or the close error on paths where the copy error is nil
				// (one return of a merged value, or separate returns)
				v := ssax.ReturnValues(r)[0]
				_, leaves := phiWeb(v)
				if len(leaves) == 0 {
					leaves = []leaf{{Val: v}}
				}
				for _, l := range leaves {
					facts := g.FactsAtInstr(r)
					if l.Pred != nil {
						facts = factsOnEdge(g, l.Pred, l.Phi.Block())
					}
					switch {
					case l.Val == cerr:
						sawCopy = true
					case l.Val == ssa.Value(cl):
						if !ssax.KnownNil(facts, cerr, true) {
							ok = false
						}
					case ssax.IsNil(l.Val):
						// a literal nil is fine only when both errors are known nil
						if !ssax.KnownNil(facts, cerr, true) || !ssax.KnownNil(facts, cl, true) {
							ok = false
						}
					default:
						ok = false
					}
				}
			}
			if !sawCopy {
				ok = false
			}
		}
		ctx.Check(ok, "A4", "lockedfile.Write#first-error", w.Pos(), "Write returns the copy error, or the close error when the copy succeeded")
	}
}
