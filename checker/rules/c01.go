package rules

import (
	"go/token"
	"strings"

	"golang.org/x/tools/go/ssa"

	"verif/checker/core"
	"verif/checker/ssax"
)

func init() {
	Registry["C01"] = Spec{Run: runC01, Configs: notPlan9, MayFailToLoad: func(c core.Config, msg string) bool { return c.GOOS == "plan9" }}
}

const tsPkg = core.ModPath + "/testscript"
const tsFatalf = "(*" + tsPkg + ".TestScript).Fatalf"
const tsCheck = "(*" + tsPkg + ".TestScript).Check"

func isGlobalLoad(name string) func(ssa.Value) bool {
	return func(v ssa.Value) bool {
		for {
			switch x := v.(type) {
			case *ssa.ChangeInterface:
				v = x.X
				continue
			case *ssa.MakeInterface:
				v = x.X
				continue
			}
			break
		}
		u, ok := v.(*ssa.UnOp)
		if !ok || u.Op != token.MUL {
			return false
		}
		g, ok := u.X.(*ssa.Global)
		return ok && g.Name() == name
	}
}

// isTMethod matches an interface call of testscript.T's method.
func isTCall(i ssa.Instruction, method string) bool {
	c, ok := i.(*ssa.Call)
	return ok && c.Call.IsInvoke() && c.Call.Method.Name() == method && strings.HasSuffix(c.Call.Method.FullName(), "testscript.T)."+method)
}

func runC01(ctx *core.Ctx) {
	ctx.Trusted = append(ctx.Trusted, "go/types, go/ssa", "the documented no-return contract of T.FailNow/T.Fatal/T.Skip (mirrors *testing.T)", "each command does what its name says (regexp matching, file comparison, process execution are not modelled)")
	p := ctx.P
	c01Plumbing(ctx)
	c01Commands(ctx)
	_ = p
}

func c01Plumbing(ctx *core.Ctx) {
	p := ctx.P
	nr := info(p).nr
	ctx.Rule("V1", "Fatalf never returns: no Return is reachable in Fatalf and every path ends in panic of the package's single sentinel value (written only by its initialiser); Check reaches Fatalf on its err != nil edge and returns only when err == nil", 3)
	ctx.Rule("V2", "sentinel conversion: every recover() site either re-panics any non-nil value (callBuiltinCmd) or re-panics everything but the sentinel and then calls its callback (catchFailNow); every 'defer catchFailNow(cb)' has a callback that calls T.FailNow or stores false into the enclosing function's boolean result", 4)
	ctx.Rule("V3", "a failed line fails the run: from the point where runLine returned false, no normal exit of run is reachable; every path ends in T.FailNow (path-sensitive in the local 'failed' flag)", 1)
	ctx.Rule("V4", "without ContinueOnError no further line runs after a failed one; with it the loop does go on to the next runLine", 2)
	ctx.Rule("V5", "stop and skip: every returning path of the stop command stores true into TestScript.stopped, and once run sees stopped no further runLine is reachable; the skip command never returns normally (it ends in T.Skip or Fatalf)", 3)
	ctx.Rule("V6", "line accounting: TestScript.lineno is written only in run, incremented by one in a block executed on every loop iteration before runLine; the FAIL line printed by Fatalf formats the fields file and lineno", 2)
	ctx.Rule("V9", "condition guards: for each combination of '!' prefix and condition result, the rest of the line is skipped (return true without reaching the command lookup) exactly when result != wanted; a condition error reaches Fatalf", 5)
	ctx.Rule("V10", "command lookup: the built-in table is consulted before Params.Cmds, the latter only when the former gave nil, and when both give nil every path ends in Fatalf before the command would be called", 2)
	ctx.Rule("V13", "standalone command: runT.FailNow panics the failedRun sentinel on every path; runT.Run's recover maps exactly that sentinel to failed=true, nil and skipRun to nothing, and re-panics anything else; mainerr returns nil only when failed is false; main exits non-zero whenever mainerr is non-nil", 4)

	fatalf := ctx.Need("V1", "testscript", "(*TestScript).Fatalf")
	check := ctx.Need("V1", "testscript", "(*TestScript).Check")
	run := ctx.Need("V3", "testscript", "(*TestScript).run")
	runLine := ctx.Need("V9", "testscript", "(*TestScript).runLine")
	if fatalf == nil || check == nil || run == nil || runLine == nil {
		return
	}
	// ---- V1
	{
		g := graph(p, fatalf)
		noRet := nr.Names[ssax.FuncName(fatalf)] && len(g.Returns()) == 0
		sentinelOnly := true
		n := 0
		g.Instrs(func(i ssa.Instruction) {
			if pn, ok := i.(*ssa.Panic); ok {
				n++
				if !isGlobalLoad("failNow")(pn.X) {
					sentinelOnly = false
				}
			}
		})
		ctx.Check(noRet && sentinelOnly && n > 0, "V1", "testscript.Fatalf#noreturn", fatalf.Pos(), "Fatalf has no reachable return (%v) and panics only the failNow sentinel (%v, %d panic sites)", noRet, sentinelOnly, n)
		// sentinel writers
		w := 0
		for _, f := range p.ModFuncs() {
			for _, ws := range writesIn(p, f) {
				if ws.Glob != nil && ws.Glob.Name() == "failNow" && ws.Glob.Pkg == p.Pkg("testscript") {
					if f.Name() != "init" {
						w++
					}
				}
			}
		}
		ctx.Check(w == 0, "V1", "testscript.failNow#single-writer", fatalf.Pos(), "the sentinel is assigned only by the package initialiser")
		cg := graph(p, check)
		okc := len(cg.Calls(tsFatalf)) > 0
		for _, c := range cg.Calls(tsFatalf) {
			if !ssax.KnownNil(cg.FactsAtInstr(c), check.Params[1], false) {
				okc = false
			}
		}
		for _, r := range cg.Returns() {
			if !ssax.KnownNil(cg.FactsAtInstr(r), check.Params[1], true) {
				okc = false
			}
		}
		ctx.Check(okc, "V1", "testscript.Check#edges", check.Pos(), "Check(err) reaches Fatalf when err != nil and returns only when err == nil")
	}
	// ---- V2
	{
		sp := p.Pkg("testscript")
		nrec := 0
		var catcher *ssa.Function
		for _, f := range p.ModFuncs() {
			top := f
			for top.Parent() != nil {
				top = top.Parent()
			}
			if top.Pkg != sp {
				continue
			}
			g := graph(p, f)
			for _, rc := range g.Calls("builtin.recover") {
				nrec++
				key := shortFn(f) + "#recover"
				ctx.Seen(f)
				// classify
				callsParam := false
				var pcall *ssa.Call
				g.Instrs(func(i ssa.Instruction) {
					if c, ok := i.(*ssa.Call); ok && len(f.Params) > 0 {
						for _, par := range f.Params {
							if c.Call.Value == ssa.Value(par) {
								callsParam = true
								pcall = c
							}
						}
					}
				})
				if callsParam {
					catcher = f
					// callback only when r != nil and r == sentinel; other values re-panicked
					facts := g.FactsAtInstr(pcall)
					isSent := cmpFact(facts, token.EQL, isVal(rc), isGlobalLoad("failNow"))
					// equal to the sentinel implies non-nil: the sentinel is created by errors.New and written only by its initialiser (V1)
					nonNil := ssax.KnownNil(facts, rc, false) || isSent
					repanic := false
					g.Instrs(func(i ssa.Instruction) {
						if pn, ok := i.(*ssa.Panic); ok && pn.X == ssa.Value(rc) && cmpFact(g.FactsAtInstr(pn), token.NEQ, isVal(rc), isGlobalLoad("failNow")) {
							repanic = true
						}
					})
					ctx.Check(nonNil && isSent && repanic, "V2", key, rc.Pos(), "callback runs only for a recovered sentinel (non-nil %v, equals failNow %v); any other value is re-panicked (%v)", nonNil, isSent, repanic)
					continue
				}
				// re-thrower: under r != nil no normal return; panics r
				ex := &ssax.Explorer{G: g, Assume: func(v ssa.Value, nilness bool) ssax.Abs {
					if v == ssa.Value(rc) && nilness {
						return ssax.False
					}
					return ssax.Unknown
				}}
				okAll := true
				for _, e := range ex.Run(ssax.PointAfter(rc)) {
					if e.Kind == ssax.ExitReturn {
						okAll = false
					}
					if pn, ok := e.Last.(*ssa.Panic); ok && e.Kind == ssax.ExitCut && pn.X != ssa.Value(rc) {
						okAll = false
					}
				}
				ctx.Check(okAll && !ex.Overflow, "V2", key, rc.Pos(), "a recovered non-nil value is always re-panicked unchanged (a swallowed panic would turn a crash or a failure into a pass)")
			}
		}
		if nrec == 0 {
			ctx.Bad("V2", "testscript#recover", token.NoPos, "no recover site found: Fatalf's panic is never converted")
		}
		// defer catchFailNow(cb) sites
		if catcher != nil {
			nd := 0
			for _, f := range p.ModFuncs() {
				g := graph(p, f)
				g.Instrs(func(i ssa.Instruction) {
					d, ok := i.(*ssa.Defer)
					if !ok || d.Call.StaticCallee() != catcher {
						return
					}
					nd++
					mc, ok := d.Call.Args[0].(*ssa.MakeClosure)
					okcb := false
					if ok {
						cb := mc.Fn.(*ssa.Function)
						graph(p, cb).Instrs(func(j ssa.Instruction) {
							if isTCall(j, "FailNow") {
								okcb = true
							}
							if st, ok := j.(*ssa.Store); ok {
								if fv, ok := st.Addr.(*ssa.FreeVar); ok && fv.Type().String() == "*bool" {
									if k, ok := ssax.ConstBool(st.Val); ok && !k {
										okcb = true
									}
								}
							}
						})
					}
					// registered first: dominates every call that may raise
					first := d.Block().Index == 0
					ctx.Check(okcb && first, "V2", shortFn(f)+"#catch", d.Pos(), "catch frame registered in the entry block (%v) with a callback that fails the test or reports the line as failed (%v)", first, okcb)
				})
			}
			if nd < 2 {
				ctx.Bad("V2", "testscript#catch-sites", token.NoPos, "expected catch frames in setup and runLine, found %d", nd)
			}
		}
	}
	// ---- V3 / V4
	g := graph(p, run)
	var rl *ssa.Call
	for _, c := range g.Calls("(*" + tsPkg + ".TestScript).runLine") {
		rl = c
	}
	if rl == nil {
		ctx.Bad("V3", "testscript.run#runLine", run.Pos(), "run does not call runLine")
		return
	}
	// the block entered when runLine returned false
	var failBlk *ssa.BasicBlock
	{
		blk := rl.Block()
		if ifi, ok := blk.Instrs[len(blk.Instrs)-1].(*ssa.If); ok {
			cond, neg := ifi.Cond, false
			for {
				u, ok := cond.(*ssa.UnOp)
				if !ok || u.Op != token.NOT {
					break
				}
				cond, neg = u.X, !neg
			}
			if cond == ssa.Value(rl) {
				if neg {
					failBlk = blk.Succs[0]
				} else {
					failBlk = blk.Succs[1]
				}
			}
		}
	}
	if failBlk == nil {
		ctx.Bad("V3", "testscript.run#failed-line", rl.Pos(), "run does not branch on runLine's result")
	} else {
		for _, mode := range []struct {
			name string
			coe  ssax.Abs
		}{{"any", ssax.Unknown}, {"ContinueOnError=false", ssax.False}, {"ContinueOnError=true", ssax.True}} {
			sawRunLine := false
			ex := &ssax.Explorer{G: g, Assume: func(v ssa.Value, nilness bool) ssax.Abs {
				if !nilness && isFieldLoad("ContinueOnError")(v) {
					return mode.coe
				}
				return ssax.Unknown
			}, Visit: func(i ssa.Instruction) ssax.Action {
				if i == ssa.Instruction(rl) {
					sawRunLine = true
				}
				return ssax.Continue
			}}
			exits := ex.Run(ssax.Point{Block: failBlk.Index})
			normal := ""
			failnow := 0
			for _, e := range exits {
				if e.Kind == ssax.ExitReturn {
					normal = strings.Join(e.Trail, " > ")
				}
				if e.Kind == ssax.ExitCut && isTCall(e.Last, "FailNow") {
					failnow++
				}
			}
			switch mode.name {
			case "any":
				ctx.Check(normal == "" && failnow > 0 && !ex.Overflow, "V3", "testscript.run#failed-line", rl.Pos(), "after a failed line every path of run ends in T.FailNow (%d such ends); normal exit reachable via: %q", failnow, normal)
			case "ContinueOnError=false":
				ctx.Check(!sawRunLine && normal == "", "V4", "testscript.run#stop-at-first-failure", rl.Pos(), "without ContinueOnError no further runLine is reachable after a failed line (reachable: %v)", sawRunLine)
			case "ContinueOnError=true":
				ctx.Check(sawRunLine && normal == "", "V4", "testscript.run#continue-on-error", rl.Pos(), "with ContinueOnError the loop goes on to the next line (%v) and the run still fails at the end", sawRunLine)
			}
		}
	}
	// ---- V5
	if stop := ctx.Need("V5", "testscript", "(*TestScript).cmdStop"); stop != nil {
		sg := graph(p, stop)
		exits := sg.MustPass(ssax.Point{Block: 0}, func(i ssa.Instruction) bool {
			st, ok := i.(*ssa.Store)
			if !ok {
				return false
			}
			fa, ok := st.Addr.(*ssa.FieldAddr)
			return ok && ssax.FieldOf(fa).Name() == "stopped" && isTrueConst(st.Val)
		}, false)
		ctx.Check(len(exits) == 0 && len(sg.Returns()) > 0, "V5", "testscript.cmdStop#sets-stopped", stop.Pos(), "every returning path of stop sets TestScript.stopped")
		// in run: after stopped is seen, no runLine
		okStop := false
		for _, b := range run.Blocks {
			if !g.Reach[b.Index] {
				continue
			}
			ifi, ok := b.Instrs[len(b.Instrs)-1].(*ssa.If)
			if !ok || !isFieldLoad("stopped")(ifi.Cond) || !g.DomBlock(rl.Block().Index, b.Index) {
				continue
			}
			hit, _ := g.ReachableWithout(ssax.Point{Block: b.Succs[0].Index}, func(i ssa.Instruction) bool { return i == ssa.Instruction(rl) }, nil)
			okStop = hit == nil
		}
		ctx.Check(okStop, "V5", "testscript.run#stop-ends-loop", rl.Pos(), "run tests stopped after each line and leaves the loop for good when it is set")
	}
	if skip := ctx.Need("V5", "testscript", "(*TestScript).cmdSkip"); skip != nil {
		sg := graph(p, skip)
		okSkip := len(sg.Returns()) == 0
		sawSkip := false
		sg.Instrs(func(i ssa.Instruction) {
			if isTCall(i, "Skip") {
				sawSkip = true
			}
		})
		ctx.Check(okSkip && sawSkip, "V5", "testscript.cmdSkip#noreturn", skip.Pos(), "skip never returns normally (%v) and reaches T.Skip (%v)", okSkip, sawSkip)
	}
	// ---- V6
	{
		ws := fieldWriters(p, tsPkg, "TestScript", "lineno")
		onlyRun := len(ws) > 0
		var incr *ssa.Store
		for _, w := range ws {
			if w.Fn != run {
				onlyRun = false
				ctx.Bad("V6", shortFn(w.Fn)+"#lineno-write", w.Instr.Pos(), "TestScript.lineno written outside run: the line number in FAIL messages would drift")
			}
			if st, ok := w.Instr.(*ssa.Store); ok {
				if b, ok := st.Val.(*ssa.BinOp); ok && b.Op == token.ADD && isConstIntV(1)(b.Y) && isFieldLoad("lineno")(b.X) {
					incr = st
				}
			}
		}
		everyIter := false
		if incr != nil && len(ws) == 1 {
			everyIter = g.Dominates(incr, rl)
			// the increment's block dominates every back edge of the loop that contains runLine
			for _, l := range loopsOf(g) {
				if !l.Blocks[rl.Block().Index] {
					continue
				}
				for b := range l.Blocks {
					for _, s := range g.Succs[b] {
						if s == l.Header && !g.DomBlock(incr.Block().Index, b) {
							everyIter = false
						}
					}
				}
			}
		}
		ctx.Check(onlyRun && incr != nil && everyIter, "V6", "testscript.run#lineno", posOfVal(nil, run), "lineno is incremented once, by one, in run only (%v), in a block that every loop iteration passes before runLine (%v) - so comment lines count too", onlyRun && incr != nil, everyIter)
		// FAIL operands
		fg := graph(p, fatalf)
		okFail := false
		for _, c := range fg.Calls("fmt.Fprintf") {
			f, _ := ssax.ConstString(c.Call.Args[1])
			if !strings.HasPrefix(f, "FAIL: %s:%d:") {
				continue
			}
			el := variadicElems(c.Call.Args[2])
			okFail = len(el) >= 2 && isFieldLoad("file")(ssax.Strip(el[0])) && isFieldLoad("lineno")(ssax.Strip(el[1])) && isFieldAddrOf("log")(ssax.Strip(c.Call.Args[0]))
		}
		ctx.Check(okFail, "V6", "testscript.Fatalf#FAIL-line", fatalf.Pos(), "Fatalf logs \"FAIL: <file>:<lineno>: ...\" from the TestScript's file and lineno fields into its log")
	}
	// ---- V9 / V10 in runLine
	{
		lg := graph(p, runLine)
		var condCall *ssa.Call
		var bangCall ssa.Value // the boolean "the condition starts with '!'", however it is computed
		for _, c := range lg.Calls("(*" + tsPkg + ".TestScript).condition") {
			condCall = c
		}
		lg.Instrs(func(i ssa.Instruction) {
			v, ok := i.(ssa.Value)
			if !ok || condCall == nil {
				return
			}
			if _, pfx, ok := hasPrefixTest(v); ok && pfx == "!" && lg.Dominates(i, condCall) {
				bangCall = v
			}
		})
		var cmdLookup *ssa.Lookup
		var userLookup *ssa.Lookup
		lg.Instrs(func(i ssa.Instruction) {
			l, ok := i.(*ssa.Lookup)
			if !ok {
				return
			}
			if isGlobalLoad("scriptCmds")(l.X) {
				cmdLookup = l
			}
			if isFieldLoad("Cmds")(l.X) {
				userLookup = l
			}
		})
		if condCall == nil || bangCall == nil || cmdLookup == nil {
			ctx.Bad("V9", "testscript.runLine#guards", runLine.Pos(), "condition handling not recognised (condition call %v, '!' test %v, command lookup %v)", condCall != nil, bangCall != nil, cmdLookup != nil)
		} else {
			okv := ssax.Extracted(condCall, 0)
			errv := ssax.Extracted(condCall, 1)
			for _, bang := range []bool{false, true} {
				for _, res := range []bool{false, true} {
					reached := false
					ex := &ssax.Explorer{G: lg, StopAtStart: true, Assume: func(v ssa.Value, nilness bool) ssax.Abs {
						switch {
						case v == bangCall && !nilness:
							return ssax.AbsOf(bang)
						case v == okv && !nilness:
							return ssax.AbsOf(res)
						case v == errv && nilness:
							return ssax.True
						}
						return ssax.Unknown
					}, Visit: func(i ssa.Instruction) ssax.Action {
						if i == ssa.Instruction(cmdLookup) {
							reached = true
							return ssax.Stop
						}
						return ssax.Continue
					}}
					exits := ex.Run(ssax.PointAt(bangCall.(ssa.Instruction)))
					returned, again := false, false
					for _, e := range exits {
						switch e.Kind {
						case ssax.ExitReturn:
							returned = true
						case ssax.ExitRevisit:
							again = true
						}
					}
					want := !bang // condition must hold unless negated
					skip := res != want
					ok := (skip && returned && !reached && !again) || (!skip && !returned && (reached || again))
					ctx.Check(ok && !ex.Overflow, "V9", "testscript.runLine#guard:bang="+boolS(bang)+",cond="+boolS(res), condCall.Pos(), "[%scond] with cond=%v: line %s (returned early=%v, went on to the command=%v)", map[bool]string{true: "!", false: ""}[bang], res, map[bool]string{true: "must be skipped", false: "must run"}[skip], returned, reached || again)
				}
			}
			// condition error => Fatalf
			ex := &ssax.Explorer{G: lg, Assume: func(v ssa.Value, nilness bool) ssax.Abs {
				if v == errv && nilness {
					return ssax.False
				}
				return ssax.Unknown
			}}
			bad := false
			for _, e := range ex.Run(ssax.PointAfter(condCall)) {
				if e.Kind != ssax.ExitCut || !ssax.IsCallTo(e.Last, tsFatalf) {
					bad = true
				}
			}
			ctx.Check(!bad, "V9", "testscript.runLine#condition-error", condCall.Pos(), "a condition that reports an error fails the line")
		}
		if cmdLookup != nil && userLookup != nil {
			order := lg.Dominates(cmdLookup, userLookup) && ssax.KnownNil(lg.FactsAtInstr(userLookup), cmdLookup, true)
			ctx.Check(order, "V10", "testscript.runLine#lookup-order", cmdLookup.Pos(), "built-ins are looked up first and Params.Cmds only when no built-in matched")
			var invoke *ssa.Call
			for _, c := range lg.Calls("(*" + tsPkg + ".TestScript).callBuiltinCmd") {
				invoke = c
			}
			called := false
			ex := &ssax.Explorer{G: lg, Assume: func(v ssa.Value, nilness bool) ssax.Abs {
				if nilness && (v == ssa.Value(cmdLookup) || v == ssa.Value(userLookup)) {
					return ssax.True
				}
				return ssax.Unknown
			}, Visit: func(i ssa.Instruction) ssax.Action {
				if invoke != nil && i == ssa.Instruction(invoke) {
					called = true
				}
				return ssax.Continue
			}}
			bad := false
			for _, e := range ex.Run(ssax.PointAfter(userLookup)) {
				if e.Kind != ssax.ExitCut || !ssax.IsCallTo(e.Last, tsFatalf) {
					bad = true
				}
			}
			ctx.Check(invoke != nil && !called && !bad, "V10", "testscript.runLine#unknown-command", userLookup.Pos(), "an unknown command always ends in Fatalf and is never invoked (invoked=%v)", called)
		} else {
			ctx.Bad("V10", "testscript.runLine#lookup-order", runLine.Pos(), "command lookups not found")
		}
	}
	// ---- V13
	c01CLI(ctx)
}

func boolS(b bool) string {
	if b {
		return "true"
	}
	return "false"
}

func isFieldAddrOf(name string) func(ssa.Value) bool {
	return func(v ssa.Value) bool {
		fa, ok := v.(*ssa.FieldAddr)
		return ok && ssax.FieldOf(fa) != nil && ssax.FieldOf(fa).Name() == name
	}
}

func c01CLI(ctx *core.Ctx) {
	p := ctx.P
	fn := ctx.Need("V13", "cmd/testscript", "(*runT).FailNow")
	rn := ctx.Need("V13", "cmd/testscript", "(*runT).Run")
	me := ctx.Need("V13", "cmd/testscript", "mainerr")
	mn := ctx.Need("V13", "cmd/testscript", "main")
	if fn == nil || rn == nil || me == nil || mn == nil {
		return
	}
	{
		g := graph(p, fn)
		ok := len(g.Returns()) == 0
		n := 0
		g.Instrs(func(i ssa.Instruction) {
			if pn, isP := i.(*ssa.Panic); isP {
				n++
				if !isGlobalLoad("failedRun")(pn.X) {
					ok = false
				}
			}
		})
		ctx.Check(ok && n > 0, "V13", "cmd/testscript.runT.FailNow#sentinel", fn.Pos(), "runT.FailNow always panics failedRun")
	}
	{
		// the deferred closure in Run
		var cl *ssa.Function
		graph(p, rn).Instrs(func(i ssa.Instruction) {
			if d, ok := i.(*ssa.Defer); ok {
				if mc, ok := d.Call.Value.(*ssa.MakeClosure); ok {
					cl = mc.Fn.(*ssa.Function)
				}
			}
		})
		if cl == nil {
			ctx.Bad("V13", "cmd/testscript.runT.Run#recover", rn.Pos(), "Run has no deferred recover")
		} else {
			cg := graph(p, cl)
			rcs := cg.Calls("builtin.recover")
			okMap := len(rcs) == 1
			if okMap {
				rc := rcs[0]
				// Store(true) only under r == failedRun; under r not in {nil, skipRun, failedRun}: panic
				for _, st := range cg.Calls("(*sync/atomic.Bool).Store") {
					facts := cg.FactsAtInstr(st)
					if !cmpFact(facts, token.EQL, isVal(rc), isGlobalLoad("failedRun")) || !isTrueConst(st.Call.Args[1]) {
						okMap = false
					}
				}
				if len(cg.Calls("(*sync/atomic.Bool).Store")) == 0 {
					okMap = false
				}
				for _, r := range cg.Returns() {
					facts := cg.FactsAtInstr(r)
					_ = facts
				}
				// a return without Store must know r == nil or r == skipRun: use all-paths search
				for _, r := range cg.Returns() {
					okR := onAllPaths(cg, r, rc, func(f ssax.Fact) bool {
						b, ok := f.Cond.(*ssa.BinOp)
						if !ok || b.X != ssa.Value(rc) {
							return false
						}
						eq := (b.Op == token.EQL && f.Val) || (b.Op == token.NEQ && !f.Val)
						return eq && (ssax.IsNil(b.Y) || isGlobalLoad("skipRun")(b.Y) || isGlobalLoad("failedRun")(b.Y))
					})
					if !okR {
						okMap = false
					}
				}
			}
			ctx.Check(okMap, "V13", "cmd/testscript.runT.Run#recover", cl.Pos(), "recover maps failedRun to failed=true, lets nil and skipRun pass, and never returns normally for any other value")
		}
	}
	{
		g := graph(p, me)
		ok := true
		n := 0
		for _, r := range g.Returns() {
			if !ssax.IsNil(ssax.ReturnValues(r)[0]) {
				continue
			}
			// last nil return: dominated by failed.Load() false (for the final one)
			loads := g.Calls("(*sync/atomic.Bool).Load")
			after := false
			for _, l := range loads {
				if g.Dominates(l, r) {
					after = true
					n++
					if !hasFact(g.FactsAtInstr(r), false, isVal(l)) {
						ok = false
					}
				}
			}
			_ = after
		}
		// every nil return after RunT ran must be after the Load
		ctx.Check(ok && n > 0, "V13", "cmd/testscript.mainerr#failed", me.Pos(), "after the scripts ran mainerr returns nil only when failed.Load() is false")
	}
	{
		g := graph(p, mn)
		calls := g.Calls(core.ModPath + "/cmd/testscript.mainerr")
		ok := len(calls) == 1
		if ok {
			c := calls[0]
			ex := &ssax.Explorer{G: g, Assume: func(v ssa.Value, nilness bool) ssax.Abs {
				if v == ssa.Value(c) && nilness {
					return ssax.False
				}
				return ssax.Unknown
			}}
			for _, e := range ex.Run(ssax.PointAfter(c)) {
				cc, isCall := e.Last.(*ssa.Call)
				if e.Kind != ssax.ExitCut || !isCall || ssax.CalleeName(&cc.Call) != "os.Exit" {
					ok = false
					continue
				}
				if k, isK := ssax.ConstInt(cc.Call.Args[0]); !isK || k == 0 {
					ok = false
				}
			}
			ex2 := &ssax.Explorer{G: g, Assume: func(v ssa.Value, nilness bool) ssax.Abs {
				if v == ssa.Value(c) && nilness {
					return ssax.True
				}
				return ssax.Unknown
			}}
			for _, e := range ex2.Run(ssax.PointAfter(c)) {
				if e.Kind != ssax.ExitReturn {
					ok = false
				}
			}
		}
		ctx.Check(ok, "V13", "cmd/testscript.main#exit-status", mn.Pos(), "main exits non-zero exactly when mainerr returned an error")
	}
}
