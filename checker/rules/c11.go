package rules

import (
	"go/token"

	"golang.org/x/tools/go/ssa"

	"verif/checker/core"
	"verif/checker/ssax"
)

func init() { Registry["C11"] = Spec{Run: runC11, Packages: []string{"cache"}} }

// reuseAfterRehash implements R3: the early "already present" exit of the
// data-file copy is gated by size equality and a re-hash of the existing file.
func reuseAfterRehash(ctx *core.Ctx, rule string) {
	p := ctx.P
	ctx.Rule(rule, "reuse only after re-hash: every nil return of the data-file copy that does not pass the committing write is either the empty-file exit (size == 0 after the open) or is dominated by size equality with the existing file and by equality of the expected id with a digest computed from the existing file's bytes", 1)
	cpf := ctx.Need(rule, "cache", "(*Cache).copyFile")
	if cpf == nil {
		return
	}
	g := graph(p, cpf)
	outP, size := cpf.Params[2], cpf.Params[3]
	opens := g.Calls("os.OpenFile")
	n := 0
	for _, r := range g.Returns() {
		if !ssax.IsNil(ssax.ReturnValues(r)[0]) {
			continue
		}
		facts := g.FactsAtInstr(r)
		if len(opens) == 1 && g.Dominates(opens[0], r) {
			// after the open: the protocol exits are C12.P1's business, except size == 0
			continue
		}
		n++
		key := "cache.copyFile#reuse-exit" + itoa(n)
		sizeEq := cmpFact(facts, token.EQL, func(v ssa.Value) bool {
			c, ok := v.(*ssa.Call)
			return ok && c.Call.IsInvoke() && c.Call.Method.Name() == "Size"
		}, func(v ssa.Value) bool { return origin(v) == ssa.Value(size) })
		// digest equality: EQL(out, load of A) with A filled by Sum of a hash fed by io.Copy from os.Open(name)
		hashEq := false
		for _, f := range facts {
			b, ok := f.Cond.(*ssa.BinOp)
			if !ok || !((b.Op == token.EQL && f.Val) || (b.Op == token.NEQ && !f.Val)) {
				continue
			}
			for _, pair := range [][2]ssa.Value{{b.X, b.Y}, {b.Y, b.X}} {
				if origin(pair[0]) != ssa.Value(outP) {
					continue
				}
				u, ok := pair[1].(*ssa.UnOp)
				if !ok {
					continue
				}
				al, ok := u.X.(*ssa.Alloc)
				if !ok {
					continue
				}
				// Sum(slice of al) on hash H
				for _, rr := range ssax.Referrers(al) {
					sl, ok := rr.(*ssa.Slice)
					if !ok {
						continue
					}
					for _, r2 := range ssax.Referrers(sl) {
						sum, ok := r2.(*ssa.Call)
						if !ok || !sum.Call.IsInvoke() || sum.Call.Method.Name() != "Sum" {
							continue
						}
						h := ssax.Strip(sum.Call.Value)
						for _, cp := range g.Calls("io.Copy") {
							if ssax.Strip(cp.Call.Args[0]) != h || !g.Dominates(cp, sum) {
								continue
							}
							fromFile := ssax.DerivedFrom(cp.Call.Args[1], func(v ssa.Value) bool {
								c, ok := v.(*ssa.Call)
								return ok && ssax.CalleeName(&c.Call) == "os.Open"
							}, nil)
							if fromFile {
								hashEq = true
							}
						}
					}
				}
			}
		}
		ctx.Check(sizeEq && hashEq, rule, key, r.Pos(), "existing output trusted only when its size matches (%v) and its re-computed digest equals the expected id (%v); without the re-hash a same-size damaged file is never repaired by a later Put", sizeEq, hashEq)
	}
	if n == 0 {
		ctx.Note(rule, "cache.copyFile#reuse-exit", cpf.Pos(), "no reuse exit: every Put rewrites the output")
		ctx.OKTrivial(rule, "cache.copyFile#no-reuse", cpf.Pos(), "the copy never trusts an existing file")
	}
}

func runC11(ctx *core.Ctx) {
	ctx.Trusted = append(ctx.Trusted, "go/types, go/ssa", "POSIX semantics of concurrent read/write on one file and of O_CREATE without O_TRUNC (not modelled: the rules show the writer never destroys and the reader always gates)")
	p := ctx.P
	lookupGates(ctx, "G")
	ctx.Rule("R1", "index rewrite is non-destructive: the index file is opened with constant flags that contain neither O_TRUNC nor O_APPEND; Truncate is called only after the write succeeded and with the length of the entry just written", 2)
	ctx.Rule("R4", "no shared in-process state: no function reachable from Put/Get/GetFile/GetBytes/OutputFile stores to a field of Cache or to a package-level variable unless a package mutex is definitely held", 1)
	ctx.Rule("R2", "data file committed by its last byte (C12.P1, re-checked here in summary form): the only direct write to the data file is dominated by the digest comparison", 1)
	reuseAfterRehash(ctx, "R3")
	putAlwaysCopies(ctx, "R10")
	lookupsShareNothing(ctx, "R11")
	lookupsReadOnly(ctx, "R12")
	c12PutOrder(ctx, "R6")

	indexRewriteRules(ctx)
	truncGuard(ctx, "R5", false)
	expectedIDReadOnly(ctx, "R7")
	indexNilMeansWritten(ctx, "R8")
	ctx.Rule("R9", "nothing shared is removed: every os.Remove reachable from Put removes a name its own function opened successfully before (C12.P4); an output file is content-addressed and may belong to other entries", 2)
	whoRemoves(ctx, "R9")
	// R2 summary
	if cpf := ctx.Need("R2", "cache", "(*Cache).copyFile"); cpf != nil {
		g := graph(p, cpf)
		opens := g.Calls("os.OpenFile")
		if len(opens) == 1 {
			f := ssax.Extracted(opens[0], 0)
			fm := fileMethodCalls(g, f)
			dcs := digestCompares(g, opens[0])
			ok := len(fm["Write"]) == 1 && len(dcs) == 1 && dcs[0].matched(g.FactsAtInstr(fm["Write"][0]))
			ctx.Check(ok, "R2", "cache.copyFile#commit-byte", opens[0].Pos(), "the single direct write to the data file happens only after the digest matched")
			// the file reaches its full size through that byte only: it is never sized by Truncate
			sized := false
			for _, t := range fm["Truncate"] {
				if z, isK := ssax.ConstInt(t.Call.Args[1]); !isK || z != 0 {
					sized = true
				}
			}
			ctx.Check(!sized, "R2", "cache.copyFile#size-by-last-byte", opens[0].Pos(), "the data file is only ever truncated to 0: a Truncate to the expected size makes a half-written file pass the reader's size gate")
		} else {
			ctx.Bad("R2", "cache.copyFile#commit-byte", cpf.Pos(), "open of the data file not found")
		}
	}
	// R4
	var entries []*ssa.Function
	for _, n := range []string{"(*Cache).Put", "(*Cache).PutNoVerify", "(*Cache).PutBytes", "(*Cache).Get", "(*Cache).GetFile", "(*Cache).GetBytes", "(*Cache).OutputFile"} {
		if f := p.Func("cache", n); f != nil {
			entries = append(entries, f)
		}
	}
	bad := 0
	nf := 0
	for _, f := range reachableMod(p, entries, nil) {
		nf++
		ctx.Seen(f)
		for _, w := range writesIn(p, f) {
			shared := w.Glob != nil || (w.Field != nil && isNamed(w.Base.Type(), cachePkg, "Cache"))
			if !shared {
				continue
			}
			if len(locksetAt(p, f, w.Instr)) > 0 {
				continue
			}
			bad++
			what := ""
			if w.Glob != nil {
				what = "package variable " + w.Glob.Name()
			} else {
				what = "field Cache." + w.Field.Name()
			}
			ctx.Bad("R4", shortFn(f)+"#shared-write"+itoa(bad), w.Instr.Pos(), "%s written on the Put/Get path without a lock: concurrent users share it", what)
		}
	}
	if bad == 0 {
		ctx.OK("R4", "cache#no-shared-writes", token.NoPos, "no unguarded store to Cache fields or package variables in the %d functions reachable from the Put/Get entry points", nf)
	}
}

// indexRewriteRules implements R1 (shared by C05's repair clause and C11).
func indexRewriteRules(ctx *core.Ctx) {
	p := ctx.P
	pidx := ctx.Need("R1", "cache", "(*Cache).putIndexEntry")
	if pidx != nil {
		g := graph(p, pidx)
		for _, open := range g.Calls("os.OpenFile") {
			flags, ok := ssax.PossibleInts(open.Call.Args[1])
			bad := !ok
			for _, fl := range flags {
				if fl&(osFlag(p, "O_TRUNC")|osFlag(p, "O_APPEND")) != 0 {
					bad = true
				}
			}
			ctx.Check(!bad, "R1", "cache.putIndexEntry#open-flags", open.Pos(), "index file opened with flags %v: no O_TRUNC (a concurrent reader would see an empty entry) and no O_APPEND", flags)
			f := ssax.Extracted(open, 0)
			fm := fileMethodCalls(g, f)
			var wr *ssa.Call
			for _, n := range []string{"WriteString", "Write"} {
				for _, c := range fm[n] {
					wr = c
				}
			}
			// the truncate-after-write must be there: without O_TRUNC it is the only thing that removes a
			// stale tail left by earlier damage, and an over-long entry is rejected by the reader
			okRepair := wr != nil && len(fm["Truncate"]) > 0
			if okRepair {
				werr := errOf(wr)
				ex := &ssax.Explorer{G: g, Assume: func(v ssa.Value, nilness bool) ssax.Abs {
					if nilness && v == werr {
						return ssax.True // the write succeeded
					}
					return ssax.Unknown
				}, Visit: func(i ssa.Instruction) ssax.Action {
					for _, t := range fm["Truncate"] {
						if i == ssa.Instruction(t) {
							return ssax.Stop
						}
					}
					return ssax.Continue
				}}
				for _, e := range ex.Run(ssax.PointAfter(wr)) {
					if e.Kind == ssax.ExitReturn {
						okRepair = false // a return reached after a successful write without truncating
					}
				}
			}
			ctx.Check(okRepair, "R1", "cache.putIndexEntry#truncate-present", open.Pos(), "every successful index write is followed by a Truncate to the entry length (a later Put thereby repairs an over-long, damaged entry file)")
			for k, t := range fm["Truncate"] {
				okT := wr != nil && ssax.KnownNil(g.FactsAtInstr(t), errOf(wr), true)
				// argument = len(entry written)
				okLen := wr != nil && ssax.DerivedFrom(t.Call.Args[1], isLenOf(wr.Call.Args[1]), nil)
				ctx.Check(okT && okLen, "R1", "cache.putIndexEntry#truncate"+itoa(k+1), t.Pos(), "Truncate only after a successful write (%v) and to the length of the entry written (%v)", okT, okLen)
			}
			// os.WriteFile / ioutil would truncate first
		}
		for _, c := range g.Calls("os.WriteFile", "io/ioutil.WriteFile", "os.Create") {
			ctx.Bad("R1", "cache.putIndexEntry#truncating-writer", c.Pos(), "%s truncates the entry before writing it", ssax.CalleeName(&c.Call))
		}
	}
}

// truncGuard: O_TRUNC on the data file exactly for an over-long existing file.
// C11 needs "only if" (a smaller or equal file may be another writer's copy in
// progress); C05's repair clause also needs "if" (an over-long damaged file must
// be cut, the reader rejects any size but the recorded one).
func truncGuard(ctx *core.Ctx, rule string, converse bool) {
	p := ctx.P
	text := "a live data file is never cut under another writer: every value of the data file's open flags that contains O_TRUNC arrives on an edge where the existing file was seen (Stat error nil) and is strictly larger than the expected size; a file of equal or smaller size may be a concurrent writer's copy in progress, and truncating it makes that writer's Put return with a hole in the stored bytes"
	if converse {
		text += "; conversely every flag value without O_TRUNC arrives on an edge where the file was not seen or is not larger (an over-long damaged file that is not cut keeps its tail, and the size gate then rejects it forever)"
	}
	ctx.Rule(rule, text, 1)
	cpf := ctx.Need(rule, "cache", "(*Cache).copyFile")
	if cpf == nil {
		return
	}
	g := graph(p, cpf)
	size := cpf.Params[3]
	trunc := osFlag(p, "O_TRUNC")
	isSizeCall := func(v ssa.Value) bool {
		c, ok := v.(*ssa.Call)
		return ok && c.Call.IsInvoke() && c.Call.Method.Name() == "Size"
	}
	var statErr ssa.Value
	for _, c := range g.Calls("os.Stat") {
		statErr = ssax.Extracted(c, 1)
	}
	for k, open := range g.Calls("os.OpenFile") {
		key := "cache.copyFile#trunc" + itoa(k+1)
		arg := open.Call.Args[1]
		_, leaves := phiWeb(arg)
		if _, isPhi := arg.(*ssa.Phi); !isPhi {
			leaves = []leaf{{Val: arg}}
		}
		bad := ""
		for _, l := range leaves {
			vals, ok := ssax.PossibleInts(l.Val)
			if !ok {
				bad = "open flags are not constant"
				break
			}
			has := false
			for _, v := range vals {
				if v&trunc != 0 {
					has = true
				}
			}
			var facts []ssax.Fact
			if l.Pred != nil {
				facts = factsOnEdge(g, l.Pred, l.Phi.Block())
			} else {
				facts = g.FactsAtInstr(open)
			}
			larger := cmpFact(facts, token.GTR, isSizeCall, isVal(size))
			if has && !larger {
				bad = "O_TRUNC chosen without establishing existing size > expected size"
			}
			if !has && converse {
				notLarger := cmpFact(facts, token.LEQ, isSizeCall, isVal(size)) || (statErr != nil && ssax.KnownNil(facts, statErr, false))
				if !notLarger {
					bad = "flags without O_TRUNC chosen although the existing file may be larger than expected: an over-long file is not cut"
				}
			}
		}
		ctx.Check(bad == "", rule, key, open.Pos(), "O_TRUNC on the data file exactly when the existing file is strictly larger than the expected size %s", bad)
	}
}

// expectedIDReadOnly: the expected output id handed to the data-file copy is
// compared against, never written: no slice of it is the destination of a hash
// Sum, a copy or an append, and no element of it is stored to. Writing the
// freshly computed digest into it makes the "content changed underfoot"
// comparison a tautology.
func expectedIDReadOnly(ctx *core.Ctx, rule string) {
	p := ctx.P
	ctx.Rule(rule, "the expected output id is read-only in the data-file copy: no slice of it is passed as the destination of a hash Sum, copy or append and none of its elements is assigned; otherwise the digest comparison that guards the committing byte compares the digest with itself", 1)
	cpf := ctx.Need(rule, "cache", "(*Cache).copyFile")
	if cpf == nil {
		return
	}
	g := graph(p, cpf)
	outP := cpf.Params[2]
	// the local that holds the parameter
	isOut := func(v ssa.Value) bool {
		if v == ssa.Value(outP) {
			return true
		}
		al, ok := v.(*ssa.Alloc)
		if !ok {
			return false
		}
		for _, r := range ssax.Referrers(al) {
			if st, ok := r.(*ssa.Store); ok && st.Addr == ssa.Value(al) && st.Val == ssa.Value(outP) {
				return true
			}
		}
		return false
	}
	sliceOfOut := func(v ssa.Value) bool {
		sl, ok := v.(*ssa.Slice)
		return ok && isOut(sl.X)
	}
	bad := ""
	g.Instrs(func(i ssa.Instruction) {
		switch x := i.(type) {
		case *ssa.Call:
			args := x.Call.Args
			switch {
			case x.Call.IsInvoke() && x.Call.Method.Name() == "Sum" && len(args) == 1 && sliceOfOut(args[0]):
				bad = "a hash Sum appends into the expected id"
			case (isBuiltinCall(x, "copy") || isBuiltinCall(x, "append")) && len(args) > 0 && sliceOfOut(args[0]):
				bad = "the expected id is the destination of a copy/append"
			}
		case *ssa.Store:
			if ia, ok := x.Addr.(*ssa.IndexAddr); ok && isOut(ia.X) {
				bad = "an element of the expected id is assigned"
			}
		}
	})
	ctx.Check(bad == "", rule, "cache.copyFile#expected-id-readonly", cpf.Pos(), "the expected id is only compared against %s", bad)
}

// indexNilMeansWritten: putIndexEntry reports success only after the entry was
// written: every return of a nil error lies behind a successful write to the
// index file it opened. A shortcut that returns nil earlier leaves an old
// mapping in place while Put reports the new one as stored.
func indexNilMeansWritten(ctx *core.Ctx, rule string) {
	p := ctx.P
	ctx.Rule(rule, "the index write is not skipped: in putIndexEntry every return of a nil error is dominated by a write of the entry to the opened index file whose error was found nil", 1)
	pidx := ctx.Need(rule, "cache", "(*Cache).putIndexEntry")
	if pidx == nil {
		return
	}
	g := graph(p, pidx)
	var writes []*ssa.Call
	for _, open := range g.Calls("os.OpenFile") {
		fm := fileMethodCalls(g, ssax.Extracted(open, 0))
		for _, n := range []string{"WriteString", "Write"} {
			writes = append(writes, fm[n]...)
		}
	}
	n, bad := 0, ""
	for _, r := range g.Returns() {
		rv := ssax.ReturnValues(r)
		// a return whose error is nil on some path: the constant nil, or a value known nil there
		isNil := ssax.IsNil(rv[len(rv)-1])
		if !isNil {
			continue
		}
		n++
		ok := false
		for _, w := range writes {
			if g.Dominates(w, r) && ssax.KnownNil(g.FactsAtInstr(r), errOf(w), true) {
				ok = true
			}
		}
		if !ok {
			bad = "a nil return is reachable without a successful write of the entry"
		}
	}
	// returns of a merged error value: each nil leaf must come from behind the write as well
	for _, r := range g.Returns() {
		rv := ssax.ReturnValues(r)
		// a return taken only where the value is known non-nil ("if err != nil { clean up; return err }")
		// hands back no nil, whatever was merged into the variable
		if ssax.KnownNil(g.FactsAtInstr(r), rv[len(rv)-1], false) {
			continue
		}
		_, leaves := phiWeb(rv[len(rv)-1])
		for _, l := range leaves {
			if !ssax.IsNil(l.Val) {
				continue
			}
			n++
			ok := false
			for _, w := range writes {
				if g.DomBlock(w.Block().Index, l.Pred.Index) && ssax.KnownNil(factsOnEdge(g, l.Pred, l.Phi.Block()), errOf(w), true) {
					ok = true
				}
			}
			if !ok {
				bad = "a nil result is merged in from a path without a successful write of the entry"
			}
		}
	}
	ctx.Check(bad == "" && len(writes) > 0, rule, "cache.putIndexEntry#nil-means-written", pidx.Pos(), "success is reported only after the entry was written (%d nil results examined) %s", n, bad)
}
