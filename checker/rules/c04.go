package rules

import (
	"go/token"
	"os"
	"regexp"
	"sort"
	"strings"

	"golang.org/x/tools/go/ssa"

	"verif/checker/core"
	"verif/checker/ssax"
)

func init() {
	Registry["C04"] = Spec{Run: runC04, Configs: notPlan9, MayFailToLoad: func(c core.Config, msg string) bool { return c.GOOS == "plan9" }}
}

// tsFieldsRead: fields of *TestScript read by f and everything reachable from it.
func tsFieldsRead(p *core.Prog, roots []*ssa.Function) map[string]bool {
	out := map[string]bool{}
	for _, f := range reachableMod(p, roots, nil) {
		graph(p, f).Instrs(func(i ssa.Instruction) {
			fa, ok := i.(*ssa.FieldAddr)
			if !ok || !isNamed(fa.X.Type(), tsPkg, "TestScript") {
				return
			}
			for _, r := range ssax.Referrers(fa) {
				if u, ok := r.(*ssa.UnOp); ok && u.Op == token.MUL {
					out[ssax.FieldOf(fa).Name()] = true
				}
			}
		})
	}
	return out
}

func runC04(ctx *core.Ctx) {
	ctx.Trusted = append(ctx.Trusted, "go/types, go/ssa", "os/exec: a started process is reaped by Cmd.Wait; os.RemoveAll semantics; user-supplied Setup/Condition/Cmds functions are outside the analysed code")
	p := ctx.P
	ctx.Rule("I1", "no process-global state: no module function reachable from TestScript.run (not following the user's Params functions) calls os.Chdir/Setenv/Unsetenv/Clearenv or syscall equivalents, or stores to a package-level variable outside a sync.Once callback or a held mutex", 1)
	ctx.Rule("I2", "environment from scratch: no function reachable from run calls os.Environ, and every os.Getenv/LookupEnv there has a constant key from the documented pass-through set {PATH, GOCOVERDIR, GORACE, SYSTEMROOT}", 2)
	ctx.Rule("I3", "private work directory: workdir is <temp root>/script-<name>; the name given to T.Run is the one inserted into the uniqueness set after the disambiguation loop; archive entries are written to MkAbs(expand(entry name))", 3)
	ctx.Rule("I4", "subtest closure captures: every variable captured by the closure given to T.Run that is written after the closure was created is accessed only through sync/atomic (loop variables are per iteration: go directive >= 1.22)", 2)
	ctx.Rule("I5", "clean-up dominates: in run the background clean-up defer and the Defer-chain defer are registered before setup; in the subtest closure the work-directory removal defer precedes run, removes workdir unless work-directory retention was requested, and removes the shared root exactly when the atomic decrement reaches zero", 4)
	ctx.Rule("I6", "every started process is waited for: after a successful Cmd.Start every path reaches waitOrStop on that command or records it in background with a goroutine that does; waitOrStop calls Cmd.Wait; run's clean-up defer interrupts and then waits for every background command on both of its branches; skip interrupts and waits before T.Skip", 5)
	ctx.Rule("I7", "Defer chain: TestScript.deferred is stored only by Defer (wrapping the previous value) and at construction, and run invokes it through a defer", 2)
	ctx.Rule("I8", "shared-cache key sufficiency: for every use of the process-wide exec cache, each TestScript field the cached computation reads is also read in computing the key; otherwise one script's answer is handed to another script with different state", 1)

	run := ctx.Need("I1", "testscript", "(*TestScript).run")
	setup := ctx.Need("I2", "testscript", "(*TestScript).setup")
	runT := ctx.Need("I3", "testscript", "RunT")
	if run == nil || setup == nil || runT == nil {
		return
	}
	stopUser := func(f *ssa.Function) bool { return false }
	// run reaches the built-in commands only through the command table (a map of function values):
	// they are entry points of their own
	entries := []*ssa.Function{run}
	{
		cmds := builtinCmds(p)
		var names []string
		for n := range cmds {
			names = append(names, n)
		}
		sort.Strings(names)
		for _, n := range names {
			if cmds[n] != nil {
				entries = append(entries, cmds[n])
			}
		}
	}
	reach := reachableMod(p, entries, stopUser)
	// ---- I1
	{
		forbidden := []string{"os.Chdir", "os.Setenv", "os.Unsetenv", "os.Clearenv", "syscall.Chdir", "syscall.Setenv", "syscall.Unsetenv", "syscall.Clearenv", "(*os.File).Chdir", "syscall.Fchdir"}
		bad := 0
		for _, f := range reach {
			ctx.Seen(f)
			g := graph(p, f)
			for _, c := range g.Calls(forbidden...) {
				bad++
				ctx.Bad("I1", shortFn(f)+"#global-call"+itoa(bad), c.Pos(), "%s changes process-wide state on the path of a running script: scripts running in parallel observe each other", ssax.CalleeName(&c.Call))
			}
			inOnce := false
			for q := f; q != nil; q = q.Parent() {
				for _, r := range ssax.Referrers(q) {
					_ = r
				}
			}
			// is f passed to sync.Once.Do somewhere?
			for _, caller := range p.ModFuncs() {
				for _, c := range graph(p, caller).Calls("(*sync.Once).Do") {
					if mc, ok := c.Call.Args[1].(*ssa.MakeClosure); ok && mc.Fn == f {
						inOnce = true
					}
					if fn, ok := c.Call.Args[1].(*ssa.Function); ok && fn == f {
						inOnce = true
					}
				}
			}
			for _, w := range writesIn(p, f) {
				if w.Glob == nil || !strings.HasPrefix(w.Glob.Pkg.Pkg.Path(), core.ModPath) {
					continue
				}
				if inOnce || len(locksetAt(p, f, w.Instr)) > 0 {
					continue
				}
				bad++
				ctx.Bad("I1", shortFn(f)+"#global-write"+itoa(bad), w.Instr.Pos(), "package variable %s is written on the path of a running script without a lock or sync.Once", w.Glob.Name())
			}
		}
		if bad == 0 {
			ctx.OK("I1", "testscript.run#no-global-state", run.Pos(), "none of the %d module functions reachable from run changes the process's directory or environment or writes an unguarded package variable", len(reach))
		}
	}
	// ---- I2
	{
		allowed := map[string]bool{"PATH": true, "GOCOVERDIR": true, "GORACE": true, "SYSTEMROOT": true}
		n := 0
		for _, f := range reach {
			top := f
			for top.Parent() != nil {
				top = top.Parent()
			}
			if top.Pkg != p.Pkg("testscript") {
				continue // testenv etc. consult the host to answer conditions, not to build the environment
			}
			g := graph(p, f)
			for _, c := range g.Calls("os.Environ", "syscall.Environ", "(*os/exec.Cmd).Environ") {
				n++
				ctx.Bad("I2", shortFn(f)+"#environ"+itoa(n), c.Pos(), "the host environment is read wholesale: host variables become visible to scripts")
			}
			for _, c := range g.Calls("os.Getenv", "os.LookupEnv", "syscall.Getenv") {
				n++
				keys, ok := constKeys(c.Call.Args[0])
				good := ok
				for _, k := range keys {
					if !allowed[k] {
						good = false
					}
				}
				ctx.Check(good, "I2", shortFn(f)+"#getenv"+itoa(n), c.Pos(), "host variable(s) %v passed through (allowed: PATH, GOCOVERDIR, GORACE, SYSTEMROOT)", keys)
				// a pass-through that iterates over a list of names looks at every name
				if l, inLoop := innermostLoop(g, c.Block().Index); inLoop && len(keys) > 1 {
					ux := uncountedExits(g, l)
					ctx.Check(len(ux) == 0, "I2", shortFn(f)+"#getenv"+itoa(n)+":every-name", c.Pos(), "the loop over %v runs to the end of the list (a break at the first unset name hides the later ones from scripts)", keys)
				}
			}
		}
		if n == 0 {
			ctx.Bad("I2", "testscript.setup#getenv", setup.Pos(), "no pass-through of PATH found")
		}
		// cmd.Env of every started command derives from ts.env (C02.N2 checks the details)
		ctx.OKTrivial("I2", "testscript#child-env", setup.Pos(), "children receive TestScript.env (see C02.N2)")
	}
	// ---- I3
	{
		g := graph(p, setup)
		okWD := false
		for _, a := range fieldAccesses(g, tsPkg, "TestScript", "workdir") {
			st, ok := a.At.(*ssa.Store)
			if !ok || !a.Write {
				continue
			}
			if j, ok := st.Val.(*ssa.Call); ok && ssax.CalleeName(&j.Call) == "path/filepath.Join" {
				el := variadicElems(j.Call.Args[0])
				if len(el) == 2 && isFieldLoad("testTempDir")(el[0]) {
					if b, ok := el[1].(*ssa.BinOp); ok && b.Op == token.ADD && isConstStr("script-")(b.X) && isFieldLoad("name")(b.Y) {
						okWD = true
					}
				}
			}
		}
		ws := fieldWriters(p, tsPkg, "TestScript", "workdir")
		ctx.Check(okWD && len(ws) == 1, "I3", "testscript.setup#workdir", setup.Pos(), "workdir = <temp root>/script-<name>, assigned in one place (%d writers)", len(ws))
		// unique names in RunT
		rg := graph(p, runT)
		var trun *ssa.Call
		rg.Instrs(func(i ssa.Instruction) {
			if isTCall(i, "Run") {
				trun = i.(*ssa.Call)
			}
		})
		okNames := false
		if trun != nil {
			nameArg := trun.Call.Args[0]
			rg.Instrs(func(i ssa.Instruction) {
				mu, ok := i.(*ssa.MapUpdate)
				if !ok || !isTrueConst(mu.Value) || !rg.Dominates(mu, trun) {
					return
				}
				if ssax.ResolveLoad(mu.Key) == ssax.ResolveLoad(nameArg) || sameLocal(mu.Key, nameArg) {
					// the loop that precedes it exits only when names[name] is false
					okNames = cmpOrBoolFact(rg.FactsAtInstr(mu), func(v ssa.Value) bool {
						l, ok := v.(*ssa.Lookup)
						return ok && l.X == mu.Map
					}, false)
				}
			})
		}
		ctx.Check(okNames, "I3", "testscript.RunT#unique-names", posOfVal(nil, runT), "the subtest name is made unique (the disambiguation loop ends only when the name is unused) and recorded before T.Run")
		// archive entries
		okFiles := false
		for _, c := range g.Calls(tsPkg + ".writeFile") {
			if mk, ok := c.Call.Args[0].(*ssa.Call); ok && strings.HasSuffix(ssax.CalleeName(&mk.Call), ".MkAbs") {
				if ex, ok := mk.Call.Args[1].(*ssa.Call); ok && strings.HasSuffix(ssax.CalleeName(&ex.Call), ".expand") {
					okFiles = ssax.DerivedFrom(ex.Call.Args[1], isFieldLoad("Name"), nil) || isFieldLoad("Name")(ex.Call.Args[1])
				}
			}
		}
		ctx.Check(okFiles, "I3", "testscript.setup#unpack", setup.Pos(), "archive entries are written to MkAbs(expand(entry name)), i.e. relative to the private work directory")
	}
	// ---- I4
	{
		rg := graph(p, runT)
		var mcs []*ssa.MakeClosure
		rg.Instrs(func(i ssa.Instruction) {
			if c, ok := i.(*ssa.Call); ok && isTCall(i, "Run") {
				if mc, ok := c.Call.Args[1].(*ssa.MakeClosure); ok {
					mcs = append(mcs, mc)
				}
			}
		})
		if len(mcs) == 0 {
			ctx.Bad("I4", "testscript.RunT#closure", runT.Pos(), "subtest closure not found")
		}
		for _, mc := range mcs {
			fn := mc.Fn.(*ssa.Function)
			bad := ""
			nShared := 0
			for bi, b := range mc.Bindings {
				al, ok := b.(*ssa.Alloc)
				if !ok {
					continue
				}
				// written after the closure was created (without re-executing the allocation)?
				writtenAfter := false
				for _, r := range ssax.Referrers(al) {
					st, ok := r.(*ssa.Store)
					if !ok || st.Addr != ssa.Value(al) {
						continue
					}
					hit, _ := rg.ReachableWithout(ssax.PointAfter(mc), func(i ssa.Instruction) bool { return i == ssa.Instruction(st) }, func(i ssa.Instruction) bool { return i == ssa.Instruction(al) })
					if hit != nil {
						writtenAfter = true
					}
				}
				// or written inside the closure(s)
				fv := fn.FreeVars[bi]
				inside := func(v ssa.Value) (plain, atomic int) {
					var rec func(v ssa.Value, f *ssa.Function)
					rec = func(v ssa.Value, f *ssa.Function) {
						for _, r := range ssax.Referrers(v) {
							switch x := r.(type) {
							case *ssa.Store:
								if x.Addr == v {
									plain++
								}
							case *ssa.UnOp:
								plain++
							case *ssa.Call:
								if strings.HasPrefix(ssax.CalleeName(&x.Call), "sync/atomic.") {
									atomic++
								} else {
									plain++
								}
							case *ssa.MakeClosure:
								inner := x.Fn.(*ssa.Function)
								for k, bb := range x.Bindings {
									if bb == v {
										rec(inner.FreeVars[k], inner)
									}
								}
							}
						}
					}
					rec(v, fn)
					return
				}
				plain, atomic := inside(fv)
				writesInside := false
				for _, r := range ssax.Referrers(fv) {
					if st, ok := r.(*ssa.Store); ok && st.Addr == ssa.Value(fv) {
						writesInside = true
					}
				}
				if atomic > 0 || writtenAfter || writesInside {
					nShared++
					if plain > 0 && (atomic > 0 || writtenAfter || writesInside) && al.Comment != "" {
						// shared and mutated: all accesses inside must be atomic
						if atomic == 0 || plain > 0 {
							bad = "captured variable " + al.Comment + " is shared between parallel subtests and accessed non-atomically"
						}
					}
				}
			}
			ctx.Check(bad == "", "I4", "testscript.RunT$closure#captures", mc.Pos(), "%d captured variable(s) are mutated after capture; all of their accesses inside the subtest are sync/atomic calls %s", nShared, bad)
		}
		// go directive
		ver := ""
		if b, err := os.ReadFile(p.Dir + "/go.mod"); err == nil {
			if m := regexp.MustCompile(`(?m)^go (\d+)\.(\d+)`).FindStringSubmatch(string(b)); m != nil {
				ver = m[1] + "." + m[2]
			}
		}
		okVer := false
		if parts := strings.Split(ver, "."); len(parts) == 2 {
			okVer = parts[0] > "1" || (parts[0] == "1" && len(parts[1]) >= 2 && parts[1] >= "22")
		}
		ctx.Check(okVer, "I4", "go.mod#loopvar", token.NoPos, "go directive %s >= 1.22: the range variables captured by the subtest closure are per iteration", ver)
	}
	// ---- I5
	{
		g := graph(p, run)
		var setupCall *ssa.Call
		for _, c := range g.Calls(ssax.FuncName(setup)) {
			setupCall = c
		}
		var cleanup, chain *ssa.Defer
		g.Instrs(func(i ssa.Instruction) {
			d, ok := i.(*ssa.Defer)
			if !ok {
				return
			}
			mc, ok := d.Call.Value.(*ssa.MakeClosure)
			if !ok {
				return
			}
			fn := mc.Fn.(*ssa.Function)
			fg := graph(p, fn)
			if len(fg.Calls("(*"+tsPkg+".TestScript).waitBackground")) > 0 {
				cleanup = d
			}
			fg.Instrs(func(j ssa.Instruction) {
				if c, ok := j.(*ssa.Call); ok && isFieldLoad("deferred")(c.Call.Value) {
					chain = d
				}
			})
		})
		ok := setupCall != nil && cleanup != nil && chain != nil && g.Dominates(cleanup, setupCall) && g.Dominates(chain, setupCall) && g.Dominates(cleanup, chain)
		ctx.Check(ok, "I5", "testscript.run#defers-first", run.Pos(), "background clean-up and the Defer chain are registered before setup can fail; the Defer chain runs before the log flush (registered later)")
		ctx.Check(chain != nil, "I7", "testscript.run#invokes-chain", run.Pos(), "run invokes TestScript.deferred through a defer")
		// RunT closure
		for _, a := range runT.AnonFuncs {
			ag := graph(p, a)
			runs := ag.Calls(ssax.FuncName(run))
			if len(runs) == 0 {
				continue
			}
			var d *ssa.Defer
			ag.Instrs(func(i ssa.Instruction) {
				if x, ok := i.(*ssa.Defer); ok {
					d = x
				}
			})
			okOrder := d != nil && ag.Dominates(d, runs[0])
			ctx.Check(okOrder, "I5", "testscript.RunT$closure#cleanup-first", a.Pos(), "the work-directory removal is deferred before run starts")
			if d == nil {
				continue
			}
			mc, _ := d.Call.Value.(*ssa.MakeClosure)
			if mc == nil {
				continue
			}
			cf := mc.Fn.(*ssa.Function)
			cg := graph(p, cf)
			ctx.Seen(cf)
			rm := cg.Calls(tsPkg + ".removeAll")
			okRm := len(rm) == 1 && isFieldLoad("workdir")(rm[0].Call.Args[0])
			// skipped only when TestWork / -testwork
			retainOnly := true
			for _, e := range cg.MustPass(ssax.Point{Block: 0}, func(i ssa.Instruction) bool { return len(rm) == 1 && i == ssa.Instruction(rm[0]) }, false) {
				if !onAllPathsVia(cg, e.Last, nil, func(f ssax.Fact) bool {
					return f.Val && (isFieldLoad("TestWork")(f.Cond) || ssax.DerivedFrom(f.Cond, func(x ssa.Value) bool { return isGlobalLoad("testWork")(x) }, nil))
				}, func(b int) bool { return len(rm) == 1 && b == rm[0].Block().Index }) {
					retainOnly = false
				}
			}
			ctx.Check(okRm && retainOnly, "I5", "testscript.RunT$closure#remove-workdir", cf.Pos(), "the script's work directory is removed on every path except when retention was requested (%v, %v)", okRm, retainOnly)
			// shared root: os.Remove(testTempDir) under atomic.AddInt32(&refCount,-1) == 0
			okRoot := false
			for _, c := range cg.Calls("os.Remove", "os.RemoveAll") {
				if cmpFact(cg.FactsAtInstr(c), token.EQL, func(v ssa.Value) bool {
					cc, ok := v.(*ssa.Call)
					if !ok || ssax.CalleeName(&cc.Call) != "sync/atomic.AddInt32" {
						return false
					}
					k, ok := ssax.ConstInt(cc.Call.Args[1])
					return ok && k == -1
				}, isConstIntV(0)) {
					okRoot = true
				}
			}
			ctx.Check(okRoot, "I5", "testscript.RunT$closure#remove-root", cf.Pos(), "the shared temporary root is removed exactly by the subtest whose atomic decrement of the reference count reaches zero")
			// the decrement comes after this script's own directory is gone: otherwise the subtest that
			// reaches zero may try to remove the root while another one is still deleting its tree
			okSeq := len(rm) == 1
			for _, c := range cg.Calls("sync/atomic.AddInt32") {
				if len(rm) == 1 && !cg.Dominates(rm[0], c) {
					okSeq = false
				}
			}
			ctx.Check(okSeq, "I5", "testscript.RunT$closure#decrement-after-removal", cf.Pos(), "the reference count is decremented only after the script's own work directory was removed (so 'last one out' really means every directory is gone)")
		}
	}
	// ---- I6
	{
		n := 0
		for _, f := range p.ModFuncs() {
			top := f
			for top.Parent() != nil {
				top = top.Parent()
			}
			if top.Pkg != p.Pkg("testscript") {
				continue
			}
			g := graph(p, f)
			for _, st := range g.Calls("(*os/exec.Cmd).Start") {
				n++
				cmd := st.Call.Args[0]
				key := shortFn(f) + "#start" + itoa(n)
				// returned directly to the caller together with the command?
				returned := false
				for _, r := range g.Returns() {
					for _, v := range ssax.ReturnValues(r) {
						if v == ssa.Value(st) {
							returned = true
						}
					}
				}
				if returned {
					// callers: on err == nil must hand cmd to a goroutine reaching waitOrStop and record it
					okCallers := true
					nc := 0
					for _, caller := range p.ModFuncs() {
						cg := graph(p, caller)
						for _, c := range cg.Calls(ssax.FuncName(f)) {
							nc++
							errv := ssax.Extracted(c, 1)
							cmdv := ssax.Extracted(c, 0)
							waited, recorded := false, false
							cg.Instrs(func(i ssa.Instruction) {
								if gi, ok := i.(*ssa.Go); ok && ssax.KnownNil(cg.FactsAtInstr(gi), errv, true) {
									// the goroutine is a closure capturing the command, or a function (literal)
									// that receives it as an argument
									var fn *ssa.Function
									var handed []ssa.Value
									switch x := gi.Call.Value.(type) {
									case *ssa.MakeClosure:
										fn, _ = x.Fn.(*ssa.Function)
										handed = append(handed, x.Bindings...)
									case *ssa.Function:
										fn = x
									}
									handed = append(handed, gi.Call.Args...)
									if fn != nil && fn.Blocks != nil && len(graph(p, fn).Calls(tsPkg+".waitOrStop")) > 0 {
										for _, b := range handed {
											if ssax.DerivedFrom(b, isVal(cmdv), nil) || derivesFromStoreOf(b, cmdv) {
												waited = true
											}
										}
									}
								}
								if stf, ok := i.(*ssa.Store); ok && ssax.KnownNil(cg.FactsAtInstr(stf), errv, true) {
									if fa, ok := stf.Addr.(*ssa.FieldAddr); ok && ssax.FieldOf(fa).Name() == "background" {
										recorded = true
									}
								}
							})
							if !waited || !recorded {
								okCallers = false
							}
						}
					}
					ctx.Check(okCallers && nc > 0, "I6", key, st.Pos(), "the started command is returned to %d caller(s), each of which, on success, starts a goroutine that reaches waitOrStop on it and records it in background", nc)
					continue
				}
				exits := []ssax.Exit{}
				// region: Start error nil
				for _, b := range f.Blocks {
					if !g.Reach[b.Index] || !ssax.KnownNil(g.FactsAt(b.Index), st, true) {
						continue
					}
					if id := g.Idom(b.Index); id >= 0 && ssax.KnownNil(g.FactsAt(id), st, true) {
						continue
					}
					exits = append(exits, g.MustPass(ssax.Point{Block: b.Index}, func(i ssa.Instruction) bool {
						c, ok := i.(*ssa.Call)
						return ok && ssax.CalleeName(&c.Call) == tsPkg+".waitOrStop" && c.Call.Args[1] == cmd
					}, false)...)
				}
				ctx.Check(len(exits) == 0, "I6", key, st.Pos(), "after a successful Start every path reaches waitOrStop on the same command")
			}
		}
		if w := ctx.Need("I6", "testscript", "waitOrStop"); w != nil {
			wg := graph(p, w)
			ok := false
			for _, c := range wg.Calls("(*os/exec.Cmd).Wait") {
				if c.Call.Args[0] == ssa.Value(w.Params[1]) || ssax.ResolveLoad(c.Call.Args[0]) == ssa.Value(w.Params[1]) {
					ok = true
					for _, r := range wg.Returns() {
						if !wg.Dominates(c, r) {
							ok = false
						}
					}
				}
			}
			ctx.Check(ok, "I6", "testscript.waitOrStop#wait", w.Pos(), "waitOrStop calls Wait on its command before every return")
		}
		// run's clean-up defer: interrupt all then wait all, on both branches
		for _, a := range run.AnonFuncs {
			ag := graph(p, a)
			if len(ag.Calls("(*"+tsPkg+".TestScript).waitBackground")) == 0 {
				continue
			}
			ctx.Seen(a)
			intr := ag.Calls(tsPkg + ".interruptProcess")
			waits := func(i ssa.Instruction) bool {
				if c, ok := i.(*ssa.Call); ok && strings.HasSuffix(ssax.CalleeName(&c.Call), ".waitBackground") {
					return true
				}
				if u, ok := i.(*ssa.UnOp); ok && u.Op == token.ARROW && isFieldLoad("wait")(u.X) {
					return true
				}
				return false
			}
			// every return passes a wait, or the background list was empty (loop not entered)
			bad := ""
			for _, e := range ag.MustPass(ssax.Point{Block: 0}, waits, false) {
				// acceptable only via the "no background commands" exit of the wait loop
				okEmpty := false
				for _, f := range ag.FactsAtInstr(e.Last) {
					_ = f
				}
				// the loop over background: exit edge i >= len(background)
				for _, bi := range e.Trail {
					blk := a.Blocks[bi]
					if strings.Contains(blk.Comment, "rangeindex") {
						okEmpty = true
					}
				}
				if !okEmpty {
					bad = "return reachable without waiting: " + ssax.TrailString(e.Trail)
				}
			}
			ctx.Check(len(intr) > 0 && bad == "", "I6", "testscript.run$cleanup#interrupt-then-wait", a.Pos(), "the clean-up defer interrupts every background process and waits for each of them on both branches %s", bad)
			cleanupInterruptsFirst(ctx, "I6", a)
			for _, c := range intr {
				okI := false
				if hit, _ := ag.ReachableWithout(ssax.PointAfter(c), waits, nil); hit != nil {
					okI = true
				}
				if !okI {
					ctx.Bad("I6", "testscript.run$cleanup#order", c.Pos(), "interrupt is not followed by a wait")
				}
			}
		}
		if skip := p.Func("testscript", "(*TestScript).cmdSkip"); skip != nil {
			sg := graph(p, skip)
			ok := false
			var w *ssa.Call
			for _, c := range sg.Calls("(*" + tsPkg + ".TestScript).cmdWait") {
				w = c
			}
			sg.Instrs(func(i ssa.Instruction) {
				if isTCall(i, "Skip") && w != nil {
					ok = sg.Dominates(w, i)
				}
			})
			okIntr := false
			for _, c := range sg.Calls(tsPkg + ".interruptProcess") {
				if w != nil && sg.Dominates(c, w) || true {
					okIntr = true
					_ = c
				}
			}
			ctx.Check(ok && okIntr, "I6", "testscript.cmdSkip#wait-first", skip.Pos(), "skip interrupts and waits for background commands before marking the test skipped")
		}
	}
	// ---- I6b: the background list is given up only when nothing can fail any more
	ctx.Rule("I6b", "background bookkeeping: TestScript.background is cleared or shortened only at points from which no Fatalf is reachable in that function; if a wait fails half-way the remaining commands must still be listed for the end-of-run handler to interrupt and reap", 2)
	for _, f := range tsFuncs(p) {
		g := graph(p, f)
		k := 0
		for _, a := range fieldAccesses(g, tsPkg, "TestScript", "background") {
			st, ok := a.At.(*ssa.Store)
			if !ok || !a.Write {
				continue
			}
			// growth (append) is not a release
			if c, ok := st.Val.(*ssa.Call); ok && ssax.CalleeName(&c.Call) == "builtin.append" {
				continue
			}
			k++
			hit, _ := g.ReachableWithout(ssax.PointAfter(st), func(i ssa.Instruction) bool { return ssax.IsCallTo(i, tsFatalf, tsCheck) }, nil)
			ctx.Check(hit == nil, "I6b", shortFn(f)+"#release"+itoa(k), st.Pos(), "the background list is released only where no failure can follow (otherwise processes still running are forgotten and outlive the run)")
		}
	}
	// ---- I7
	{
		ws := fieldWriters(p, tsPkg, "TestScript", "deferred")
		ok := len(ws) >= 1
		for _, w := range ws {
			nm := w.Fn.Name()
			if nm == "Defer" {
				// wraps old value
				st := w.Instr.(*ssa.Store)
				mc, isMC := st.Val.(*ssa.MakeClosure)
				wraps := false
				if isMC {
					for _, b := range mc.Bindings {
						if ssax.DerivedFrom(b, isFieldLoad("deferred"), nil) || derivesFromStoreOfPred(b, isFieldLoad("deferred")) {
							wraps = true
						}
					}
				}
				if !wraps {
					ok = false
				}
				// reverse order: the new function runs first, the previous chain by defer after it
				if isMC {
					cf := mc.Fn.(*ssa.Function)
					cg := graph(p, cf)
					defersOld, callsNew := false, false
					// what a captured variable stands for is read off its binding at the closure's creation
					role := func(v ssa.Value) string {
						if u, isU := v.(*ssa.UnOp); isU && u.Op == token.MUL {
							v = u.X
						}
						fv, isFV := v.(*ssa.FreeVar)
						if !isFV {
							return ""
						}
						for k, x := range cf.FreeVars {
							if x != fv || k >= len(mc.Bindings) {
								continue
							}
							b := mc.Bindings[k]
							if ssax.DerivedFrom(b, isFieldLoad("deferred"), nil) || derivesFromStoreOfPred(b, isFieldLoad("deferred")) {
								return "old"
							}
							isParam := func(y ssa.Value) bool { _, ok := y.(*ssa.Parameter); return ok }
							if isParam(b) || derivesFromStoreOfPred(b, isParam) {
								return "new"
							}
						}
						return ""
					}
					cg.Instrs(func(i ssa.Instruction) {
						switch x := i.(type) {
						case *ssa.Defer:
							if role(x.Call.Value) == "old" {
								defersOld = true
							}
						case *ssa.Call:
							if role(x.Call.Value) == "new" {
								callsNew = true
							}
						}
					})
					ctx.Check(defersOld && callsNew, "I7", "testscript.Defer#reverse-order", st.Pos(), "the chain link calls the newly registered function and runs the previous chain by defer afterwards, so functions run in reverse order of registration and the older ones still run if a newer one panics")
				}
				continue
			}
			if w.Fn.Parent() == runT || w.Fn == runT {
				continue // construction
			}
			ok = false
			ctx.Bad("I7", shortFn(w.Fn)+"#deferred-write", w.Instr.Pos(), "TestScript.deferred overwritten outside Defer: registered clean-up functions are lost")
		}
		ctx.Check(ok, "I7", "testscript.TestScript#deferred-writers", token.NoPos, "deferred is assigned at construction and by Defer, which wraps the previous chain (%d writers)", len(ws))
	}
	// ---- I8
	cacheKeyRule(ctx, "I8")
	c04More(ctx)
}

// cacheKeyRule: shared-cache key sufficiency (C04.I8, also used by C01).
func cacheKeyRule(ctx *core.Ctx, rule string) {
	p := ctx.P
	{
		n := 0
		for _, f := range p.ModFuncs() {
			g := graph(p, f)
			for _, c := range g.Calls("(*" + parPkg + ".Cache).Do") {
				if !isGlobalAddr(c.Call.Args[0], "execCache") {
					continue
				}
				n++
				var cb *ssa.Function
				if mc, ok := c.Call.Args[2].(*ssa.MakeClosure); ok {
					cb = mc.Fn.(*ssa.Function)
				}
				if cb == nil {
					ctx.Bad(rule, shortFn(f)+"#execCache"+itoa(n), c.Pos(), "callback is not a function literal")
					continue
				}
				reads := tsFieldsRead(p, []*ssa.Function{cb})
				// fields read in computing the key
				keyReads := map[string]bool{}
				ssax.DerivedFrom(c.Call.Args[1], func(v ssa.Value) bool {
					if u, ok := v.(*ssa.UnOp); ok {
						if fa, ok := u.X.(*ssa.FieldAddr); ok && isNamed(fa.X.Type(), tsPkg, "TestScript") {
							keyReads[ssax.FieldOf(fa).Name()] = true
						}
					}
					if cc, ok := v.(*ssa.Call); ok {
						if cal := cc.Call.StaticCallee(); cal != nil && core.InModule(cal) {
							for k := range tsFieldsRead(p, []*ssa.Function{cal}) {
								keyReads[k] = true
							}
						}
					}
					return false
				}, func(cc *ssa.Call) bool { return true })
				var missing []string
				for k := range reads {
					if !keyReads[k] {
						missing = append(missing, k)
					}
				}
				// finer: the script variables the computation looks up by constant name (through a
				// func(string) string parameter, e.g. execpath.Look's getenv) must each be read from the
				// script's environment in the key
				need := map[string]bool{}
				for _, rf := range reachableMod(p, []*ssa.Function{cb}, nil) {
					graph(p, rf).Instrs(func(i ssa.Instruction) {
						cc, ok := i.(*ssa.Call)
						if !ok || len(cc.Call.Args) != 1 {
							return
						}
						if _, isParam := cc.Call.Value.(*ssa.Parameter); !isParam {
							if ph, isPhi := cc.Call.Value.(*ssa.Phi); !isPhi || ph == nil {
								return
							}
						}
						if cc.Call.Value.Type().String() != "func(string) string" {
							return
						}
						if name, ok := ssax.ConstString(cc.Call.Args[0]); ok {
							need[name] = true
						}
					})
				}
				have := map[string]bool{}
				ssax.DerivedFrom(c.Call.Args[1], func(v ssa.Value) bool {
					if cc, ok := isCallSuffix(v, "TestScript).Getenv"); ok {
						if name, ok := ssax.ConstString(cc.Call.Args[1]); ok {
							have[name] = true
						}
					}
					return false
				}, func(cc *ssa.Call) bool { return true })
				for name := range need {
					if !have[name] {
						missing = append(missing, "$"+name)
					}
				}
				sort.Strings(missing)
				ctx.Check(len(missing) == 0, rule, shortFn(f)+"#execCache"+itoa(n), c.Pos(), "the cached computation reads TestScript field(s) %v that the cache key does not depend on: the first script to ask fixes the answer for every other script in the process, whatever their own state", missing)
			}
		}
		if n == 0 {
			ctx.OKTrivial(rule, "testscript#execCache-unused", token.NoPos, "the process-wide exec cache is not used")
		}
	}
}

// constKeys resolves a Getenv key to constant strings (a constant, or an
// element of a slice literal of constants being ranged over).
func constKeys(v ssa.Value) ([]string, bool) {
	if s, ok := ssax.ConstString(v); ok {
		return []string{s}, true
	}
	if u, ok := v.(*ssa.UnOp); ok && u.Op == token.MUL {
		if ia, ok := u.X.(*ssa.IndexAddr); ok {
			var sl ssa.Value = ia.X
			// a package-level table of names, set once at initialisation and never changed
			if ld, isLd := sl.(*ssa.UnOp); isLd && ld.Op == token.MUL {
				if gl, isG := ld.X.(*ssa.Global); isG && gl.Pkg != nil {
					if init, okI := globalSingleInit(gl); okI {
						sl = init
					}
				}
			}
			el := variadicElems(sl)
			if len(el) == 0 {
				if s, ok := sl.(*ssa.Slice); ok {
					el = variadicElems(s)
				}
			}
			var out []string
			for _, e := range el {
				s, ok := ssax.ConstString(e)
				if !ok {
					return nil, false
				}
				out = append(out, s)
			}
			return out, len(out) > 0
		}
	}
	return nil, false
}

func cmpOrBoolFact(facts []ssax.Fact, m func(ssa.Value) bool, val bool) bool {
	return hasFact(facts, val, m)
}

func isGlobalAddr(v ssa.Value, name string) bool {
	g, ok := v.(*ssa.Global)
	return ok && g.Name() == name
}

// derivesFromStoreOf: b is a local cell into which val was stored.
func derivesFromStoreOf(b ssa.Value, val ssa.Value) bool {
	al, ok := b.(*ssa.Alloc)
	if !ok {
		return false
	}
	for _, r := range ssax.Referrers(al) {
		if st, ok := r.(*ssa.Store); ok && st.Addr == ssa.Value(al) && (st.Val == val || ssax.ResolveLoad(st.Val) == val) {
			return true
		}
	}
	return false
}

func derivesFromStoreOfPred(b ssa.Value, m func(ssa.Value) bool) bool {
	al, ok := b.(*ssa.Alloc)
	if !ok {
		return false
	}
	for _, r := range ssax.Referrers(al) {
		if st, ok := r.(*ssa.Store); ok && st.Addr == ssa.Value(al) && m(st.Val) {
			return true
		}
	}
	return false
}

func c04More(ctx *core.Ctx) {
	p := ctx.P
	c04Retention(ctx)
	ctx.Rule("I3b", "exact files: the helper that writes an archive entry into the work directory opens it with O_CREATE|O_WRONLY and O_TRUNC (or O_EXCL when unique names are required), so a later, shorter entry of the same name or a reused work directory never leaves a stale tail", 1)
	if wf := p.Func("testscript", "writeFile"); wf != nil {
		g := graph(p, wf)
		n := 0
		for _, c := range g.Calls("os.OpenFile") {
			n++
			vals, ok := ssax.PossibleInts(c.Call.Args[1])
			good := ok
			for _, v := range vals {
				if v&osFlag(p, "O_CREATE") == 0 || (v&osFlag(p, "O_TRUNC") == 0 && v&osFlag(p, "O_EXCL") == 0) {
					good = false
				}
			}
			ctx.Check(good, "I3b", "testscript.writeFile#flags", c.Pos(), "open flags %v each contain O_CREATE and O_TRUNC or O_EXCL", vals)
		}
		if n == 0 {
			ctx.Note("I3b", "testscript.writeFile#flags", wf.Pos(), "writeFile does not call os.OpenFile; not decided")
			ctx.OKTrivial("I3b", "testscript.writeFile#other", wf.Pos(), "not decided")
		}
	} else {
		ctx.Note("I3b", "testscript.writeFile", token.NoPos, "helper not found; not decided")
		ctx.OKTrivial("I3b", "testscript.writeFile#absent", token.NoPos, "not decided")
	}
	ctx.Rule("I6c", "no failure between start and recording: from a successful start of a background command to the store that records it in TestScript.background no Fatalf/Check is reachable (a process started but not yet recorded would be neither interrupted nor reaped)", 1)
	for _, f := range tsFuncs(p) {
		g := graph(p, f)
		for k, c := range g.Calls("(*" + tsPkg + ".TestScript).execBackground") {
			errv := ssax.Extracted(c, 1)
			bad := ""
			for _, b := range f.Blocks {
				if !g.Reach[b.Index] || !ssax.KnownNil(g.FactsAt(b.Index), errv, true) {
					continue
				}
				if id := g.Idom(b.Index); id >= 0 && ssax.KnownNil(g.FactsAt(id), errv, true) {
					continue
				}
				for _, e := range g.MustPass(ssax.Point{Block: b.Index}, func(i ssa.Instruction) bool {
					st, ok := i.(*ssa.Store)
					if !ok {
						return false
					}
					fa, ok := st.Addr.(*ssa.FieldAddr)
					return ok && ssax.FieldOf(fa).Name() == "background"
				}, true) {
					if ssax.IsCallTo(e.Last, tsFatalf, tsCheck) {
						bad = "Fatalf at " + p.Pos(e.Last.Pos()) + " reachable after the process started and before it is recorded"
					}
				}
			}
			ctx.Check(bad == "", "I6c", shortFn(f)+"#start-to-record"+itoa(k+1), c.Pos(), "nothing can fail between the successful start and the recording %s", bad)
		}
	}
}

// cleanupInterruptsFirst: in run's clean-up every wait for a background command
// lies behind the loop that interrupts them all, whatever else is true (a
// process that ignores the watcher's SIGQUIT is only stopped by this interrupt;
// waiting for it without having sent it blocks for ever).
func cleanupInterruptsFirst(ctx *core.Ctx, rule string, a *ssa.Function) {
	p := ctx.P
	ag := graph(p, a)
	intr := ag.Calls(tsPkg + ".interruptProcess")
	if len(intr) == 0 {
		ctx.Bad(rule, "testscript.run$cleanup#interrupt-unconditional", a.Pos(), "the clean-up never interrupts the background commands")
		return
	}
	hdr := intr[0].Block().Index
	if l, ok := innermostLoop(ag, hdr); ok {
		hdr = l.Header
	}
	bad := ""
	ag.Instrs(func(i ssa.Instruction) {
		isWait := false
		if c, ok := i.(*ssa.Call); ok && strings.HasSuffix(ssax.CalleeName(&c.Call), ".waitBackground") {
			isWait = true
		}
		if u, ok := i.(*ssa.UnOp); ok && u.Op == token.ARROW && isFieldLoad("wait")(u.X) {
			isWait = true
		}
		if isWait && !ag.DomBlock(hdr, i.Block().Index) {
			bad = "a wait for background commands can be reached without passing the interrupt loop"
		}
	})
	ctx.Check(bad == "", rule, "testscript.run$cleanup#interrupt-unconditional", intr[0].Pos(), "every wait in the clean-up is behind the loop that interrupts all background commands, unconditionally %s", bad)
}

// c04Retention: rules about what is kept and what is removed (round 4).
func c04Retention(ctx *core.Ctx) {
	c04ScriptPath(ctx)
	p := ctx.P
	ctx.Rule("I9", "a caller-supplied work-directory root is never cleaned up: on every path from 'WorkdirRoot is not empty' to the first subtest, Params.TestWork is set to true, with no further condition (the spelling of the path - a symlink, a trailing separator - must not matter)", 1)
	ctx.Rule("I10", "removeAll first makes every directory of the tree accessible: the chmod in its walk is applied to every directory the walk reports without an error, under no other condition (a write-only or search-only directory otherwise survives, and with it the work directory and the shared root)", 1)
	if runT := ctx.Need("I9", "testscript", "RunT"); runT != nil {
		g := graph(p, runT)
		var store *ssa.Store
		g.Instrs(func(i ssa.Instruction) {
			if st, ok := i.(*ssa.Store); ok && isTrueConst(st.Val) {
				if fa, ok := st.Addr.(*ssa.FieldAddr); ok && ssax.FieldOf(fa) != nil && ssax.FieldOf(fa).Name() == "TestWork" {
					store = st
				}
			}
		})
		var firstRun ssa.Instruction
		g.Instrs(func(i ssa.Instruction) {
			if c, ok := i.(*ssa.Call); ok && c.Call.IsInvoke() && c.Call.Method.Name() == "Run" && firstRun == nil {
				firstRun = c
			}
		})
		why := ""
		switch {
		case store == nil:
			why = "RunT never sets TestWork"
		case firstRun == nil:
			why = "RunT starts no subtest"
		default:
			// the test "root given?": a comparison of (a copy of) Params.WorkdirRoot with the empty string
			found := false
			for _, b := range runT.Blocks {
				if !g.Reach[b.Index] || len(g.Succs[b.Index]) != 2 {
					continue
				}
				for _, sc := range g.Succs[b.Index] {
					f, ok := g.EdgeFact(b.Index, sc)
					if !ok {
						continue
					}
					given := cmpFact([]ssax.Fact{f}, token.NEQ, func(v ssa.Value) bool {
						return ssax.DerivedFrom(v, isFieldLoad("WorkdirRoot"), nil)
					}, isConstStr(""))
					if !given {
						continue
					}
					found = true
					hit, _ := g.ReachableWithout(ssax.Point{Block: sc}, func(i ssa.Instruction) bool { return i == firstRun }, func(i ssa.Instruction) bool { return i == ssa.Instruction(store) })
					if hit != nil {
						why = "with a root given, the subtests can start without TestWork having been set (the retention depends on something else)"
					}
				}
			}
			if !found {
				why = "no test of WorkdirRoot against the empty string found"
			}
		}
		ctx.Check(why == "", "I9", "testscript.RunT#keep-given-root", runT.Pos(), "a given WorkdirRoot always implies retention %s", why)
	}
	if ra := ctx.Need("I10", "testscript", "removeAll"); ra != nil {
		n := 0
		for _, a := range ra.AnonFuncs {
			g := graph(p, a)
			for _, c := range g.Calls("os.Chmod") {
				n++
				extra := ""
				for _, f := range g.FactsAtInstr(c) {
					if x, _, ok := ssax.NilCheck(f.Cond); ok {
						if _, isPar := x.(*ssa.Parameter); isPar {
							continue // the walk's own error
						}
					}
					if cc, ok := f.Cond.(*ssa.Call); ok && cc.Call.IsInvoke() && cc.Call.Method.Name() == "IsDir" && f.Val {
						continue
					}
					extra = f.Cond.String()
				}
				// and no directory is skipped: from "it is a directory" every path passes the chmod
				for _, b := range a.Blocks {
					if !g.Reach[b.Index] {
						continue
					}
					for _, sc := range g.Succs[b.Index] {
						f, ok := g.EdgeFact(b.Index, sc)
						if !ok || !f.Val {
							continue
						}
						if cc, ok := f.Cond.(*ssa.Call); ok && cc.Call.IsInvoke() && cc.Call.Method.Name() == "IsDir" {
							if ex := g.MustPass(ssax.Point{Block: sc}, func(i ssa.Instruction) bool { return i == ssa.Instruction(c) }, false); len(ex) > 0 {
								extra = "a directory can be passed over without the chmod (path " + ssax.TrailString(ex[0].Trail) + ")"
							}
						}
					}
				}
				ctx.Check(extra == "", "I10", "testscript.removeAll#chmod"+itoa(n), c.Pos(), "every directory is made accessible, unconditionally (extra condition: %q)", extra)
			}
		}
		if n == 0 {
			ctx.Bad("I10", "testscript.removeAll#chmod", ra.Pos(), "removeAll does not chmod directories before removing the tree")
		}
	}
}

// c04ScriptPath (I11): a bare program name is resolved on the script's PATH or not at all.
func c04ScriptPath(ctx *core.Ctx) {
	p := ctx.P
	ctx.Rule("I11", "programs come from the script's PATH: in buildExecCmd, exec.Command is reached for a bare name only when the look-up on the script's PATH (execpath.Look with the script's Getenv) returned a nil error; with the error swallowed, exec.Command resolves the name on the host PATH and the script runs a program its PATH does not have", 1)
	f := p.Func("testscript", "(*TestScript).buildExecCmd")
	if f == nil || len(f.Params) < 2 {
		ctx.Note("I11", "testscript.buildExecCmd", token.NoPos, "buildExecCmd not found; clause not decided")
		return
	}
	g := graph(p, f)
	var look *ssa.Call
	for _, c := range g.Calls(core.ModPath + "/internal/os/execpath.Look") {
		look = c
	}
	n := 0
	for _, c := range g.Calls("os/exec.Command") {
		n++
		ok := false
		if look != nil {
			lerr := ssax.Extracted(look, 1)
			ok = onAllPaths(g, c, nil, func(fc ssax.Fact) bool {
				if fc.NilOf != nil {
					return fc.IsNil && fc.NilOf == lerr
				}
				if x, eq, isNC := ssax.NilCheck(fc.Cond); isNC && x == lerr && eq == fc.Val {
					return true
				}
				// not a bare name: filepath.Base(command) == command is false
				if b, isB := fc.Cond.(*ssa.BinOp); isB && (b.Op == token.EQL || b.Op == token.NEQ) && (b.Op == token.EQL) != fc.Val {
					for _, pr := range [][2]ssa.Value{{b.X, b.Y}, {b.Y, b.X}} {
						if bc, isC := pr[0].(*ssa.Call); isC && ssax.CalleeName(&bc.Call) == "path/filepath.Base" && bc.Call.Args[0] == pr[1] {
							return true
						}
					}
				}
				return false
			})
		}
		ctx.Check(ok, "I11", "testscript.buildExecCmd#command"+itoa(n), c.Pos(), "the command is built only after the name was found on the script's PATH (or is not a bare name)")
	}
	if n == 0 {
		ctx.Note("I11", "testscript.buildExecCmd#command", f.Pos(), "buildExecCmd does not call exec.Command; clause not decided")
	}
}
