package rules

import (
	"go/token"
	"go/types"
	"strings"

	"golang.org/x/tools/go/ssa"

	"verif/checker/core"
	"verif/checker/ssax"
)

func init() { Registry["C10"] = Spec{Run: runC10, Packages: []string{"par"}} }

func runC10(ctx *core.Ctx) {
	c10Round6(ctx)
	ctx.Trusted = append(ctx.Trusted, "go/types, go/ssa", "sync.Map.LoadOrStore stores at most one value per key; sync/atomic load/store give acquire/release ordering (Go memory model); sync.Mutex semantics")
	p := ctx.P
	ctx.Rule("K1", "single entry per key: Cache.m is used only through Load and LoadOrStore, and the entry Do works on is the value one of them returned", 2)
	c10ReturnsPublished(ctx)
	ctx.Rule("K2", "atomic flag: the entry's done field is used only as the operand of atomic.LoadUint32/StoreUint32", 1)
	ctx.Rule("K3", "compute under the lock, once: the user function is called in exactly one place, with the entry's mutex held, on the done == 0 edge of an atomic load performed after the Lock", 1)
	ctx.Rule("K4", "publish after write: the store of f's result into the entry precedes the only StoreUint32(&done, 1); nothing else writes result or done", 2)
	ctx.Rule("K5", "read after publish: every read of the entry's result is reached only along paths that observed done != 0 or executed the publishing store themselves", 2)
	ctx.Rule("K6", "Get never blocks: no Lock, Cond.Wait, channel operation or select in Get or the module functions it calls", 1)
	ctx.Rule("K7", "users: at every Cache.Do call site the result is type-asserted to exactly the type every return of its callback produces, so a lookup cannot panic on a cached value", 3)
	do := ctx.Need("K3", "par", "(*Cache).Do")
	get := ctx.Need("K6", "par", "(*Cache).Get")
	if do == nil || get == nil {
		return
	}
	sp := p.Pkg("par")
	var fns []*ssa.Function
	for _, f := range p.ModFuncs() {
		if f.Pkg == sp {
			fns = append(fns, f)
		}
	}
	// ---- K1
	okM := true
	nM := 0
	for _, f := range fns {
		g := graph(p, f)
		g.Instrs(func(i ssa.Instruction) {
			fa, ok := i.(*ssa.FieldAddr)
			if !ok || !isNamed(fa.X.Type(), parPkg, "Cache") || ssax.FieldOf(fa).Name() != "m" {
				return
			}
			for _, r := range ssax.Referrers(fa) {
				c, ok := r.(*ssa.Call)
				if !ok {
					if _, dbg := r.(*ssa.DebugRef); !dbg {
						okM = false
						ctx.Bad("K1", shortFn(f)+"#map-use", r.Pos(), "Cache.m used other than as the receiver of a sync.Map method")
					}
					continue
				}
				nM++
				n := ssax.CalleeName(&c.Call)
				if n != "(*sync.Map).Load" && n != "(*sync.Map).LoadOrStore" {
					okM = false
					ctx.Bad("K1", shortFn(f)+"#map-use"+itoa(nM), c.Pos(), "Cache.m accessed through %s: anything but Load/LoadOrStore can replace or drop the single entry of a key, so two callers may compute and return different values", strings.TrimPrefix(n, "(*sync.Map)."))
				}
			}
		})
	}
	if okM {
		ctx.OK("K1", "par.Cache#map-methods", do.Pos(), "all %d uses of Cache.m are Load or LoadOrStore", nM)
	}
	g := graph(p, do)
	var entry ssa.Value // the *cacheEntry value
	g.Instrs(func(i ssa.Instruction) {
		if ta, ok := i.(*ssa.TypeAssert); ok && isNamed(ta.AssertedType, parPkg, "cacheEntry") {
			entry = ta
		}
	})
	if entry == nil {
		ctx.Bad("K1", "par.Cache.Do#entry", do.Pos(), "entry value not found in Do")
		return
	}
	{
		src := entry.(*ssa.TypeAssert).X
		_, leaves := phiWeb(src)
		if len(leaves) == 0 {
			leaves = []leaf{{Val: src}}
		}
		ok := true
		for _, l := range leaves {
			e, isE := l.Val.(*ssa.Extract)
			if !isE || e.Index != 0 {
				ok = false
				continue
			}
			c, isC := e.Tuple.(*ssa.Call)
			if !isC {
				ok = false
				continue
			}
			n := ssax.CalleeName(&c.Call)
			if n != "(*sync.Map).Load" && n != "(*sync.Map).LoadOrStore" {
				ok = false
			}
		}
		ctx.Check(ok, "K1", "par.Cache.Do#entry", entry.Pos(), "the entry Do uses is what Load / LoadOrStore returned (never the freshly allocated candidate)")
	}
	// ---- K2
	for _, f := range fns {
		fg := graph(p, f)
		n := 0
		fg.Instrs(func(i ssa.Instruction) {
			fa, ok := i.(*ssa.FieldAddr)
			if !ok || !isNamed(fa.X.Type(), parPkg, "cacheEntry") || ssax.FieldOf(fa).Name() != "done" {
				return
			}
			for _, r := range ssax.Referrers(fa) {
				if _, dbg := r.(*ssa.DebugRef); dbg {
					continue
				}
				n++
				c, ok := r.(*ssa.Call)
				nm := ""
				if ok {
					nm = ssax.CalleeName(&c.Call)
				}
				ctx.Check(nm == "sync/atomic.LoadUint32" || nm == "sync/atomic.StoreUint32", "K2", shortFn(f)+"#done"+itoa(n), r.Pos(), "done accessed only through sync/atomic (a plain access races with the lock-free fast path)")
			}
		})
	}
	// ---- K3
	fpar := do.Params[2]
	var fcalls []*ssa.Call
	g.Instrs(func(i ssa.Instruction) {
		if c, ok := i.(*ssa.Call); ok && c.Call.Value == ssa.Value(fpar) {
			fcalls = append(fcalls, c)
		}
	})
	isDoneLoad := func(v ssa.Value) bool {
		c, ok := v.(*ssa.Call)
		if !ok || ssax.CalleeName(&c.Call) != "sync/atomic.LoadUint32" {
			return false
		}
		fa, ok := c.Call.Args[0].(*ssa.FieldAddr)
		return ok && fa.X == entry && ssax.FieldOf(fa).Name() == "done"
	}
	var pub *ssa.Call // StoreUint32
	if len(fcalls) != 1 {
		ctx.Bad("K3", "par.Cache.Do#compute", do.Pos(), "the user function is called in %d places, expected exactly one", len(fcalls))
	} else {
		fc := fcalls[0]
		held := locksetAt(p, do, fc)
		lockHeld := false
		for k := range held {
			if strings.HasSuffix(k, ".mu") {
				lockHeld = true
			}
		}
		underLock := false
		for _, f := range g.FactsAtInstr(fc) {
			b, ok := f.Cond.(*ssa.BinOp)
			if !ok || !isDoneLoad(b.X) || !isConstIntV(0)(b.Y) {
				continue
			}
			if (b.Op == token.EQL && f.Val) || (b.Op == token.NEQ && !f.Val) {
				ld := b.X.(*ssa.Call)
				if len(locksetAt(p, do, ld)) > 0 {
					underLock = true
				}
			}
		}
		ctx.Check(lockHeld && underLock, "K3", "par.Cache.Do#compute", fc.Pos(), "f() runs with the entry mutex held (%v) and only after done was re-read as 0 under that lock (%v); without the re-check a second caller that waited for the lock computes again and overwrites the result", lockHeld, underLock)
		// ---- K4
		var resStores []*ssa.Store
		for _, f := range fns {
			fg := graph(p, f)
			fg.Instrs(func(i ssa.Instruction) {
				st, ok := i.(*ssa.Store)
				if !ok {
					return
				}
				fa, ok := st.Addr.(*ssa.FieldAddr)
				if ok && isNamed(fa.X.Type(), parPkg, "cacheEntry") && ssax.FieldOf(fa).Name() == "result" {
					resStores = append(resStores, st)
				}
			})
		}
		var pubs []*ssa.Call
		for _, f := range fns {
			pubs = append(pubs, graph(p, f).Calls("sync/atomic.StoreUint32")...)
		}
		okRes := len(resStores) == 1 && resStores[0].Val == ssa.Value(fc) && resStores[0].Parent() == do
		ctx.Check(okRes, "K4", "par.Cache.Do#result-store", fc.Pos(), "exactly one store to the entry's result, of f's return value (stores found: %d)", len(resStores))
		okPub := len(pubs) == 1 && pubs[0].Parent() == do && isConstIntV(1)(pubs[0].Call.Args[1])
		if okPub {
			pub = pubs[0]
		}
		order := okRes && okPub && g.Dominates(resStores[0], pubs[0]) && len(locksetAt(p, do, pubs[0])) > 0
		ctx.Check(okPub && order, "K4", "par.Cache.Do#publish", fc.Pos(), "done is set to 1 in exactly one place (%v), after the result was stored and still under the mutex (%v); publishing first lets the lock-free fast path return a nil result", okPub, order)
	}
	// ---- K5
	for _, f := range []*ssa.Function{do, get} {
		fg := graph(p, f)
		n := 0
		fg.Instrs(func(i ssa.Instruction) {
			ld, ok := i.(*ssa.UnOp)
			if !ok || ld.Op != token.MUL {
				return
			}
			fa, ok := ld.X.(*ssa.FieldAddr)
			if !ok || !isNamed(fa.X.Type(), parPkg, "cacheEntry") || ssax.FieldOf(fa).Name() != "result" {
				return
			}
			n++
			e := fa.X
			ok = onAllPathsVia(fg, ld, e, func(fc ssax.Fact) bool {
				b, isB := fc.Cond.(*ssa.BinOp)
				if !isB || !isConstIntV(0)(b.Y) {
					return false
				}
				c, isC := b.X.(*ssa.Call)
				if !isC || ssax.CalleeName(&c.Call) != "sync/atomic.LoadUint32" {
					return false
				}
				a, isFA := c.Call.Args[0].(*ssa.FieldAddr)
				if !isFA || a.X != e || ssax.FieldOf(a).Name() != "done" {
					return false
				}
				return (b.Op == token.EQL && !fc.Val) || (b.Op == token.NEQ && fc.Val)
			}, func(b int) bool {
				return pub != nil && f == do && pub.Block().Index == b
			})
			ctx.Check(ok, "K5", shortFn(f)+"#read-result"+itoa(n), ld.Pos(), "result read only after done was observed non-zero or after this goroutine published it")
		})
		if n == 0 {
			ctx.Bad("K5", shortFn(f)+"#read-result", f.Pos(), "no read of the entry's result")
		}
	}
	// ---- K6
	{
		bad := ""
		for _, f := range reachableMod(p, []*ssa.Function{get}, nil) {
			graph(p, f).Instrs(func(i ssa.Instruction) {
				switch x := i.(type) {
				case *ssa.Call:
					n := ssax.CalleeName(&x.Call)
					if strings.HasSuffix(n, ").Lock") || strings.HasSuffix(n, ").RLock") || strings.HasSuffix(n, ").Wait") || n == "time.Sleep" {
						bad = n + " at " + p.Pos(x.Pos())
					}
				case *ssa.Send, *ssa.Select:
					bad = "channel operation at " + p.Pos(i.Pos())
				case *ssa.UnOp:
					if x.Op == token.ARROW {
						bad = "channel receive at " + p.Pos(x.Pos())
					}
				}
			})
		}
		ctx.Check(bad == "", "K6", "par.Cache.Get#nonblocking", get.Pos(), "Get contains no blocking operation %s (Do holds the entry mutex for the whole computation, so locking it in Get would wait for f)", bad)
	}
	// ---- K7
	n := 0
	for _, f := range p.ModFuncs() {
		fg := graph(p, f)
		for _, c := range fg.Calls(ssax.FuncName(do)) {
			n++
			key := shortFn(f) + "#Do" + itoa(n)
			ctx.Seen(f)
			var asserted types.Type
			okUse := true
			for _, r := range ssax.Referrers(c) {
				switch x := r.(type) {
				case *ssa.TypeAssert:
					if x.CommaOk {
						continue
					}
					asserted = x.AssertedType
				case *ssa.DebugRef:
				default:
					_ = x
				}
			}
			if asserted == nil {
				ctx.OKTrivial("K7", key, c.Pos(), "result not type-asserted without comma-ok")
				continue
			}
			mc, ok := c.Call.Args[2].(*ssa.MakeClosure)
			var cb *ssa.Function
			if ok {
				cb = mc.Fn.(*ssa.Function)
			} else if fn, ok := c.Call.Args[2].(*ssa.Function); ok {
				cb = fn
			}
			if cb == nil {
				ctx.Bad("K7", key, c.Pos(), "callback is not a function literal: its result type cannot be checked")
				continue
			}
			why := ""
			for _, r := range graph(p, cb).Returns() {
				v := ssax.ReturnValues(r)[0]
				var check func(v ssa.Value, d int)
				check = func(v ssa.Value, d int) {
					if ph, ok := v.(*ssa.Phi); ok && d < 4 {
						for _, e := range ph.Edges {
							check(e, d+1)
						}
						return
					}
					mi, ok := v.(*ssa.MakeInterface)
					if !ok || !types.Identical(mi.X.Type(), asserted) {
						why = "callback returns " + v.Type().String() + " value " + v.String() + " at " + p.Pos(r.Pos()) + ", asserted type is " + asserted.String()
					}
				}
				check(v, 0)
			}
			ctx.Check(okUse && why == "", "K7", key, c.Pos(), "every return of the callback is a %s, the type asserted on the cached value %s", asserted, why)
		}
	}
}

// doResultTypeOK checks one Cache.Do call site (K7).
func doResultTypeOK(p *core.Prog, c *ssa.Call) (bool, string) {
	var asserted types.Type
	for _, r := range ssax.Referrers(c) {
		if x, ok := r.(*ssa.TypeAssert); ok && !x.CommaOk {
			asserted = x.AssertedType
		}
	}
	if asserted == nil {
		return true, "(not asserted)"
	}
	var cb *ssa.Function
	if mc, ok := c.Call.Args[2].(*ssa.MakeClosure); ok {
		cb = mc.Fn.(*ssa.Function)
	} else if fn, ok := c.Call.Args[2].(*ssa.Function); ok {
		cb = fn
	}
	if cb == nil {
		return false, "callback is not a function literal"
	}
	why := ""
	for _, r := range graph(p, cb).Returns() {
		var check func(v ssa.Value, d int)
		check = func(v ssa.Value, d int) {
			if ph, ok := v.(*ssa.Phi); ok && d < 4 {
				for _, e := range ph.Edges {
					check(e, d+1)
				}
				return
			}
			mi, ok := v.(*ssa.MakeInterface)
			if !ok || !types.Identical(mi.X.Type(), asserted) {
				why = "callback returns " + v.Type().String() + " at " + p.Pos(r.Pos()) + ", asserted " + asserted.String()
			}
		}
		check(ssax.ReturnValues(r)[0], 0)
	}
	return why == "", why
}

// c10ReturnsPublished (K8): what Do hands back is the published result.
func c10ReturnsPublished(ctx *core.Ctx) {
	p := ctx.P
	ctx.Rule("K8", "Do returns the entry's result: every value returned by Cache.Do is a load of the entry's result field, or the very value stored into it on that path; a local that is only set by the goroutine that ran f leaves every waiter with nil", 1)
	do := ctx.Need("K8", "par", "(*Cache).Do")
	if do == nil {
		return
	}
	g := graph(p, do)
	stored := map[ssa.Value]bool{}
	g.Instrs(func(i ssa.Instruction) {
		if st, ok := i.(*ssa.Store); ok {
			if fa, ok := st.Addr.(*ssa.FieldAddr); ok && ssax.FieldOf(fa) != nil && ssax.FieldOf(fa).Name() == "result" {
				stored[st.Val] = true
			}
		}
	})
	isResultLoad := func(v ssa.Value) bool {
		u, ok := v.(*ssa.UnOp)
		if !ok || u.Op != token.MUL {
			return false
		}
		fa, ok := u.X.(*ssa.FieldAddr)
		return ok && ssax.FieldOf(fa) != nil && ssax.FieldOf(fa).Name() == "result"
	}
	bad := ""
	n := 0
	for _, r := range g.Returns() {
		n++
		v := ssax.ReturnValues(r)[0]
		_, lv := phiWeb(v)
		if _, isPhi := v.(*ssa.Phi); !isPhi {
			lv = []leaf{{Val: v}}
		}
		for _, l := range lv {
			if isResultLoad(l.Val) || stored[l.Val] {
				continue
			}
			bad = "a return can yield " + l.Val.String() + ", which is neither the entry's result nor the value just stored in it"
		}
	}
	ctx.Check(bad == "" && n > 0, "K8", "par.Cache.Do#returns-result", do.Pos(), "every return of Do yields the published result %s", bad)
	// ---- K9: one entry, one key
	ctx.Rule("K9", "an entry belongs to one key: the candidate handed to LoadOrStore is allocated in that very call of Do (new(cacheEntry)) and goes nowhere else - not into a pool or a package variable, from which it could come back for another key", 1)
	k := 0
	for _, c := range g.Calls("(*sync.Map).LoadOrStore") {
		k++
		cand := ssax.Strip(c.Call.Args[2])
		al, isAl := cand.(*ssa.Alloc)
		why := ""
		if !isAl || !al.Heap {
			why = "the candidate is " + cand.String() + ", not a fresh allocation"
		} else {
			for _, r := range ssax.Referrers(al) {
				switch x := r.(type) {
				case *ssa.MakeInterface:
					for _, q := range ssax.Referrers(x) {
						if q != ssa.Instruction(c) {
							if _, isDbg := q.(*ssa.DebugRef); !isDbg {
								why = "the candidate is also given to " + q.String()
							}
						}
					}
				case *ssa.DebugRef, *ssa.FieldAddr:
				case *ssa.Store:
					if x.Val == ssa.Value(al) {
						why = "the candidate is stored elsewhere"
					}
				default:
					why = "the candidate is also used by " + r.String()
				}
			}
		}
		ctx.Check(why == "", "K9", "par.Cache.Do#candidate"+itoa(k), c.Pos(), "the entry offered to the map is new and private to this call %s", why)
	}
	// ... and nothing taken out of the map is handed on (a live entry put into a pool is handed to the next key)
	for _, f := range []*ssa.Function{do, p.Func("par", "(*Cache).Get")} {
		if f == nil {
			continue
		}
		fg := graph(p, f)
		for _, c := range fg.Calls("(*sync.Map).Load", "(*sync.Map).LoadOrStore") {
			got := ssax.Extracted(c, 0)
			if got == nil {
				continue
			}
			for _, r := range ssax.Referrers(got) {
				ci, isCall := r.(ssa.CallInstruction)
				if !isCall {
					continue
				}
				k++
				ctx.Bad("K9", shortFn(f)+"#entry-escapes"+itoa(k), r.Pos(), "the entry found in the map is passed to %s", ssax.CalleeName(ci.Common()))
			}
		}
	}
}
