package rules

import (
	"go/token"
	"go/types"

	"golang.org/x/tools/go/ssa"

	"verif/checker/ssax"
)

// hasFact reports whether facts contain a condition matching m with the value.
func hasFact(facts []ssax.Fact, val bool, m func(ssa.Value) bool) bool {
	for _, f := range facts {
		if f.Val == val && m(f.Cond) {
			return true
		}
	}
	return false
}

// cmpFact looks for a comparison fact `x op y` (after polarity normalisation:
// a false == is a true !=, etc.) where mx/my match the operands in either order.
// op is one of EQL, NEQ, LSS, LEQ, GTR, GEQ.
func cmpFact(facts []ssax.Fact, op token.Token, mx, my func(ssa.Value) bool) bool {
	neg := map[token.Token]token.Token{token.EQL: token.NEQ, token.NEQ: token.EQL, token.LSS: token.GEQ, token.GEQ: token.LSS, token.GTR: token.LEQ, token.LEQ: token.GTR}
	swap := map[token.Token]token.Token{token.EQL: token.EQL, token.NEQ: token.NEQ, token.LSS: token.GTR, token.GTR: token.LSS, token.LEQ: token.GEQ, token.GEQ: token.LEQ}
	for _, f := range facts {
		b, ok := f.Cond.(*ssa.BinOp)
		if !ok {
			continue
		}
		o := b.Op
		if _, isCmp := neg[o]; !isCmp {
			continue
		}
		if !f.Val {
			o = neg[o]
		}
		if o == op && mx(b.X) && my(b.Y) {
			return true
		}
		if swap[o] == op && mx(b.Y) && my(b.X) {
			return true
		}
	}
	return false
}

func isVal(v ssa.Value) func(ssa.Value) bool {
	return func(x ssa.Value) bool { return x == v }
}

func isConstStr(s string) func(ssa.Value) bool {
	return func(x ssa.Value) bool { k, ok := ssax.ConstString(x); return ok && k == s }
}

func isConstIntV(n int64) func(ssa.Value) bool {
	return func(x ssa.Value) bool { k, ok := ssax.ConstInt(x); return ok && k == n }
}

func anyVal(ssa.Value) bool { return true }

// isCallOf matches a call to one of the named callees and optionally checks args.
func isCallOf(names []string, args ...func(ssa.Value) bool) func(ssa.Value) bool {
	return func(v ssa.Value) bool {
		c, ok := v.(*ssa.Call)
		if !ok {
			return false
		}
		n := ssax.CalleeName(&c.Call)
		found := false
		for _, w := range names {
			if n == w {
				found = true
			}
		}
		if !found {
			return false
		}
		av := c.Call.Args
		for i, m := range args {
			if m == nil {
				continue
			}
			if i >= len(av) || !m(av[i]) {
				return false
			}
		}
		return true
	}
}

// sameData: v is x or a conversion / whole-slice of x.
func sameData(x ssa.Value) func(ssa.Value) bool {
	return func(v ssa.Value) bool {
		for {
			if v == x {
				return true
			}
			switch y := v.(type) {
			case *ssa.Convert:
				v = y.X
			case *ssa.ChangeType:
				v = y.X
			case *ssa.Slice:
				if y.Low != nil || y.High != nil {
					return false
				}
				v = y.X
			default:
				return false
			}
		}
	}
}

// isLenOf matches len(x).
func isLenOf(x ssa.Value) func(ssa.Value) bool {
	return func(v ssa.Value) bool {
		c, ok := v.(*ssa.Call)
		if !ok {
			return false
		}
		b, ok := c.Call.Value.(*ssa.Builtin)
		return ok && b.Name() == "len" && c.Call.Args[0] == x
	}
}

// isElemLoad matches a load of x[idx] where idx satisfies mi.
func isElemLoad(x ssa.Value, mi func(ssa.Value) bool) func(ssa.Value) bool {
	if mi == nil {
		mi = func(ssa.Value) bool { return true }
	}
	return func(v ssa.Value) bool {
		switch y := v.(type) {
		case *ssa.UnOp:
			if y.Op != token.MUL {
				return false
			}
			ia, ok := y.X.(*ssa.IndexAddr)
			return ok && ia.X == x && mi(ia.Index)
		case *ssa.Lookup:
			return y.X == x && mi(y.Index)
		case *ssa.Index:
			return y.X == x && mi(y.Index)
		}
		return false
	}
}

// isLenMinus matches len(x)-k.
func isLenMinus(x ssa.Value, k int64) func(ssa.Value) bool {
	return func(v ssa.Value) bool {
		b, ok := v.(*ssa.BinOp)
		if !ok || b.Op != token.SUB {
			return false
		}
		n, ok := ssax.ConstInt(b.Y)
		return ok && n == k && isLenOf(x)(b.X)
	}
}

// phiWeb collects, starting from v, the phis reachable through phi edges, and
// the leaves (non-phi incoming values) with the predecessor block they arrive from.
type leaf struct {
	Val  ssa.Value
	Pred *ssa.BasicBlock // block at whose end the value flows into the web
	Phi  *ssa.Phi
}

func phiWeb(v ssa.Value) (phis map[*ssa.Phi]bool, leaves []leaf) {
	return phiWebStop(v, nil)
}

// phiWebStop is phiWeb that treats the phis in stop as leaves.
func phiWebStop(v ssa.Value, stop map[*ssa.Phi]bool) (phis map[*ssa.Phi]bool, leaves []leaf) {
	phis = map[*ssa.Phi]bool{}
	var rec func(v ssa.Value)
	rec = func(v ssa.Value) {
		p, ok := v.(*ssa.Phi)
		if !ok || phis[p] {
			return
		}
		phis[p] = true
		for k, e := range p.Edges {
			if q, ok := e.(*ssa.Phi); ok && !stop[q] {
				rec(q)
				continue
			}
			leaves = append(leaves, leaf{e, p.Block().Preds[k], p})
		}
	}
	rec(v)
	return
}

// factsOnEdge returns the facts at the end of block p when flowing to s.
func factsOnEdge(g *ssax.Graph, p, s *ssa.BasicBlock) []ssax.Fact {
	return g.EdgeFacts(p.Index, s.Index)
}

// boolExpr is a normalised boolean formula over SSA atoms.
type boolExpr struct {
	Op    string // "atom", "const", "and", "or", "not"
	Atom  ssa.Value
	Const bool
	Args  []*boolExpr
}

// boolOf rebuilds short-circuit && / || chains from phis; anything it does not
// recognise is an atom.
func boolOf(v ssa.Value) *boolExpr {
	if k, ok := ssax.ConstBool(v); ok {
		return &boolExpr{Op: "const", Const: k}
	}
	if u, ok := v.(*ssa.UnOp); ok && u.Op == token.NOT {
		return &boolExpr{Op: "not", Args: []*boolExpr{boolOf(u.X)}}
	}
	p, ok := v.(*ssa.Phi)
	if !ok || len(p.Edges) < 2 {
		return &boolExpr{Op: "atom", Atom: v}
	}
	// a && b && c : every edge but the last is const false arriving from the
	// false branch of an If; a || b: const true from the true branch.
	var conds []*boolExpr
	kind := ""
	for k, e := range p.Edges[:len(p.Edges)-1] {
		c, ok := ssax.ConstBool(e)
		if !ok {
			return &boolExpr{Op: "atom", Atom: v}
		}
		pred := p.Block().Preds[k]
		ifi, ok := pred.Instrs[len(pred.Instrs)-1].(*ssa.If)
		if !ok {
			return &boolExpr{Op: "atom", Atom: v}
		}
		fromTrue := pred.Succs[0] == p.Block()
		want := "and"
		if c {
			want = "or"
		}
		if (want == "and" && fromTrue) || (want == "or" && !fromTrue) {
			return &boolExpr{Op: "atom", Atom: v}
		}
		if kind != "" && kind != want {
			return &boolExpr{Op: "atom", Atom: v}
		}
		kind = want
		conds = append(conds, boolOf(ifi.Cond))
	}
	conds = append(conds, boolOf(p.Edges[len(p.Edges)-1]))
	return &boolExpr{Op: kind, Args: conds}
}

// atoms lists the atoms of a formula.
func (b *boolExpr) atoms() []ssa.Value {
	if b.Op == "atom" {
		return []ssa.Value{b.Atom}
	}
	var out []ssa.Value
	for _, a := range b.Args {
		out = append(out, a.atoms()...)
	}
	return out
}

// constFlag returns the integer constant value of v (through conversions).
func constFlag(v ssa.Value) (int64, bool) { return ssax.ConstInt(v) }

// fieldStoreSites lists instructions that store into field fld (by object).
func isNamed(t types.Type, pkg, name string) bool {
	if p, ok := t.(*types.Pointer); ok {
		t = p.Elem()
	}
	n, ok := t.(*types.Named)
	if !ok {
		if a, ok2 := t.(*types.Alias); ok2 {
			return isNamed(types.Unalias(a), pkg, name)
		}
		return false
	}
	return n.Obj().Name() == name && n.Obj().Pkg() != nil && n.Obj().Pkg().Path() == pkg
}

// errorReturnIndex returns the index of the last result if it is of type error.
func errorResultIndex(f *ssa.Function) int {
	res := f.Signature.Results()
	if res.Len() == 0 {
		return -1
	}
	last := res.At(res.Len() - 1).Type()
	if types.Identical(last, types.Universe.Lookup("error").Type()) {
		return res.Len() - 1
	}
	return -1
}

// onAllPaths reports whether, on every path from the definition of anchor to
// instr `at`, some branch edge establishes a fact accepted by match. It walks
// predecessors backwards; a path that reaches the block defining anchor (or the
// entry) without such an edge is a counterexample.
func onAllPaths(g *ssax.Graph, at ssa.Instruction, anchor ssa.Value, match func(ssax.Fact) bool) bool {
	return onAllPathsVia(g, at, anchor, match, nil)
}

// onAllPathsVia additionally accepts a path once it runs through a block for
// which via is true (e.g. the block holding a publishing store).
func onAllPathsVia(g *ssax.Graph, at ssa.Instruction, anchor ssa.Value, match func(ssax.Fact) bool, via func(b int) bool) bool {
	var anchorBlock = -1
	if i, ok := anchor.(ssa.Instruction); ok && i.Block() != nil {
		anchorBlock = i.Block().Index
	}
	state := map[int]int{} // 1 in progress, 2 true, 3 false
	var holds func(b int) bool
	holds = func(b int) bool {
		switch state[b] {
		case 1, 2:
			return true
		case 3:
			return false
		}
		state[b] = 1
		ok := true
		if b == 0 || len(g.Preds[b]) == 0 {
			ok = false
		}
		for _, p := range g.Preds[b] {
			found := false
			for _, f := range factsOnEdge(g, g.Fn.Blocks[p], g.Fn.Blocks[b]) {
				// only the edge's own fact (the last one) is new; earlier ones are p's dominating facts
				if match(f) {
					found = true
				}
			}
			if found {
				continue
			}
			if via != nil && via(p) {
				continue
			}
			if p == anchorBlock {
				ok = false
				break
			}
			if !holds(p) {
				ok = false
				break
			}
		}
		if ok {
			state[b] = 2
		} else {
			state[b] = 3
		}
		return ok
	}
	b := at.Block().Index
	for _, f := range g.FactsAt(b) {
		if match(f) {
			return true
		}
	}
	// A dominating fact about a merged boolean ("ok := A || B; if !ok { continue }"): every path to
	// `at` enters the merge block a last time, over some edge, and on that edge the merged value is
	// the edge's value. The fact holds on every path if, for each incoming edge, the edge's value makes
	// the matching fact, or contradicts the known value (edge not taken), or the paths to it hold.
	for _, f := range g.FactsAt(b) {
		cond, val := stripNotB(f.Cond, f.Val)
		phi, ok := cond.(*ssa.Phi)
		if !ok || phi.Block() == nil {
			continue
		}
		j := phi.Block()
		all := len(j.Preds) > 0
		for k, pb := range j.Preds {
			if !g.Reach[pb.Index] {
				continue
			}
			e, ev := stripNotB(phi.Edges[k], val)
			if kb, isK := ssax.ConstBool(e); isK {
				if kb != ev {
					continue // this edge cannot have been the one taken
				}
			} else if match(ssax.Fact{Cond: e, Val: ev}) {
				continue
			}
			found := false
			for _, ef := range factsOnEdge(g, pb, j) {
				if match(ef) {
					found = true
				}
			}
			if found || (via != nil && via(pb.Index)) {
				continue
			}
			if pb.Index == anchorBlock || !holds(pb.Index) {
				all = false
				break
			}
		}
		if all {
			return true
		}
	}
	return holds(b)
}

func boolStr(b bool) string {
	if b {
		return "true"
	}
	return "false"
}

// ---------------------------------------------------------------------------
// Counted loops

// innermostLoop returns the smallest natural loop containing block b.
func innermostLoop(g *ssax.Graph, b int) (natLoop, bool) {
	var best natLoop
	found := false
	for _, l := range loopsOf(g) {
		if l.Blocks[b] && (!found || len(l.Blocks) < len(best.Blocks)) {
			best, found = l, true
		}
	}
	return best, found
}

// loopExits returns the edges that leave the loop.
func loopExits(g *ssax.Graph, l natLoop) [][2]int {
	var out [][2]int
	for b := range l.Blocks {
		for _, s := range g.Succs[b] {
			if !l.Blocks[s] {
				out = append(out, [2]int{b, s})
			}
		}
	}
	return out
}

// counter recognises v as c+d where c is a loop counter phi [init, c+1, c+1, ...]
// and d is 0 or 1.
func counter(v ssa.Value) (phi *ssa.Phi, init ssa.Value, d int64, ok bool) {
	if b, isB := v.(*ssa.BinOp); isB && b.Op == token.ADD {
		if k, isK := ssax.ConstInt(b.Y); isK && k == 1 {
			if p, in, d0, ok0 := counter(b.X); ok0 && d0 == 0 {
				return p, in, 1, true
			}
		}
		return nil, nil, 0, false
	}
	p, isP := v.(*ssa.Phi)
	if !isP {
		return nil, nil, 0, false
	}
	in := counterInit(p)
	if in == nil {
		return nil, nil, 0, false
	}
	return p, in, 0, true
}

// counterInit returns the one incoming value of p that is not p+1, provided
// every other incoming value is p+1.
func counterInit(p *ssa.Phi) ssa.Value {
	var init ssa.Value
	steps := 0
	for _, e := range p.Edges {
		if b, ok := e.(*ssa.BinOp); ok && b.Op == token.ADD && b.X == ssa.Value(p) {
			if c, isK := ssax.ConstInt(b.Y); isK && c == 1 {
				steps++
				continue
			}
		}
		if init != nil {
			return nil
		}
		init = e
	}
	if steps == 0 {
		return nil
	}
	return init
}

// countedExit describes a loop exit edge taken when "c+e < bound" is false.
type countedExit struct {
	Phi   *ssa.Phi
	Init  ssa.Value
	E     int64
	Bound ssa.Value
	Block int
}

// exitIsCounted recognises the exit edge x->y of loop l as the false branch of
// "counter < bound" (or the true branch of "counter >= bound").
func exitIsCounted(g *ssax.Graph, l natLoop, x, y int) (countedExit, bool) {
	blk := g.Fn.Blocks[x]
	ifi, ok := blk.Instrs[len(blk.Instrs)-1].(*ssa.If)
	if !ok || len(blk.Succs) != 2 {
		return countedExit{}, false
	}
	exitOnTrue := blk.Succs[0].Index == y
	cond := ifi.Cond
	for {
		u, isU := cond.(*ssa.UnOp)
		if !isU || u.Op != token.NOT {
			break
		}
		cond, exitOnTrue = u.X, !exitOnTrue
	}
	b, isB := cond.(*ssa.BinOp)
	if !isB {
		return countedExit{}, false
	}
	var cv, bound ssa.Value
	switch {
	case b.Op == token.LSS && !exitOnTrue:
		cv, bound = b.X, b.Y
	case b.Op == token.GTR && !exitOnTrue:
		cv, bound = b.Y, b.X
	case b.Op == token.GEQ && exitOnTrue:
		cv, bound = b.X, b.Y
	case b.Op == token.LEQ && exitOnTrue:
		cv, bound = b.Y, b.X
	default:
		return countedExit{}, false
	}
	phi, init, e, ok := counter(cv)
	if !ok || phi.Block().Index != l.Header {
		return countedExit{}, false
	}
	return countedExit{phi, init, e, bound, x}, true
}

// bodyRange computes, for a value v = c+d used at instruction `at` inside a
// counted loop all of whose exits are counted exits on the same counter with a
// constant bound, the exact range [lo, hi) of values v takes at `at`.
func bodyRange(g *ssax.Graph, at ssa.Instruction, v ssa.Value) (lo, hi int64, why string) {
	phi, init, d, ok := counter(v)
	if !ok {
		return 0, 0, "the value is not a loop counter (c or c+1 with c starting at a constant and stepping by 1)"
	}
	a, ok := ssax.ConstInt(init)
	if !ok {
		return 0, 0, "the counter does not start at a constant"
	}
	l, ok := innermostLoop(g, at.Block().Index)
	if !ok || l.Header != phi.Block().Index {
		return 0, 0, "the use is not in the counter's loop"
	}
	exits := loopExits(g, l)
	if len(exits) == 0 {
		return 0, 0, "the loop has no exit"
	}
	first := true
	for _, ex := range exits {
		ce, ok := exitIsCounted(g, l, ex[0], ex[1])
		if !ok || ce.Phi != phi {
			return 0, 0, "the loop can be left through b" + itoa(ex[0]) + " other than by exhausting the counter"
		}
		k, isK := ssax.ConstInt(ce.Bound)
		if !isK {
			return 0, 0, "the loop bound is not a constant"
		}
		var h int64
		switch {
		case g.DomBlock(ce.Block, at.Block().Index) && ce.Block != at.Block().Index:
			// test before the body: body runs while c+e < k
			h = k - ce.E + d
		case g.DomBlock(at.Block().Index, ce.Block):
			// test after the body (rotated loop): body saw c, continues while c+e < k
			if ce.E != 1 {
				return 0, 0, "unrecognised rotated loop test"
			}
			h = k + d // c = a..k-1, v = c+d
		default:
			return 0, 0, "the loop test neither precedes nor follows the use on every iteration"
		}
		if first {
			hi, first = h, false
		} else if h != hi {
			return 0, 0, "the loop exits disagree on the bound"
		}
	}
	return a + d, hi, ""
}

// isBuiltinCall reports whether c calls the named builtin.
func isBuiltinCall(c *ssa.Call, name string) bool {
	b, ok := c.Call.Value.(*ssa.Builtin)
	return ok && b.Name() == name
}

// stripNotB removes leading negations, flipping the truth value accordingly.
func stripNotB(v ssa.Value, val bool) (ssa.Value, bool) {
	for {
		u, ok := v.(*ssa.UnOp)
		if !ok || u.Op != token.NOT {
			return v, val
		}
		v, val = u.X, !val
	}
}

func stripNotV(v ssa.Value) ssa.Value {
	for {
		u, ok := v.(*ssa.UnOp)
		if !ok || u.Op != token.NOT {
			return v
		}
		v = u.X
	}
}

// ---------------------------------------------------------------------------
// Equivalent library idioms. The same cut of a string is written with an index
// and two slices, or with strings.Cut / CutPrefix / CutSuffix; rules ask for the
// meaning, not for the spelling.

func firstIndexOf(v ssa.Value) (x ssa.Value, sep string, ok bool) {
	c, isC := v.(*ssa.Call)
	if !isC {
		return nil, "", false
	}
	switch ssax.CalleeName(&c.Call) {
	case "strings.Index", "bytes.Index":
		if s, isS := ssax.ConstString(c.Call.Args[1]); isS {
			return c.Call.Args[0], s, true
		}
	case "strings.IndexByte", "bytes.IndexByte", "strings.IndexRune":
		if k, isK := ssax.ConstInt(c.Call.Args[1]); isK && k < 128 {
			return c.Call.Args[0], string(rune(k)), true
		}
	}
	return nil, "", false
}

func cutCall(v ssa.Value, names ...string) (c *ssa.Call, idx int, ok bool) {
	e, isE := v.(*ssa.Extract)
	if !isE {
		return nil, 0, false
	}
	call, isC := e.Tuple.(*ssa.Call)
	if !isC {
		return nil, 0, false
	}
	n := ssax.CalleeName(&call.Call)
	for _, w := range names {
		if n == "strings."+w || n == "bytes."+w {
			return call, e.Index, true
		}
	}
	return nil, 0, false
}

// beforeFirst recognises v as the part of x before the first occurrence of sep.
func beforeFirst(v ssa.Value) (x ssa.Value, sep string, ok bool) {
	if sl, isS := v.(*ssa.Slice); isS && sl.Low == nil && sl.High != nil {
		if ix, s, ok := firstIndexOf(sl.High); ok && ix == sl.X {
			return sl.X, s, true
		}
	}
	if c, idx, ok := cutCall(v, "Cut"); ok && idx == 0 {
		if s, isS := ssax.ConstString(c.Call.Args[1]); isS {
			return c.Call.Args[0], s, true
		}
		if g := constBytes(c.Call.Args[1]); g != "" {
			return c.Call.Args[0], g, true
		}
	}
	return nil, "", false
}

// afterFirst recognises v as the part of x after the first occurrence of sep.
func afterFirst(v ssa.Value) (x ssa.Value, sep string, ok bool) {
	if sl, isS := v.(*ssa.Slice); isS && sl.High == nil && sl.Low != nil {
		if b, isB := sl.Low.(*ssa.BinOp); isB && b.Op == token.ADD {
			if ix, s, ok := firstIndexOf(b.X); ok && ix == sl.X {
				if k, isK := ssax.ConstInt(b.Y); isK && int(k) == len(s) {
					return sl.X, s, true
				}
			}
		}
	}
	if c, idx, ok := cutCall(v, "Cut"); ok && idx == 1 {
		if s, isS := ssax.ConstString(c.Call.Args[1]); isS {
			return c.Call.Args[0], s, true
		}
		if g := constBytes(c.Call.Args[1]); g != "" {
			return c.Call.Args[0], g, true
		}
	}
	return nil, "", false
}

// constBytes returns the contents of a package-level []byte("...") variable
// that is never reassigned, or "".
func constBytes(v ssa.Value) string {
	u, ok := v.(*ssa.UnOp)
	if !ok || u.Op != token.MUL {
		return ""
	}
	gl, ok := u.X.(*ssa.Global)
	if !ok || gl.Pkg == nil {
		return ""
	}
	init, ok := globalSingleInit(gl)
	if !ok {
		return ""
	}
	if cv, isCv := init.(*ssa.Convert); isCv {
		if k, isK := ssax.ConstString(cv.X); isK {
			return k
		}
	}
	return ""
}

// globalSingleInit returns the one value ever stored into package variable gl, provided nothing
// else in its package can change it: no second store, no address taken (other than to load it), no
// store to its elements through a load.
func globalSingleInit(gl *ssa.Global) (ssa.Value, bool) {
	var val ssa.Value
	stores := 0
	var visit func(f *ssa.Function)
	visit = func(f *ssa.Function) {
		for _, b := range f.Blocks {
			for _, i := range b.Instrs {
				if st, isSt := i.(*ssa.Store); isSt && st.Addr == ssa.Value(gl) {
					stores++
					val = st.Val
				}
				for _, op := range i.Operands(nil) {
					if *op == ssa.Value(gl) {
						switch x := i.(type) {
						case *ssa.Store:
							if x.Addr != ssa.Value(gl) {
								stores += 2
							}
						case *ssa.UnOp:
							if rs := x.Referrers(); rs != nil {
								for _, r := range *rs {
									if ia, isIA := r.(*ssa.IndexAddr); isIA {
										if rr := ia.Referrers(); rr != nil {
											for _, q := range *rr {
												if st, isSt := q.(*ssa.Store); isSt && st.Addr == ssa.Value(ia) {
													stores += 2
												}
											}
										}
									}
								}
							}
						default:
							stores += 2
						}
					}
				}
			}
		}
		for _, a := range f.AnonFuncs {
			visit(a)
		}
	}
	for _, m := range gl.Pkg.Members {
		switch x := m.(type) {
		case *ssa.Function:
			visit(x)
		case *ssa.Type:
			for _, T := range []types.Type{x.Type(), types.NewPointer(x.Type())} {
				ms := gl.Pkg.Prog.MethodSets.MethodSet(T)
				for k := 0; k < ms.Len(); k++ {
					if fn := gl.Pkg.Prog.MethodValue(ms.At(k)); fn != nil && fn.Pkg == gl.Pkg {
						visit(fn)
					}
				}
			}
		}
	}
	if stores != 1 || val == nil {
		return nil, false
	}
	return val, true
}

// hasPrefixTest recognises a boolean that is true exactly when x starts with s.
func hasPrefixTest(v ssa.Value) (x ssa.Value, s string, ok bool) {
	if c, isC := v.(*ssa.Call); isC {
		switch ssax.CalleeName(&c.Call) {
		case "strings.HasPrefix", "bytes.HasPrefix":
			if k, isK := ssax.ConstString(c.Call.Args[1]); isK {
				return c.Call.Args[0], k, true
			}
		}
	}
	if c, idx, ok := cutCall(v, "CutPrefix"); ok && idx == 1 {
		if k, isK := ssax.ConstString(c.Call.Args[1]); isK {
			return c.Call.Args[0], k, true
		}
	}
	return nil, "", false
}

// withoutPrefix recognises v as x with its first n bytes removed (x[n:], or
// the first result of CutPrefix(x, s) with len(s) == n).
func withoutPrefix(v ssa.Value) (x ssa.Value, n int, ok bool) {
	if sl, isS := v.(*ssa.Slice); isS && sl.High == nil && sl.Low != nil {
		if k, isK := ssax.ConstInt(sl.Low); isK {
			return sl.X, int(k), true
		}
	}
	if c, idx, ok := cutCall(v, "CutPrefix"); ok && idx == 0 {
		if k, isK := ssax.ConstString(c.Call.Args[1]); isK {
			return c.Call.Args[0], len(k), true
		}
	}
	if c, isC := v.(*ssa.Call); isC {
		switch ssax.CalleeName(&c.Call) {
		case "strings.TrimPrefix", "bytes.TrimPrefix":
			if k, isK := ssax.ConstString(c.Call.Args[1]); isK {
				return c.Call.Args[0], len(k), true
			}
		}
	}
	return nil, 0, false
}

// hasSuffixTest recognises a fact "x ends in s": HasSuffix(x, s) true, the
// ok result of CutSuffix(x, s), or len(TrimSuffix(x, s)) != len(x).
func suffixFact(f ssax.Fact) (x ssa.Value, s string, holds bool, ok bool) {
	if c, isC := f.Cond.(*ssa.Call); isC {
		switch ssax.CalleeName(&c.Call) {
		case "strings.HasSuffix", "bytes.HasSuffix":
			if k, isK := ssax.ConstString(c.Call.Args[1]); isK {
				return c.Call.Args[0], k, f.Val, true
			}
		}
	}
	if c, idx, ok := cutCall(f.Cond, "CutSuffix"); ok && idx == 1 {
		if k, isK := ssax.ConstString(c.Call.Args[1]); isK {
			return c.Call.Args[0], k, f.Val, true
		}
	}
	if b, isB := f.Cond.(*ssa.BinOp); isB && (b.Op == token.NEQ || b.Op == token.EQL) {
		for _, pr := range [][2]ssa.Value{{b.X, b.Y}, {b.Y, b.X}} {
			l1, ok1 := pr[0].(*ssa.Call)
			l2, ok2 := pr[1].(*ssa.Call)
			if !ok1 || !ok2 || !isBuiltinCall(l1, "len") || !isBuiltinCall(l2, "len") {
				continue
			}
			if t, isT := l1.Call.Args[0].(*ssa.Call); isT && (ssax.CalleeName(&t.Call) == "strings.TrimSuffix" || ssax.CalleeName(&t.Call) == "bytes.TrimSuffix") && t.Call.Args[0] == l2.Call.Args[0] {
				if k, isK := ssax.ConstString(t.Call.Args[1]); isK {
					return t.Call.Args[0], k, (b.Op == token.NEQ) == f.Val, true
				}
			}
		}
	}
	return nil, "", false, false
}

// withoutSuffix recognises v as x with the suffix s removed.
func withoutSuffix(v ssa.Value) (x ssa.Value, s string, ok bool) {
	if c, isC := v.(*ssa.Call); isC {
		switch ssax.CalleeName(&c.Call) {
		case "strings.TrimSuffix", "bytes.TrimSuffix":
			if k, isK := constText(c.Call.Args[1]); isK {
				return c.Call.Args[0], k, true
			}
		}
	}
	if c, idx, ok := cutCall(v, "CutSuffix"); ok && idx == 0 {
		if k, isK := constText(c.Call.Args[1]); isK {
			return c.Call.Args[0], k, true
		}
	}
	return nil, "", false
}

// constText: a constant string, a []byte conversion of one, or a package-level []byte
// variable holding one that is never changed.
func constText(v ssa.Value) (string, bool) {
	if k, ok := ssax.ConstString(v); ok {
		return k, true
	}
	if cv, ok := v.(*ssa.Convert); ok {
		if k, ok := ssax.ConstString(cv.X); ok {
			return k, true
		}
	}
	if k := constBytes(v); k != "" {
		return k, true
	}
	return "", false
}

// uncountedExits lists the edges by which a loop can be left other than by
// exhausting its counter; exits into blocks that end in a no-return call are
// not exits for this purpose (the line fails there).
func uncountedExits(g *ssax.Graph, l natLoop) [][2]int {
	var out [][2]int
	for _, ex := range loopExits(g, l) {
		if _, ok := exitIsCounted(g, l, ex[0], ex[1]); ok {
			continue
		}
		// an exit whose every continuation ends in a cut (Fatalf) does not leave the function normally
		normal := false
		g.Walk(ssax.Point{Block: ex[1]}, func(i ssa.Instruction, _ []int) ssax.Action { return ssax.Continue }, func(last ssa.Instruction, _ []int) {
			if _, isRet := last.(*ssa.Return); isRet {
				normal = true
			}
		})
		if normal {
			out = append(out, ex)
		}
	}
	return out
}

// elementLoops returns the loops of g that iterate over seq (or a re-slice of
// it): their counted exit's bound is len of a value derived from seq.
func elementLoops(g *ssax.Graph, isSeq func(ssa.Value) bool) []natLoop {
	var out []natLoop
	for _, l := range loopsOf(g) {
		over := false
		for _, ex := range loopExits(g, l) {
			ce, ok := exitIsCounted(g, l, ex[0], ex[1])
			if !ok {
				continue
			}
			if ln, isC := ce.Bound.(*ssa.Call); isC && isBuiltinCall(ln, "len") && ssax.DerivedFrom(ln.Call.Args[0], isSeq, nil) {
				over = true
			}
		}
		if over {
			out = append(out, l)
		}
	}
	return out
}

// decimalText recognises v as the base-10 text of an integer x: strconv.FormatInt(x, 10),
// strconv.Itoa(int(x)), fmt.Sprintf("%d", x), fmt.Sprint(x), or a []byte conversion of one of these.
func decimalText(v ssa.Value) (x ssa.Value, ok bool) {
	v = ssax.Strip(v)
	if cv, isCv := v.(*ssa.Convert); isCv {
		return decimalText(cv.X)
	}
	c, isC := v.(*ssa.Call)
	if !isC {
		return nil, false
	}
	unconv := func(a ssa.Value) ssa.Value {
		a = ssax.Strip(a)
		if cv, isCv := a.(*ssa.Convert); isCv {
			if b, isB := cv.X.Type().Underlying().(*types.Basic); isB && b.Info()&types.IsInteger != 0 {
				return ssax.Strip(cv.X)
			}
		}
		return a
	}
	switch ssax.CalleeName(&c.Call) {
	case "strconv.FormatInt":
		if k, isK := ssax.ConstInt(c.Call.Args[1]); isK && k == 10 {
			return unconv(c.Call.Args[0]), true
		}
	case "strconv.Itoa":
		return unconv(c.Call.Args[0]), true
	case "fmt.Sprintf":
		if isConstStr("%d")(c.Call.Args[0]) {
			if el := variadicElems(c.Call.Args[1]); len(el) == 1 {
				return unconv(el[0]), true
			}
		}
	case "fmt.Sprint":
		if el := variadicElems(c.Call.Args[0]); len(el) == 1 {
			if b, isB := ssax.Strip(el[0]).Type().Underlying().(*types.Basic); isB && b.Info()&types.IsInteger != 0 {
				return unconv(el[0]), true
			}
		}
	}
	return nil, false
}

// pathAvoiding reports whether some path from the start of block `from` (entered from
// predecessor `pred`, -1 for none) reaches an instruction accepted by target without first
// executing an instruction accepted by stopInstr and without crossing an edge accepted by
// stopEdge. Blocks that branch on a boolean merged in them are left in the direction the
// value arriving from the predecessor decides (when it is a constant).
func pathAvoiding(g *ssax.Graph, pred, from int, target, stopInstr func(ssa.Instruction) bool, stopEdge func(p, s int, extra []ssax.Fact) bool) (ssa.Instruction, bool) {
	type st struct{ pred, blk int }
	seen := map[st]bool{}
	work := []st{{pred, from}}
	extras := map[st][]ssax.Fact{}
	for len(work) > 0 {
		cur := work[0]
		work = work[1:]
		if seen[cur] || !g.Reach[cur.blk] {
			continue
		}
		seen[cur] = true
		if cur.pred >= 0 && stopEdge != nil && stopEdge(cur.pred, cur.blk, extras[cur]) {
			continue
		}
		blk := g.Fn.Blocks[cur.blk]
		end := len(blk.Instrs)
		if c := g.Cut[cur.blk]; c >= 0 {
			end = c + 1
		}
		stopped := false
		for _, ins := range blk.Instrs[:end] {
			if stopInstr != nil && stopInstr(ins) {
				stopped = true
				break
			}
			if target(ins) {
				return ins, true
			}
		}
		if stopped || g.Cut[cur.blk] >= 0 {
			continue
		}
		succs := g.Succs[cur.blk]
		if ifi, ok := blk.Instrs[len(blk.Instrs)-1].(*ssa.If); ok && len(blk.Succs) == 2 {
			cond, pos := stripNotB(ifi.Cond, true)
			if ph, isPhi := cond.(*ssa.Phi); isPhi && ph.Block() == blk {
				for k, pb := range blk.Preds {
					if pb.Index != cur.pred {
						continue
					}
					if kb, isK := ssax.ConstBool(ph.Edges[k]); isK {
						take := blk.Succs[1].Index
						if kb == pos {
							take = blk.Succs[0].Index
						}
						succs = []int{take}
					} else {
						// the merged flag has, on this way in, the value of a condition computed earlier: leaving
						// by the true (false) edge means that condition was true (false)
						in, inPos := stripNotB(ph.Edges[k], true)
						for si, sb := range blk.Succs {
							val := (si == 0) == pos
							if !inPos {
								val = !val
							}
							key := st{cur.blk, sb.Index}
							extras[key] = append(extras[key], ssax.Fact{Cond: in, Val: val})
						}
					}
				}
			}
		}
		for _, nx := range succs {
			work = append(work, st{cur.blk, nx})
		}
	}
	return nil, false
}
