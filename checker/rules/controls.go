package rules

// RunControls loads the fixture package and requires every engine primitive to
// fire on its deliberately broken functions and stay silent on the sound twins.
func RunControls(checkerDir string) ([]string, error) {
	return runControls(checkerDir)
}
