package rules

import (
	"fmt"
	"go/token"
	"go/types"
	"strings"

	"golang.org/x/tools/go/ssa"

	"verif/checker/boundx"
	"verif/checker/core"
	"verif/checker/ssax"
)

func init() { Registry["C05"] = Spec{Run: runC05, Packages: []string{"cache"}} }

const cachePkg = core.ModPath + "/cache"

func cacheConst(p *core.Prog, name string) int64 {
	pk := p.TPkg("cache")
	if pk == nil {
		return -1
	}
	return constOf(pk.Types.Scope().Lookup(name))
}

// isFieldLoad matches a load of field `name` (by name) of any struct value.
func isFieldLoad(name string) func(ssa.Value) bool {
	return func(v ssa.Value) bool {
		switch x := v.(type) {
		case *ssa.UnOp:
			if x.Op != token.MUL {
				return false
			}
			fa, ok := x.X.(*ssa.FieldAddr)
			return ok && ssax.FieldOf(fa) != nil && ssax.FieldOf(fa).Name() == name
		case *ssa.Field:
			return ssax.FieldOf(x) != nil && ssax.FieldOf(x).Name() == name
		}
		return false
	}
}

func runC05(ctx *core.Ctx) {
	c05Round6(ctx)
	ctx.Trusted = append(ctx.Trusted, "go/types, go/ssa", "sha256.Sum256, hex.Decode, strconv.ParseInt, io.ReadFull, os.Stat behave as documented", "file-system returns the bytes that were written (the gates are shown to be in place and unavoidable, not that the disk is honest)")
	lookupGates(ctx, "G")
	c12PutOrder(ctx, "G7")
	reuseAfterRehash(ctx, "G8")
	putAlwaysCopies(ctx, "G12")
	truncGuard(ctx, "G9", true)
	expectedIDReadOnly(ctx, "G10")
	indexNilMeansWritten(ctx, "G11")
	ctx.Rule("R1", "index rewrite: opened without O_TRUNC/O_APPEND, one write, and always truncated to the entry length after a successful write (so a later Put repairs an over-long damaged entry)", 2)
	indexRewriteRules(ctx)
}

// lookupGates implements G1-G6 (shared by C05 and C11).
func lookupGates(ctx *core.Ctx, pfx string) {
	p := ctx.P
	G := func(n int) string { return fmt.Sprintf("%s%d", pfx, n) }
	ctx.Rule(G(1), "checksum gate: in GetBytes every return with a nil error returns as data the very value passed to sha256.Sum256 in a comparison with the entry's OutputID, on that comparison's equal edge", 1)
	ctx.Rule(G(2), "size gate: in GetFile every nil-error return is on the equal edge of info.Size() == entry.Size, info from a successful os.Stat of the returned name, the name from OutputFile(entry.OutputID)", 1)
	ctx.Rule(G(3), "strict entry parsing: in get every nil-error return is dominated by: exactly entrySize bytes read, every literal byte of the entry format at its offset, decoded id equal to the requested id, both hex.Decode and both ParseInt succeeding, size >= 0 and time >= 0", 8)
	ctx.Rule(G(4), "error discipline: every non-nil error returned by Get, get, GetFile, GetBytes is an *entryNotFoundError constructed there, produced by the 'missing' helper or propagated from another of these lookups", 10)
	ctx.Rule(G(5), "no lookup panics: bounds engine over every module function reachable from Get, GetFile, GetBytes, OutputFile", 1)
	ctx.Rule(G(6), "writer/reader agreement: the Sprintf format of the index entry, applied to its operand types, yields exactly entrySize bytes with literal bytes at exactly the offsets the reader tests; index and data files use distinct key letters consistently between writer and reader", 3)

	get := ctx.Need(G(3), "cache", "(*Cache).get")
	Get := ctx.Need(G(4), "cache", "(*Cache).Get")
	getFile := ctx.Need(G(2), "cache", "(*Cache).GetFile")
	getBytes := ctx.Need(G(1), "cache", "(*Cache).GetBytes")
	outputFile := ctx.Need(G(2), "cache", "(*Cache).OutputFile")
	putIdx := ctx.Need(G(6), "cache", "(*Cache).putIndexEntry")
	if get == nil || Get == nil || getFile == nil || getBytes == nil || outputFile == nil || putIdx == nil {
		return
	}
	lookupName := func(f *ssa.Function) string { return ssax.FuncName(f) }

	// ---- G1
	{
		g := graph(p, getBytes)
		n := 0
		for _, r := range g.Returns() {
			rv := ssax.ReturnValues(r)
			if !ssax.IsNil(rv[2]) {
				continue
			}
			n++
			data := rv[0]
			facts := g.FactsAtInstr(r)
			ok := cmpFact(facts, token.EQL, isCallOf([]string{"crypto/sha256.Sum256"}, isVal(data)), func(v ssa.Value) bool {
				return ssax.DerivedFrom(v, isFieldLoad("OutputID"), nil) || isFieldLoad("OutputID")(v)
			})
			if ssax.IsNil(data) {
				ok = false
			}
			ctx.Check(ok, G(1), "cache.GetBytes#ok-return"+itoa(n), r.Pos(), "returned bytes are the operand of sha256.Sum256 compared equal to entry.OutputID on every path to this return")
		}
		if n == 0 {
			ctx.Unknown(G(1), "cache.GetBytes", getBytes.Pos(), "no nil-error return found")
		}
	}
	// ---- G2
	{
		g := graph(p, getFile)
		n := 0
		for _, r := range g.Returns() {
			rv := ssax.ReturnValues(r)
			if !ssax.IsNil(rv[2]) {
				continue
			}
			n++
			file := rv[0]
			facts := g.FactsAtInstr(r)
			var why []string
			// file = OutputFile(entry.OutputID)
			fc, ok := file.(*ssa.Call)
			if !ok || fc.Call.StaticCallee() != outputFile || !ssax.DerivedFrom(fc.Call.Args[1], isFieldLoad("OutputID"), nil) {
				why = append(why, "returned name is not OutputFile(entry.OutputID)")
			}
			// info from os.Stat(file) with err == nil
			var stat *ssa.Call
			for _, c := range g.Calls("os.Stat") {
				if c.Call.Args[0] == file {
					stat = c
				}
			}
			if stat == nil {
				why = append(why, "no os.Stat of the returned name")
			} else {
				if e := ssax.Extracted(stat, 1); e == nil || !ssax.KnownNil(facts, e, true) {
					why = append(why, "os.Stat error not known nil")
				}
				info := ssax.Extracted(stat, 0)
				sizeCall := func(v ssa.Value) bool {
					c, ok := v.(*ssa.Call)
					return ok && c.Call.IsInvoke() && c.Call.Method.Name() == "Size" && c.Call.Value == info
				}
				if !cmpFact(facts, token.EQL, sizeCall, isFieldLoad("Size")) {
					why = append(why, "info.Size() == entry.Size not established (an inequality or a weaker comparison does not gate the length)")
				}
			}
			ctx.Check(len(why) == 0, G(2), "cache.GetFile#ok-return"+itoa(n), r.Pos(), "size gate: %s", strings.Join(why, "; "))
		}
		if n == 0 {
			ctx.Unknown(G(2), "cache.GetFile", getFile.Pos(), "no nil-error return found")
		}
	}
	// ---- G6 layout from the writer's format
	type lit struct {
		off int64
		b   byte
	}
	var lits []lit
	total := int64(-1)
	{
		g := graph(p, putIdx)
		var sp *ssa.Call
		for _, c := range g.Calls("fmt.Sprintf") {
			c := c
			g.Instrs(func(i ssa.Instruction) {
				if w, ok := i.(*ssa.Call); ok {
					n := ssax.CalleeName(&w.Call)
					if (n == "(*os.File).WriteString" || n == "(*os.File).Write") && ssax.DerivedFrom(w.Call.Args[1], isVal(c), nil) {
						sp = c
					}
				}
			})
		}
		if sp == nil {
			ctx.Bad(G(6), "cache.putIndexEntry#format", putIdx.Pos(), "no fmt.Sprintf building the entry")
		} else {
			format, _ := ssax.ConstString(sp.Call.Args[0])
			ops := variadicElems(sp.Call.Args[1])
			off := int64(0)
			oi := 0
			ok := true
			why := ""
			for i := 0; i < len(format); i++ {
				if format[i] != '%' {
					lits = append(lits, lit{off, format[i]})
					off++
					continue
				}
				j := i + 1
				w := int64(0)
				for j < len(format) && format[j] >= '0' && format[j] <= '9' {
					w = w*10 + int64(format[j]-'0')
					j++
				}
				if j >= len(format) || oi >= len(ops) {
					ok, why = false, "malformed format"
					break
				}
				t := ssax.Strip(ops[oi]).Type()
				switch format[j] {
				case 'x':
					n, isArr := arrayLen(t)
					if !isArr {
						ok, why = false, "%x operand is not a fixed-size byte array"
					}
					off += 2 * n
				case 'd':
					b, isB := t.Underlying().(*types.Basic)
					if !isB || b.Kind() != types.Int64 || w < 20 {
						ok, why = false, "%Nd operand is not an int64 with width >= 20 (19 digits + sign)"
					}
					off += w
				default:
					ok, why = false, "unsupported verb"
				}
				oi++
				i = j
			}
			total = off
			es := cacheConst(p, "entrySize")
			if ok && total != es {
				ok, why = false, fmt.Sprintf("format yields %d bytes but entrySize is %d", total, es)
			}
			ctx.Check(ok, G(6), "cache.putIndexEntry#format", sp.Pos(), "format %q over its operand types yields exactly entrySize=%d bytes %s", format, es, why)
			// the written string is that Sprintf result, written with one call
			wr := 0
			g.Instrs(func(i ssa.Instruction) {
				if c, ok := i.(*ssa.Call); ok {
					n := ssax.CalleeName(&c.Call)
					if n == "(*os.File).WriteString" || n == "(*os.File).Write" {
						wr++
						if !ssax.DerivedFrom(c.Call.Args[1], isVal(sp), nil) {
							wr += 100
						}
					}
				}
			})
			ctx.Check(wr == 1, G(6), "cache.putIndexEntry#single-write", sp.Pos(), "the entry is written by a single write call of the formatted string (writes=%d)", wr)
		}
		// key letters
		keys := map[string]map[string]bool{}
		for _, f := range p.ModFuncs() {
			if f.Pkg == nil || f.Pkg != p.Pkg("cache") {
				continue
			}
			for _, c := range graph(p, f).Calls("(*" + cachePkg + ".Cache).fileName") {
				k, ok := ssax.ConstString(c.Call.Args[2])
				if !ok {
					k = "?"
				}
				if keys[f.Name()] == nil {
					keys[f.Name()] = map[string]bool{}
				}
				keys[f.Name()][k] = true
			}
		}
		one := func(fn string) string {
			if len(keys[fn]) != 1 {
				return "?" + fn
			}
			for k := range keys[fn] {
				return k
			}
			return ""
		}
		ki, kd := one("get"), one("OutputFile")
		okKeys := ki == one("putIndexEntry") && kd == one("copyFile") && ki != kd && !strings.HasPrefix(ki, "?") && !strings.HasPrefix(kd, "?")
		ctx.Check(okKeys, G(6), "cache#key-letters", get.Pos(), "index reader/writer use key %q/%q, data reader/writer use %q/%q", ki, one("putIndexEntry"), kd, one("copyFile"))
	}
	// ---- G3
	{
		g := graph(p, get)
		a := boundx.New(g, info(p).env, nil)
		es := cacheConst(p, "entrySize")
		var rf *ssa.Call
		for _, c := range g.Calls("io.ReadFull") {
			rf = c
		}
		n := 0
		for _, r := range g.Returns() {
			rv := ssax.ReturnValues(r)
			if !ssax.IsNil(rv[1]) {
				continue
			}
			n++
			key := "cache.get#ok-return" + itoa(n)
			facts := g.FactsAtInstr(r)
			if rf == nil {
				ctx.Bad(G(3), key, r.Pos(), "no io.ReadFull of the entry")
				continue
			}
			buf := rf.Call.Args[1]
			nread := ssax.Extracted(rf, 0)
			exact := nread != nil && a.Entailed(r, a.I(nread).Sub(boundx.K(es))) && a.Entailed(r, boundx.K(es).Sub(a.I(nread)))
			ctx.Check(exact, G(3), key+":length", r.Pos(), "exactly entrySize=%d bytes were read", es)
			// buffer must be larger than entrySize so that a longer file is detected
			ctx.Check(a.Entailed(r, a.L(buf).Sub(boundx.K(es+1))), G(3), key+":overlong", r.Pos(), "read buffer holds more than entrySize bytes so an over-long entry is detected")
			miss := 0
			for _, l := range lits {
				l := l
				if !cmpFact(facts, token.EQL, isElemLoad(buf, isConstIntV(l.off)), isConstIntV(int64(l.b))) {
					miss++
					ctx.Bad(G(3), fmt.Sprintf("%s:literal@%d", key, l.off), r.Pos(), "byte %q at offset %d of the entry format is not checked before the entry is accepted", l.b, l.off)
				}
			}
			if miss == 0 && len(lits) > 0 {
				ctx.OK(G(3), key+":literals", r.Pos(), "all %d literal bytes of the writer's format are checked at their offsets", len(lits))
			}
			// id equality
			id := get.Params[1]
			idOK := cmpFact(facts, token.EQL, func(v ssa.Value) bool { return !ssax.IsNil(v) && v != ssa.Value(id) }, func(v ssa.Value) bool {
				return v == ssa.Value(id) || ssax.DerivedFrom(v, isVal(id), nil)
			})
			ctx.Check(idOK, G(3), key+":id", r.Pos(), "decoded id compared equal to the requested id")
			// decode / parse errors and signs
			for _, name := range []string{"encoding/hex.Decode", "strconv.ParseInt"} {
				cs := g.Calls(name)
				if len(cs) < 2 {
					ctx.Bad(G(3), key+":"+name, r.Pos(), "expected two %s calls, found %d", name, len(cs))
				}
				for k, c := range cs {
					e := ssax.Extracted(c, 1)
					ctx.Check(e != nil && ssax.KnownNil(facts, e, true), G(3), fmt.Sprintf("%s:%s#%d:err", key, name, k+1), c.Pos(), "error of %s checked nil before success", name)
					if name == "strconv.ParseInt" {
						v := ssax.Extracted(c, 0)
						ctx.Check(v != nil && a.Entailed(r, a.I(v)), G(3), fmt.Sprintf("%s:%s#%d:nonneg", key, name, k+1), c.Pos(), "parsed value proved >= 0 before success")
					}
				}
			}
		}
		if n == 0 {
			ctx.Unknown(G(3), "cache.get", get.Pos(), "no nil-error return found")
		}
	}
	// ---- G4
	{
		set := map[*ssa.Function]bool{get: true, Get: true, getFile: true, getBytes: true}
		for _, a := range get.AnonFuncs {
			set[a] = true
		}
		isNF := func(v ssa.Value) bool {
			mi, ok := v.(*ssa.MakeInterface)
			if !ok {
				return false
			}
			return isNamed(mi.X.Type(), cachePkg, "entryNotFoundError")
		}
		for f := range set {
			g := graph(p, f)
			ei := errorResultIndex(f)
			n := 0
			for _, r := range g.Returns() {
				v := ssax.ReturnValues(r)[ei]
				n++
				key := shortFn(f) + "#return" + itoa(n)
				var check func(v ssa.Value, d int) string
				check = func(v ssa.Value, d int) string {
					if ssax.IsNil(v) || isNF(v) {
						return ""
					}
					if ph, ok := v.(*ssa.Phi); ok && d < 5 {
						for _, e := range ph.Edges {
							if w := check(e, d+1); w != "" {
								return w
							}
						}
						return ""
					}
					if ex, ok := v.(*ssa.Extract); ok {
						if c, ok := ex.Tuple.(*ssa.Call); ok && set[c.Call.StaticCallee()] && ex.Index == errorResultIndex(c.Call.StaticCallee()) {
							return ""
						}
					}
					return "error value " + v.Name() + " is neither *entryNotFoundError nor propagated from a lookup"
				}
				why := check(v, 0)
				// a non-nil error known to be non-nil? not needed: the rule is on type
				if why == "" {
					ctx.OK(G(4), key, r.Pos(), "error result is nil, a *entryNotFoundError, or propagated from a lookup of this set")
				} else {
					ctx.Bad(G(4), key, r.Pos(), "%s: callers distinguish not-found from other failures by this type", why)
				}
			}
		}
		_ = lookupName
	}
	// ---- G5
	totality(ctx, []*ssa.Function{Get, getFile, getBytes, outputFile}, totalOpts{rule: G(5)})
}

func arrayLen(t types.Type) (int64, bool) {
	a, ok := t.Underlying().(*types.Array)
	if !ok {
		return 0, false
	}
	return a.Len(), true
}
