// Package inl normalises the program under analysis to the function
// decomposition of the pinned tree: every unexported function or method that
// does not exist in the reference list (reference_funcs.json, generated from
// the pinned tree) and is simple enough is inlined, at source level, into its
// callers before the rules run. Extract-function refactorings — the commonest
// behaviour-preserving edit — are thereby undone, so that rules anchored on the
// reference decomposition keep seeing the code they describe. The transformed
// source exists only as a go/packages overlay; positions are mapped back with
// //line directives. If anything about the transformation is not clearly safe
// (defer, recover, labels, recursion, generics, name capture, import mismatch,
// an expression context that would change evaluation order) the call is left
// alone, and if the overlay does not type-check it is discarded as a whole.
package inl

import (
	"bytes"
	_ "embed"
	"encoding/json"
	"fmt"
	"go/ast"
	"go/parser"
	"go/token"
	"go/types"
	"os"
	"path/filepath"
	"sort"
	"strings"

	"golang.org/x/tools/go/packages"
)

//go:embed reference_funcs.json
var refJSON []byte

var reference = func() map[string]bool {
	var l []string
	json.Unmarshal(refJSON, &l)
	m := map[string]bool{}
	for _, k := range l {
		m[k] = true
	}
	return m
}()

//go:embed reference_globals.json
var refGlobalsJSON []byte

var referenceGlobals = func() map[string]bool {
	var l []string
	json.Unmarshal(refGlobalsJSON, &l)
	m := map[string]bool{}
	for _, k := range l {
		m[k] = true
	}
	return m
}()

// KnownGlobal reports whether a package-level variable ("<pkgdir>:<Name>") exists in the pinned tree.
func KnownGlobal(key string) bool { return referenceGlobals[key] }

type edit struct {
	start, end int // byte offsets in the file
	text       string
}

type callee struct {
	obj     types.Object
	decl    *ast.FuncDecl
	pkg     *packages.Package
	file    *ast.File
	src     []byte
	nameKey string
}

type ctxT struct {
	fset    *token.FileSet
	srcs    map[string][]byte
	counter int
	notes   []string
	used    map[types.Object]bool // callees inlined somewhere in this round
	nInl    map[types.Object]int  // number of call sites inlined in this round
}

// serial numbers the generated names; it keeps counting across rounds so that
// a body inlined in one round can be inlined again, labels and all, in the next.
var serial int

func declKey(root, filename string, fd *ast.FuncDecl) string {
	rel, _ := filepath.Rel(root, filepath.Dir(filename))
	recv := ""
	if fd.Recv != nil && len(fd.Recv.List) > 0 {
		t := fd.Recv.List[0].Type
		if s, ok := t.(*ast.StarExpr); ok {
			t = s.X
		}
		if ix, ok := t.(*ast.IndexExpr); ok {
			t = ix.X
		}
		if id, ok := t.(*ast.Ident); ok {
			recv = id.Name + "."
		}
	}
	return fmt.Sprintf("%s:%s%s", rel, recv, fd.Name.Name)
}

// simple reports why a function cannot be inlined, or "".
func simple(fd *ast.FuncDecl, obj types.Object, info *types.Info) string {
	if fd.Body == nil {
		return "no body"
	}
	if fd.Type.TypeParams != nil {
		return "generic"
	}
	if fd.Recv != nil && len(fd.Recv.List) > 0 {
		if _, ok := fd.Recv.List[0].Type.(*ast.IndexExpr); ok {
			return "generic receiver"
		}
	}
	why := ""
	ast.Inspect(fd.Body, func(n ast.Node) bool {
		switch x := n.(type) {
		case *ast.DeferStmt:
			// a deferring function can only be merged where it is called in tail position (see tailInline)
		case *ast.LabeledStmt:
			if !strings.HasPrefix(x.Label.Name, "_inl") {
				why = "label"
			}
		case *ast.BranchStmt:
			if x.Tok == token.GOTO {
				why = "goto"
			}
		case *ast.FuncLit:
			// returns inside literals are theirs; but a recover in a literal is still suspicious
		case *ast.CallExpr:
			if id, ok := x.Fun.(*ast.Ident); ok && id.Name == "recover" {
				if _, isBuiltin := info.Uses[id].(*types.Builtin); isBuiltin {
					why = "recover"
				}
			}
			var fid *ast.Ident
			switch f := x.Fun.(type) {
			case *ast.Ident:
				fid = f
			case *ast.SelectorExpr:
				fid = f.Sel
			}
			if fid != nil && info.Uses[fid] == obj {
				why = "recursive"
			}
		}
		return why == ""
	})
	return why
}

// hasDefer reports whether the function body (outside nested literals) contains a defer.
func hasDefer(fd *ast.FuncDecl) bool {
	found := false
	ast.Inspect(fd.Body, func(n ast.Node) bool {
		switch n.(type) {
		case *ast.FuncLit:
			return false
		case *ast.DeferStmt:
			found = true
		}
		return !found
	})
	return found
}

// Normalize computes the overlay. root is the module directory; modPath its path.
//
// cur holds the current contents of files already rewritten by an earlier round.
// The third result lists the candidates (by reference key) that no longer have
// any reference in the loaded packages.
func Normalize(pkgs []*packages.Package, root, modPath string, cur map[string][]byte) (map[string][]byte, []string, []string) {
	c := &ctxT{srcs: map[string][]byte{}, counter: serial, used: map[types.Object]bool{}, nInl: map[types.Object]int{}}
	defer func() { serial = c.counter }()
	c.setSources(cur)
	var mods []*packages.Package
	packages.Visit(pkgs, nil, func(p *packages.Package) {
		if strings.HasPrefix(p.PkgPath, modPath) && len(p.Errors) == 0 && p.TypesInfo != nil {
			mods = append(mods, p)
		}
	})
	sort.Slice(mods, func(i, j int) bool { return mods[i].PkgPath < mods[j].PkgPath })
	if len(mods) == 0 {
		return nil, nil, nil
	}
	c.fset = mods[0].Fset
	// loops over a table of constants inside functions the reference does not have
	// are written out first, in a round of their own
	if ov := c.unrollTables(mods, root, cur); ov != nil {
		return ov, c.notes, nil
	}
	// a tagless switch that asks such a function in a case expression becomes the if/else chain
	// it abbreviates (the call can then be merged in like any "else if h(x)")
	if ov := c.switchesToIfs(mods, root, cur); ov != nil {
		return ov, c.notes, nil
	}
	// candidates
	cands := map[types.Object]*callee{}
	for _, p := range mods {
		for i, f := range p.Syntax {
			filename := p.CompiledGoFiles[i]
			if strings.HasSuffix(filename, "_test.go") || !strings.HasPrefix(filename, root) {
				continue
			}
			for _, d := range f.Decls {
				fd, ok := d.(*ast.FuncDecl)
				if !ok || fd.Name.IsExported() || fd.Name.Name == "init" || fd.Name.Name == "main" {
					continue
				}
				key := declKey(root, filename, fd)
				if reference[key] {
					continue
				}
				obj, _ := p.TypesInfo.Defs[fd.Name].(*types.Func)
				if obj == nil {
					continue
				}
				if why := simple(fd, obj, p.TypesInfo); why != "" {
					c.notes = append(c.notes, fmt.Sprintf("new function %s not inlined: %s", key, why))
					continue
				}
				src, err := c.source(filename)
				if err != nil {
					continue
				}
				cands[obj] = &callee{obj, fd, p, f, src, key}
			}
		}
	}
	// local variables bound once to a function literal and only ever called
	closureDefs := map[types.Object]ast.Stmt{}
	for _, p := range mods {
		for i, f := range p.Syntax {
			filename := p.CompiledGoFiles[i]
			if strings.HasSuffix(filename, "_test.go") || !strings.HasPrefix(filename, root) {
				continue
			}
			src, err := c.source(filename)
			if err != nil {
				continue
			}
			for _, d := range f.Decls {
				fd, ok := d.(*ast.FuncDecl)
				if !ok || fd.Body == nil {
					continue
				}
				key := declKey(root, filename, fd)
				ast.Inspect(fd.Body, func(n ast.Node) bool {
					as, ok := n.(*ast.AssignStmt)
					if !ok || as.Tok != token.DEFINE || len(as.Lhs) != 1 || len(as.Rhs) != 1 {
						return true
					}
					lit, isLit := as.Rhs[0].(*ast.FuncLit)
					id, isId := as.Lhs[0].(*ast.Ident)
					if !isLit || !isId || id.Name == "_" || reference[key+"/"+id.Name] || strings.HasPrefix(id.Name, "_inl") {
						return true
					}
					obj := p.TypesInfo.Defs[id]
					if obj == nil {
						return true
					}
					// every use is the callee of a plain call; never assigned again
					okUse := true
					for uid, uo := range p.TypesInfo.Uses {
						if uo != obj {
							continue
						}
						isCallee := false
						ast.Inspect(fd.Body, func(m ast.Node) bool {
							if ce, ok := m.(*ast.CallExpr); ok && ce.Fun == ast.Expr(uid) {
								isCallee = true
							}
							if gs, ok := m.(*ast.GoStmt); ok && gs.Call.Fun == ast.Expr(uid) {
								okUse = false
							}
							if ds, ok := m.(*ast.DeferStmt); ok && ds.Call.Fun == ast.Expr(uid) {
								okUse = false
							}
							return true
						})
						if !isCallee {
							okUse = false
						}
					}
					if !okUse {
						return true
					}
					synth := &ast.FuncDecl{Name: id, Type: lit.Type, Body: lit.Body}
					if why := simple(synth, obj, p.TypesInfo); why != "" {
						c.notes = append(c.notes, fmt.Sprintf("new local function %s/%s not inlined: %s", key, id.Name, why))
						return true
					}
					cands[obj] = &callee{obj, synth, p, f, src, key + "/" + id.Name}
					closureDefs[obj] = as
					return true
				})
			}
		}
	}
	if len(cands) == 0 {
		return nil, c.notes, nil
	}
	overlay := map[string][]byte{}
	for k, v := range cur {
		overlay[k] = v
	}
	changed := false
	for _, p := range mods {
		for i, f := range p.Syntax {
			filename := p.CompiledGoFiles[i]
			if strings.HasSuffix(filename, "_test.go") || !strings.HasPrefix(filename, root) {
				continue
			}
			src, err := c.source(filename)
			if err != nil {
				continue
			}
			edits := c.fileEdits(p, f, filename, src, cands)
			if len(edits) == 0 {
				continue
			}
			// a local function whose calls were inlined stays declared; keep it "used"
			for obj, def := range closureDefs {
				if cands[obj].file != f || !c.used[obj] {
					continue
				}
				uses := 0
				for _, uo := range p.TypesInfo.Uses {
					if uo == obj {
						uses++
					}
				}
				if uses == c.nInl[obj] {
					// every call was inlined: the definition goes too (a leftover literal would
					// keep the variables it captures in memory cells)
					nl := strings.Repeat("\n", bytes.Count(src[c.off(def.Pos()):c.off(def.End())], []byte("\n")))
					edits = append(edits, edit{c.off(def.Pos()), c.off(def.End()), "/* " + obj.Name() + " inlined */" + nl})
				} else {
					edits = append(edits, edit{c.off(def.End()), c.off(def.End()), "; _ = " + obj.Name()})
				}
			}
			out, ok := apply(src, edits)
			if ok {
				overlay[filename] = out
				changed = true
			}
		}
	}
	// candidates without remaining references
	refd := map[types.Object]bool{}
	for _, p := range mods {
		for _, obj := range p.TypesInfo.Uses {
			if cands[obj] != nil {
				refd[obj] = true
			}
		}
	}
	var gone []string
	for fn, cal := range cands {
		if _, isFunc := fn.(*types.Func); !isFunc {
			continue
		}
		if !refd[fn] {
			gone = append(gone, cal.pkg.PkgPath+":"+strings.SplitN(cal.nameKey, ":", 2)[1])
		}
	}
	sort.Strings(gone)
	if !changed {
		return nil, c.notes, gone
	}
	return overlay, c.notes, gone
}

// Known reports whether a function key ("<pkgdir>:<Recv.>Name") is in the reference list.
func Known(key string) bool { return reference[key] }

// HasUnknown parses the non-test Go files under root (skipping testdata) and reports
// whether any declares a function that is not in the reference list.
func HasUnknown(root string) bool {
	found := false
	filepath.WalkDir(root, func(path string, d os.DirEntry, err error) error {
		if err != nil || found {
			return nil
		}
		if d.IsDir() {
			if n := d.Name(); n == "testdata" || (strings.HasPrefix(n, ".") && path != root) || strings.HasPrefix(n, "_") {
				return filepath.SkipDir
			}
			return nil
		}
		if !strings.HasSuffix(path, ".go") || strings.HasSuffix(path, "_test.go") {
			return nil
		}
		f, perr := parser.ParseFile(token.NewFileSet(), path, nil, parser.SkipObjectResolution)
		if perr != nil {
			return nil
		}
		for _, dcl := range f.Decls {
			fd, ok := dcl.(*ast.FuncDecl)
			if !ok {
				continue
			}
			key := declKey(root, path, fd)
			if !fd.Name.IsExported() && fd.Name.Name != "init" && fd.Name.Name != "main" && !reference[key] {
				found = true
			}
			if fd.Body != nil {
				ast.Inspect(fd.Body, func(n ast.Node) bool {
					if as, ok := n.(*ast.AssignStmt); ok && as.Tok == token.DEFINE && len(as.Lhs) == 1 && len(as.Rhs) == 1 {
						if _, isLit := as.Rhs[0].(*ast.FuncLit); isLit {
							if id, ok := as.Lhs[0].(*ast.Ident); ok && id.Name != "_" && !reference[key+"/"+id.Name] {
								found = true
							}
						}
					}
					return !found
				})
			}
		}
		return nil
	})
	return found
}

func (c *ctxT) source(filename string) ([]byte, error) {
	if b, ok := c.srcs[filename]; ok {
		return b, nil
	}
	b, err := os.ReadFile(filename)
	if err == nil {
		c.srcs[filename] = b
	}
	return b, err
}

// SetSources lets the caller provide the current contents (overlay of an earlier round).
func (c *ctxT) setSources(m map[string][]byte) {
	for k, v := range m {
		c.srcs[k] = v
	}
}

func apply(src []byte, edits []edit) ([]byte, bool) {
	sort.Slice(edits, func(i, j int) bool { return edits[i].start < edits[j].start })
	var out bytes.Buffer
	pos := 0
	for _, e := range edits {
		if e.start < pos {
			return nil, false // overlapping edits: give up on this file
		}
		out.Write(src[pos:e.start])
		out.WriteString(e.text)
		pos = e.end
	}
	out.Write(src[pos:])
	return out.Bytes(), true
}

func (c *ctxT) off(p token.Pos) int { return c.fset.Position(p).Offset }

func (c *ctxT) text(src []byte, n ast.Node) string { return string(src[c.off(n.Pos()):c.off(n.End())]) }

// calleeOf resolves the function a call or reference names.
func calleeObj(info *types.Info, fun ast.Expr) (types.Object, ast.Expr) {
	switch f := fun.(type) {
	case *ast.Ident:
		if fn, ok := info.Uses[f].(*types.Func); ok {
			return fn, nil
		}
		if v, ok := info.Uses[f].(*types.Var); ok && !v.IsField() {
			return v, nil
		}
	case *ast.SelectorExpr:
		if fn, ok := info.Uses[f.Sel].(*types.Func); ok {
			if sel := info.Selections[f]; sel != nil && sel.Kind() == types.MethodVal {
				return fn, f.X
			}
			return fn, nil // package-qualified
		}
	case *ast.ParenExpr:
		return calleeObj(info, f.X)
	}
	return nil, nil
}

type frame struct {
	node ast.Node
}

// fileEdits walks one file and returns the edits that inline candidate calls.
func (c *ctxT) fileEdits(p *packages.Package, f *ast.File, filename string, src []byte, cands map[types.Object]*callee) []edit {
	var edits []edit
	info := p.TypesInfo
	var stack []ast.Node
	done := map[ast.Node]bool{} // statements already rewritten (one inlining per statement per round)
	ast.Inspect(f, func(n ast.Node) bool {
		if n == nil {
			stack = stack[:len(stack)-1]
			return true
		}
		stack = append(stack, n)
		// do not inline inside a candidate's own declaration in this round if it is itself going to be inlined elsewhere: harmless, keep
		switch x := n.(type) {
		case *ast.CallExpr:
			fn, recv := calleeObj(info, x.Fun)
			cal := cands[fn]
			if cal == nil {
				return true
			}
			if e, ok := c.inlineCall(p, f, filename, src, stack, x, recv, cal, done); ok {
				edits = append(edits, e...)
				c.used[cal.obj] = true
				c.nInl[cal.obj]++
				stack = stack[:len(stack)-1] // Inspect does not call back with nil for a pruned node
				return false
			}
		case *ast.Ident, *ast.SelectorExpr:
			// a reference that is not the Fun of a call: function value
			if len(stack) >= 2 {
				if call, ok := stack[len(stack)-2].(*ast.CallExpr); ok && call.Fun == n {
					return true
				}
				if sel, ok := stack[len(stack)-2].(*ast.SelectorExpr); ok && sel.Sel == n {
					return true
				}
			}
			fn, recv := calleeObj(info, n.(ast.Expr))
			cal := cands[fn]
			if cal == nil {
				return true
			}
			if _, isDecl := info.Defs[identOf(n)]; isDecl {
				return true
			}
			if lit, ok := c.asLiteral(p, f, src, n.(ast.Expr), recv, cal); ok {
				edits = append(edits, edit{c.off(n.Pos()), c.off(n.End()), lit})
				stack = stack[:len(stack)-1]
				return false
			}
		}
		return true
	})
	return edits
}

func identOf(n ast.Node) *ast.Ident {
	switch x := n.(type) {
	case *ast.Ident:
		return x
	case *ast.SelectorExpr:
		return x.Sel
	}
	return nil
}

// importsOK: every package name the callee's text uses resolves to the same import in the caller's file.
func importsOK(cal *callee, callerFile *ast.File, info *types.Info) bool {
	if cal.file == callerFile {
		return true
	}
	imp := func(f *ast.File) map[string]string {
		m := map[string]string{}
		for _, s := range f.Imports {
			path := strings.Trim(s.Path.Value, `"`)
			name := filepath.Base(path)
			if s.Name != nil {
				name = s.Name.Name
			}
			m[name] = path
		}
		return m
	}
	ci, ri := imp(cal.file), imp(callerFile)
	ok := true
	ast.Inspect(cal.decl, func(n ast.Node) bool {
		sel, isSel := n.(*ast.SelectorExpr)
		if !isSel {
			return true
		}
		id, isId := sel.X.(*ast.Ident)
		if !isId {
			return true
		}
		if pn, isPkg := cal.pkg.TypesInfo.Uses[id].(*types.PkgName); isPkg {
			_ = pn
			if ri[id.Name] != ci[id.Name] || ri[id.Name] == "" {
				ok = false
			}
		}
		return true
	})
	return ok
}

// captureOK: package-level names used by the callee are not shadowed at the call site.
var lastCapture string

func captureOK(cal *callee, caller *packages.Package, at token.Pos) bool {
	ok := true
	scope := caller.Types.Scope().Innermost(at)
	if scope == nil {
		return false
	}
	// names after a dot (pkg.Name, x.field, x.Method) and struct-literal keys are not resolved lexically
	sel := map[*ast.Ident]bool{}
	ast.Inspect(cal.decl.Body, func(n ast.Node) bool {
		switch x := n.(type) {
		case *ast.SelectorExpr:
			sel[x.Sel] = true
		case *ast.KeyValueExpr:
			if id, ok := x.Key.(*ast.Ident); ok {
				if v, isVar := cal.pkg.TypesInfo.Uses[id].(*types.Var); isVar && v.IsField() {
					sel[id] = true
				}
			}
		}
		return true
	})
	ast.Inspect(cal.decl.Body, func(n ast.Node) bool {
		id, isId := n.(*ast.Ident)
		if !isId || sel[id] {
			return true
		}
		obj := cal.pkg.TypesInfo.Uses[id]
		if obj == nil {
			return true
		}
		// anything the callee takes from outside itself (package level, universe, or - for a
		// function literal - the enclosing function) must mean the same thing at the call site
		if v, isVar := obj.(*types.Var); isVar && v.IsField() {
			return true
		}
		if f, isFn := obj.(*types.Func); isFn {
			if sig, _ := f.Type().(*types.Signature); sig != nil && sig.Recv() != nil {
				return true
			}
		}
		if obj.Pos() < cal.decl.Pos() || obj.Pos() > cal.decl.End() || obj.Parent() == types.Universe {
			if _, found := scope.LookupParent(id.Name, at); found != obj {
				ok = false
				lastCapture = id.Name
			}
		}
		return true
	})
	return ok
}

// body produces the statements that replace a call: declarations of argument and result
// temporaries, then a one-trip labelled loop holding the callee body with returns rewritten.
func (c *ctxT) body(cal *callee, callerFile string, recvText string, argTexts []string, ellipsis bool, resumeLine int) (stmts string, results []string, ok bool) {
	c.counter++
	pfx := fmt.Sprintf("_inl%d_", c.counter)
	src := cal.src
	ft := cal.decl.Type
	var sb strings.Builder
	// parameters (receiver first)
	type par struct{ name, typ string }
	var pars []par
	if cal.decl.Recv != nil && len(cal.decl.Recv.List) > 0 {
		fld := cal.decl.Recv.List[0]
		name := "_"
		if len(fld.Names) > 0 {
			name = fld.Names[0].Name
		}
		pars = append(pars, par{name, c.text(src, fld.Type)})
		argTexts = append([]string{recvText}, argTexts...)
	}
	variadicIdx := -1
	if ft.Params != nil {
		for _, fld := range ft.Params.List {
			typ := c.text(src, fld.Type)
			if el, isEl := fld.Type.(*ast.Ellipsis); isEl {
				typ = "[]" + c.text(src, el.Elt)
				variadicIdx = len(pars)
			}
			if len(fld.Names) == 0 {
				pars = append(pars, par{"_", typ})
				continue
			}
			for _, nm := range fld.Names {
				pars = append(pars, par{nm.Name, typ})
			}
		}
	}
	// bind variadic
	if variadicIdx >= 0 {
		fixed := variadicIdx
		if ellipsis {
			if len(argTexts) != len(pars) {
				return "", nil, false
			}
		} else {
			if len(argTexts) < fixed {
				return "", nil, false
			}
			rest := argTexts[fixed:]
			lit := pars[variadicIdx].typ + "{" + strings.Join(rest, ", ") + "}"
			if len(rest) == 0 {
				lit = pars[variadicIdx].typ + "(nil)"
			}
			argTexts = append(append([]string{}, argTexts[:fixed]...), lit)
		}
	}
	if len(argTexts) != len(pars) {
		return "", nil, false
	}
	for i, a := range argTexts {
		fmt.Fprintf(&sb, "var %sa%d %s = %s; ", pfx, i, pars[i].typ, a)
	}
	// results
	type res struct{ name, typ string }
	var ress []res
	if ft.Results != nil {
		for _, fld := range ft.Results.List {
			typ := c.text(src, fld.Type)
			if len(fld.Names) == 0 {
				ress = append(ress, res{"", typ})
				continue
			}
			for _, nm := range fld.Names {
				ress = append(ress, res{nm.Name, typ})
			}
		}
	}
	for i, r := range ress {
		fmt.Fprintf(&sb, "var %sr%d %s; ", pfx, i, r.typ)
		results = append(results, fmt.Sprintf("%sr%d", pfx, i))
	}
	label := pfx + "L"
	fmt.Fprintf(&sb, "%s: for { ", label)
	var used []string
	for i, pr := range pars {
		if pr.name == "_" {
			fmt.Fprintf(&sb, "_ = %sa%d; ", pfx, i)
			continue
		}
		fmt.Fprintf(&sb, "var %s %s = %sa%d; ", pr.name, pr.typ, pfx, i)
		used = append(used, pr.name)
	}
	named := false
	for _, r := range ress {
		if r.name != "" && r.name != "_" {
			named = true
			fmt.Fprintf(&sb, "var %s %s; ", r.name, r.typ)
			used = append(used, r.name)
		}
	}
	if len(used) > 0 {
		blanks := strings.Repeat("_, ", len(used))
		fmt.Fprintf(&sb, "%s = %s; ", strings.TrimSuffix(blanks, ", "), strings.Join(used, ", "))
	}
	// a function whose defers all come first: its deferred calls are made after the body (see leadingDefersOnly)
	var deferred []string
	if hasDefer(cal.decl) {
		for _, st := range cal.decl.Body.List {
			ds, ok := st.(*ast.DeferStmt)
			if !ok {
				break
			}
			// "defer func() { BODY }()" with a BODY that neither returns nor defers is BODY itself, made later
			if lit, isLit := ds.Call.Fun.(*ast.FuncLit); isLit && len(ds.Call.Args) == 0 {
				plainBody := true
				ast.Inspect(lit.Body, func(m ast.Node) bool {
					switch m.(type) {
					case *ast.ReturnStmt, *ast.DeferStmt:
						plainBody = false
					case *ast.FuncLit:
						return false
					}
					return true
				})
				if plainBody {
					lp := c.fset.Position(lit.Body.Lbrace)
					deferred = append(deferred, fmt.Sprintf("\n//line %s:%d\n%s", lp.Filename, lp.Line, c.text(src, lit.Body)))
					continue
				}
			}
			deferred = append(deferred, strings.Join(strings.Fields(c.text(src, ds.Call)), " "))
		}
	}
	retLabel := label
	bareLabel := label
	retTargets := results
	var resultNames []string
	if len(deferred) > 0 {
		retLabel = pfx + "D"
		bareLabel = retLabel
		fmt.Fprintf(&sb, "%s: for { ", retLabel)
		if named {
			// the deferred calls read and write the named results, so a "return e" must have put e there
			// before they run; e is evaluated where it stands (names may be shadowed there), carried out
			// in the result temporaries, and assigned to the named results outside the body
			for _, r := range ress {
				if r.name == "" || r.name == "_" {
					return "", nil, false
				}
				resultNames = append(resultNames, r.name)
			}
			retLabel = pfx + "E"
			fmt.Fprintf(&sb, "%s: for { ", retLabel)
		}
	}
	// body text with returns rewritten
	bstart, bend := c.off(cal.decl.Body.Lbrace)+1, c.off(cal.decl.Body.Rbrace)
	var redits []edit
	for _, st := range cal.decl.Body.List {
		ds, ok := st.(*ast.DeferStmt)
		if !ok || len(deferred) == 0 {
			break
		}
		// blank the defer statement (keeping its line breaks)
		nl := strings.Repeat("\n", bytes.Count(src[c.off(ds.Pos()):c.off(ds.End())], []byte("\n")))
		redits = append(redits, edit{c.off(ds.Pos()) - bstart, c.off(ds.End()) - bstart, "/* deferred: run after the body */" + nl})
	}
	var walk func(n ast.Node) bool
	walk = func(n ast.Node) bool {
		switch x := n.(type) {
		case *ast.FuncLit:
			return false
		case *ast.ReturnStmt:
			var t string
			switch {
			case len(ress) == 0:
				t = "break " + retLabel
			case len(x.Results) == 0:
				if !named {
					return false
				}
				var ns []string
				for _, r := range ress {
					if r.name == "_" || r.name == "" {
						return false
					}
					ns = append(ns, r.name)
				}
				if len(deferred) > 0 {
					t = "break " + bareLabel // the named results already hold the values
				} else {
					t = fmt.Sprintf("{ %s = %s; break %s }", strings.Join(results, ", "), strings.Join(ns, ", "), label)
				}
			default:
				var es []string
				for _, e := range x.Results {
					es = append(es, c.text(src, e))
				}
				t = fmt.Sprintf("{ %s = %s; break %s }", strings.Join(retTargets, ", "), strings.Join(es, ", "), retLabel)
			}
			redits = append(redits, edit{c.off(x.Pos()) - bstart, c.off(x.End()) - bstart, t})
			return false
		}
		return true
	}
	ast.Inspect(cal.decl.Body, walk)
	btext, okb := apply(src[bstart:bend], redits)
	if !okb {
		return "", nil, false
	}
	calleePos := c.fset.Position(cal.decl.Body.Lbrace)
	fmt.Fprintf(&sb, "\n//line %s:%d\n", calleePos.Filename, calleePos.Line)
	sb.Write(btext)
	if len(deferred) > 0 {
		// end of the body proper; then the deferred calls, last registered first
		if len(resultNames) > 0 {
			fmt.Fprintf(&sb, "; break %s }; %s = %s; break %s }; ", bareLabel, strings.Join(resultNames, ", "), strings.Join(results, ", "), bareLabel)
		} else {
			fmt.Fprintf(&sb, "; break %s }; ", retLabel)
		}
		for k := len(deferred) - 1; k >= 0; k-- {
			sb.WriteString(deferred[k])
			sb.WriteString("; ")
		}
		c.notes = append(c.notes, fmt.Sprintf("%s merged with its leading deferred call(s) made after the body (equivalent on every return; a panic inside the body would not be cleaned up after in this form)", cal.nameKey))
	}
	// implicit return at the end of a function without results (or with named results)
	if len(ress) > 0 && named {
		var ns []string
		for _, r := range ress {
			ns = append(ns, r.name)
		}
		fmt.Fprintf(&sb, "; %s = %s", strings.Join(results, ", "), strings.Join(ns, ", "))
	}
	fmt.Fprintf(&sb, "; break %s }", label)
	fmt.Fprintf(&sb, "\n//line %s:%d\n", callerFile, resumeLine)
	return sb.String(), results, true
}

func (c *ctxT) inlineCall(p *packages.Package, f *ast.File, filename string, src []byte, stack []ast.Node, call *ast.CallExpr, recv ast.Expr, cal *callee, done map[ast.Node]bool) ([]edit, bool) {
	info := p.TypesInfo
	if !importsOK(cal, f, info) || !captureOK(cal, p, call.Pos()) {
		c.notes = append(c.notes, fmt.Sprintf("call of new function %s at %s not inlined: imports or names differ at the call site (%s)", cal.nameKey, c.fset.Position(call.Pos()), lastCapture))
		return nil, false
	}
	// "return h(..)" with matching results: the body is copied as it is, so that each of its
	// returns stays a return of the caller (rules that look at what is returned where see the same
	// exits as before the extraction). For a function that defers this is the only form.
	if e, ok := c.tailInline(p, f, filename, src, stack, call, recv, cal, done); ok {
		return e, true
	}
	if hasDefer(cal.decl) && !leadingDefersOnly(cal.decl) {
		return nil, false
	}
	// arguments must not contain calls to other candidates (handled in a later round) — any nested call text is copied verbatim, fine
	var argTexts []string
	for _, a := range call.Args {
		argTexts = append(argTexts, c.text(src, a))
	}
	recvText := ""
	if recv != nil {
		recvText = c.text(src, recv)
		// method on value receiver called through pointer or the reverse: let the declaration's type decide
		if fld := cal.decl.Recv.List[0]; fld != nil {
			_, wantPtr := fld.Type.(*ast.StarExpr)
			rt := info.TypeOf(recv)
			_, havePtr := rt.Underlying().(*types.Pointer)
			if _, isNamedPtr := rt.(*types.Pointer); isNamedPtr {
				havePtr = true
			}
			switch {
			case wantPtr && !havePtr:
				recvText = "&" + recvText
			case !wantPtr && havePtr:
				recvText = "*" + recvText
			}
		}
	} else if cal.decl.Recv != nil {
		return nil, false // method expression call: leave
	}
	nres := 0
	if cal.decl.Type.Results != nil {
		for _, fld := range cal.decl.Type.Results.List {
			if len(fld.Names) == 0 {
				nres++
			} else {
				nres += len(fld.Names)
			}
		}
	}
	parent := stack[len(stack)-2]
	// the statement to replace or prefix, and its container must be a statement list
	var stmt ast.Stmt
	var stmtIdx = -1
	for i := len(stack) - 2; i >= 0; i-- {
		if s, ok := stack[i].(ast.Stmt); ok {
			stmt = s
			stmtIdx = i
			break
		}
		if _, isLit := stack[i].(*ast.FuncLit); isLit {
			break
		}
	}
	if stmt == nil || stmtIdx == 0 || done[stmt] {
		return nil, false
	}
	// the init statement of an if: "if x, err := h(..); cond {" becomes
	// "{ <inlined h>; if x, err := r0, r1; cond {" ... "}"
	if as, ok := stmt.(*ast.AssignStmt); ok && stmtIdx >= 2 {
		if ifs, ok := stack[stmtIdx-1].(*ast.IfStmt); ok && ifs.Init == stmt && !done[ifs] {
			if outer, ok := stack[stmtIdx-2].(*ast.IfStmt); ok && outer.Else == ast.Stmt(ifs) {
				done[ifs] = true
				return []edit{{c.off(ifs.Pos()), c.off(ifs.Pos()), "{ "}, {c.off(ifs.End()), c.off(ifs.End()), " }"}}, true
			}
			switch stack[stmtIdx-2].(type) {
			case *ast.BlockStmt, *ast.CaseClause, *ast.CommClause:
				if len(as.Rhs) == 1 && as.Rhs[0] == ast.Expr(call) && len(as.Lhs) == nres {
					text, results, ok := c.body(cal, filename, recvText, argTexts, call.Ellipsis.IsValid(), c.fset.Position(ifs.Pos()).Line)
					if !ok {
						return nil, false
					}
					var lhs []string
					for _, l := range as.Lhs {
						lhs = append(lhs, c.text(src, l))
					}
					done[ifs] = true
					return []edit{
						{c.off(ifs.Pos()), c.off(as.End()), "{ " + text + "if " + strings.Join(lhs, ", ") + " " + as.Tok.String() + " " + strings.Join(results, ", ")},
						{c.off(ifs.End()), c.off(ifs.End()), " }"},
					}, true
				}
			}
			return nil, false
		}
	}
	if ifs, ok := stmt.(*ast.IfStmt); ok && within(call, ifs.Cond) {
		// an else-if is first put into a block of its own
		if outer, ok := stack[stmtIdx-1].(*ast.IfStmt); ok && outer.Else == stmt {
			done[stmt] = true
			return []edit{{c.off(stmt.Pos()), c.off(stmt.Pos()), "{ "}, {c.off(stmt.End()), c.off(stmt.End()), " }"}}, true
		}
		// a call under && or || : the condition is evaluated step by step into a
		// flag, which makes the call the sole right-hand side of an assignment
		short := false
		for i := len(stack) - 2; i > stmtIdx; i-- {
			if x, ok := stack[i].(*ast.BinaryExpr); ok && (x.Op == token.LAND || x.Op == token.LOR) && within(call, x.Y) {
				short = true
			}
			if _, isLit := stack[i].(*ast.FuncLit); isLit {
				short = false
				break
			}
		}
		switch stack[stmtIdx-1].(type) {
		case *ast.BlockStmt, *ast.CaseClause, *ast.CommClause:
			if short {
				c.counter++
				flag := fmt.Sprintf("_inlc%d", c.counter)
				var sb strings.Builder
				sb.WriteString("{ ")
				if ifs.Init != nil {
					sb.WriteString(c.text(src, ifs.Init) + "; ")
				}
				fmt.Fprintf(&sb, "var %s bool; ", flag)
				var emit func(e ast.Expr)
				emit = func(e ast.Expr) {
					switch x := e.(type) {
					case *ast.ParenExpr:
						emit(x.X)
						return
					case *ast.BinaryExpr:
						if (x.Op == token.LAND || x.Op == token.LOR) && within(call, x) {
							emit(x.X)
							if x.Op == token.LAND {
								fmt.Fprintf(&sb, "if %s { ", flag)
							} else {
								fmt.Fprintf(&sb, "if !%s { ", flag)
							}
							emit(x.Y)
							sb.WriteString("}; ")
							return
						}
					}
					fmt.Fprintf(&sb, "%s = %s; ", flag, c.text(src, e))
				}
				emit(ifs.Cond)
				pos := c.fset.Position(ifs.Body.Lbrace)
				fmt.Fprintf(&sb, "\n//line %s:%d\nif %s ", filename, pos.Line, flag)
				done[stmt] = true
				return []edit{{c.off(stmt.Pos()), c.off(ifs.Body.Lbrace), sb.String()}, {c.off(stmt.End()), c.off(stmt.End()), " }"}}, true
			}
		}
	}
	switch stack[stmtIdx-1].(type) {
	case *ast.BlockStmt, *ast.CaseClause, *ast.CommClause:
	default:
		return nil, false // e.g. the init statement of an if/for/switch
	}
	line := c.fset.Position(stmt.End()).Line
	mk := func() (string, []string, bool) {
		return c.body(cal, filename, recvText, argTexts, call.Ellipsis.IsValid(), line)
	}
	sstart, send := c.off(stmt.Pos()), c.off(stmt.End())
	switch st := parent.(type) {
	case *ast.ExprStmt:
		if ast.Stmt(st) != stmt {
			return nil, false
		}
		text, results, ok := mk()
		if !ok {
			return nil, false
		}
		for _, r := range results {
			text += "_ = " + r + "; "
		}
		done[stmt] = true
		return []edit{{sstart, send, text}}, true
	case *ast.AssignStmt:
		if ast.Stmt(st) != stmt || len(st.Rhs) != 1 || st.Rhs[0] != ast.Expr(call) || len(st.Lhs) != nres {
			break
		}
		text, results, ok := mk()
		if !ok {
			return nil, false
		}
		var lhs []string
		for _, l := range st.Lhs {
			lhs = append(lhs, c.text(src, l))
		}
		text += fmt.Sprintf("%s %s %s", strings.Join(lhs, ", "), st.Tok, strings.Join(results, ", "))
		done[stmt] = true
		return []edit{{sstart, send, text}}, true
	case *ast.ReturnStmt:
		if ast.Stmt(st) != stmt || len(st.Results) != 1 {
			break
		}
		text, results, ok := mk()
		if !ok {
			return nil, false
		}
		text += "return " + strings.Join(results, ", ")
		done[stmt] = true
		return []edit{{sstart, send, text}}, true
	case *ast.GoStmt, *ast.DeferStmt:
		lit, ok := c.asLiteral(p, f, src, call.Fun, recv, cal)
		if !ok {
			return nil, false
		}
		return []edit{{c.off(call.Fun.Pos()), c.off(call.Fun.End()), lit}}, true
	}
	// expression context: hoist into a temporary before the statement when that cannot change evaluation order
	if nres != 1 {
		return nil, false
	}
	switch stmt.(type) {
	case *ast.ExprStmt, *ast.AssignStmt, *ast.ReturnStmt, *ast.IfStmt, *ast.SwitchStmt, *ast.IncDecStmt, *ast.SendStmt:
	default:
		return nil, false
	}
	// not under a short-circuit operator, a function literal, or a loop/if body of the statement itself
	for i := len(stack) - 2; i > stmtIdx; i-- {
		switch x := stack[i].(type) {
		case *ast.BinaryExpr:
			if (x.Op == token.LAND || x.Op == token.LOR) && within(call, x.Y) {
				return nil, false
			}
		case *ast.FuncLit, *ast.BlockStmt:
			return nil, false
		}
	}
	if ifs, ok := stmt.(*ast.IfStmt); ok && !within(call, ifs.Cond) {
		return nil, false
	}
	if sw, ok := stmt.(*ast.SwitchStmt); ok && (sw.Tag == nil || !within(call, sw.Tag)) {
		return nil, false
	}
	// no other call evaluated before it in the statement
	earlier := false
	ast.Inspect(stmt, func(n ast.Node) bool {
		if other, ok := n.(*ast.CallExpr); ok && other != call && other.Pos() < call.Pos() && !within(call, other) {
			if _, isConv := info.Types[other.Fun]; isConv && info.Types[other.Fun].IsType() {
				return true
			}
			if id, ok := other.Fun.(*ast.Ident); ok {
				if _, isB := info.Uses[id].(*types.Builtin); isB {
					return true
				}
			}
			earlier = true
		}
		return true
	})
	if earlier {
		return nil, false
	}
	line = c.fset.Position(stmt.Pos()).Line
	text, results, ok := mk()
	if !ok {
		return nil, false
	}
	done[stmt] = true
	return []edit{{sstart, sstart, text}, {c.off(call.Pos()), c.off(call.End()), results[0]}}, true
}

func within(n ast.Node, outer ast.Node) bool {
	return outer != nil && n.Pos() >= outer.Pos() && n.End() <= outer.End()
}

// asLiteral renders a reference to the function as a function literal with the same body.
func (c *ctxT) asLiteral(p *packages.Package, f *ast.File, src []byte, ref ast.Expr, recv ast.Expr, cal *callee) (string, bool) {
	if !importsOK(cal, f, p.TypesInfo) || !captureOK(cal, p, ref.Pos()) {
		return "", false
	}
	csrc := cal.src
	var sb strings.Builder
	sb.WriteString("func")
	sb.WriteString(string(csrc[c.off(cal.decl.Type.Params.Pos()):c.off(cal.decl.Type.Params.End())]))
	if cal.decl.Type.Results != nil {
		sb.WriteString(" ")
		sb.WriteString(string(csrc[c.off(cal.decl.Type.Results.Pos()):c.off(cal.decl.Type.Results.End())]))
	}
	sb.WriteString(" {")
	if cal.decl.Recv != nil && len(cal.decl.Recv.List) > 0 {
		if recv == nil {
			return "", false
		}
		fld := cal.decl.Recv.List[0]
		if len(fld.Names) > 0 && fld.Names[0].Name != "_" {
			rt := c.text(src, recv)
			_, wantPtr := fld.Type.(*ast.StarExpr)
			_, havePtr := p.TypesInfo.TypeOf(recv).(*types.Pointer)
			switch {
			case wantPtr && !havePtr:
				rt = "&" + rt
			case !wantPtr && havePtr:
				rt = "*" + rt
			}
			// the receiver expression is evaluated when the literal runs; acceptable only for plain identifiers
			if _, isId := recv.(*ast.Ident); !isId {
				return "", false
			}
			fmt.Fprintf(&sb, " var %s %s = %s; _ = %s;", fld.Names[0].Name, string(csrc[c.off(fld.Type.Pos()):c.off(fld.Type.End())]), rt, fld.Names[0].Name)
		}
	}
	calleePos := c.fset.Position(cal.decl.Body.Lbrace)
	fmt.Fprintf(&sb, "\n//line %s:%d\n", calleePos.Filename, calleePos.Line)
	sb.Write(csrc[c.off(cal.decl.Body.Lbrace)+1 : c.off(cal.decl.Body.Rbrace)])
	refPos := c.fset.Position(ref.End())
	col := refPos.Column
	if col < 1 {
		col = 1
	}
	fmt.Fprintf(&sb, "}/*line %s:%d:%d*/", refPos.Filename, refPos.Line, col)
	return sb.String(), true
}

// tailInline merges a function that defers into a caller that calls it in tail
// position: "return h(args)" as the sole result expression, where both have the
// same result types and h's results are unnamed or named exactly like the
// caller's (so that h's deferred functions keep reading and writing the result
// they always did). h's deferred calls then run when the caller returns, which is
// when they ran before, and ahead of the caller's own earlier defers as before.
// The body is copied verbatim - its return statements now return from the caller.
func (c *ctxT) tailInline(p *packages.Package, f *ast.File, filename string, src []byte, stack []ast.Node, call *ast.CallExpr, recv ast.Expr, cal *callee, done map[ast.Node]bool) ([]edit, bool) {
	if len(stack) < 3 {
		return nil, false
	}
	ret, ok := stack[len(stack)-2].(*ast.ReturnStmt)
	if !ok || len(ret.Results) != 1 || ret.Results[0] != ast.Expr(call) || done[ret] {
		return nil, false
	}
	switch stack[len(stack)-3].(type) {
	case *ast.BlockStmt, *ast.CaseClause, *ast.CommClause:
	default:
		return nil, false
	}
	// the enclosing function declaration (not a literal: its results are what the body's returns feed)
	var encl *ast.FuncDecl
	for i := len(stack) - 1; i >= 0; i-- {
		if _, isLit := stack[i].(*ast.FuncLit); isLit {
			return nil, false
		}
		if fd, isFD := stack[i].(*ast.FuncDecl); isFD {
			encl = fd
			break
		}
	}
	if encl == nil {
		return nil, false
	}
	flat := func(fl *ast.FieldList) (names []string, typs []ast.Expr) {
		if fl == nil {
			return
		}
		for _, fld := range fl.List {
			if len(fld.Names) == 0 {
				names = append(names, "")
				typs = append(typs, fld.Type)
			}
			for _, nm := range fld.Names {
				names = append(names, nm.Name)
				typs = append(typs, fld.Type)
			}
		}
		return
	}
	cn, ct := flat(cal.decl.Type.Results)
	en, et := flat(encl.Type.Results)
	if len(cn) != len(en) {
		return nil, false
	}
	for i := range cn {
		t1, t2 := cal.pkg.TypesInfo.TypeOf(ct[i]), p.TypesInfo.TypeOf(et[i])
		if t1 == nil || t2 == nil || !types.Identical(t1, t2) {
			return nil, false
		}
		if cn[i] != "" && cn[i] != "_" && cn[i] != en[i] {
			return nil, false // a named result the caller does not have under that name
		}
	}
	// the caller's results must be the visible meaning of those names at the call
	scope := p.Types.Scope().Innermost(call.Pos())
	for i, nm := range cn {
		if nm == "" || nm == "_" {
			continue
		}
		var want types.Object
		k := 0
		for _, fld := range encl.Type.Results.List {
			for _, id := range fld.Names {
				if k == i {
					want = p.TypesInfo.Defs[id]
				}
				k++
			}
		}
		if _, got := scope.LookupParent(nm, call.Pos()); got == nil || got != want {
			return nil, false
		}
	}
	// parameters
	var sb strings.Builder
	c.counter++
	pfx := fmt.Sprintf("_inl%d_", c.counter)
	type par struct{ name, typ string }
	var pars []par
	var args []string
	if cal.decl.Recv != nil && len(cal.decl.Recv.List) > 0 {
		if recv == nil {
			return nil, false
		}
		fld := cal.decl.Recv.List[0]
		name := "_"
		if len(fld.Names) > 0 {
			name = fld.Names[0].Name
		}
		pars = append(pars, par{name, c.text(cal.src, fld.Type)})
		args = append(args, c.text(src, recv))
	}
	if cal.decl.Type.Params != nil {
		for _, fld := range cal.decl.Type.Params.List {
			if _, isEl := fld.Type.(*ast.Ellipsis); isEl {
				return nil, false
			}
			typ := c.text(cal.src, fld.Type)
			if len(fld.Names) == 0 {
				pars = append(pars, par{"_", typ})
			}
			for _, nm := range fld.Names {
				pars = append(pars, par{nm.Name, typ})
			}
		}
	}
	for _, a := range call.Args {
		args = append(args, c.text(src, a))
	}
	if len(args) != len(pars) {
		return nil, false
	}
	sb.WriteString("{ ")
	for i, a := range args {
		fmt.Fprintf(&sb, "var %sa%d %s = %s; ", pfx, i, pars[i].typ, a)
	}
	sb.WriteString("{ ")
	var used []string
	for i, pr := range pars {
		if pr.name == "_" {
			fmt.Fprintf(&sb, "_ = %sa%d; ", pfx, i)
			continue
		}
		fmt.Fprintf(&sb, "var %s %s = %sa%d; ", pr.name, pr.typ, pfx, i)
		used = append(used, pr.name)
	}
	if len(used) > 0 {
		fmt.Fprintf(&sb, "%s = %s; ", strings.TrimSuffix(strings.Repeat("_, ", len(used)), ", "), strings.Join(used, ", "))
	}
	bpos := c.fset.Position(cal.decl.Body.Lbrace)
	fmt.Fprintf(&sb, "\n//line %s:%d\n", bpos.Filename, bpos.Line)
	sb.Write(cal.src[c.off(cal.decl.Body.Lbrace)+1 : c.off(cal.decl.Body.Rbrace)])
	fmt.Fprintf(&sb, "} }\n//line %s:%d\n", filename, c.fset.Position(ret.End()).Line)
	done[ret] = true
	return []edit{{c.off(ret.Pos()), c.off(ret.End()), sb.String()}}, true
}

// unrollTables writes out "for k, v := range T" where T is a composite literal of
// constants (given in place, or bound once to a local that is used for nothing
// else), inside functions that the reference decomposition does not have: a
// maintainer's "check these offsets in a loop" helper then reads, after inlining,
// like the chain of tests it replaced. Only loops whose body has no break,
// continue, goto, label or defer are touched; at most 32 elements.
func (c *ctxT) unrollTables(mods []*packages.Package, root string, cur map[string][]byte) map[string][]byte {
	var overlay map[string][]byte
	for _, p := range mods {
		for i, f := range p.Syntax {
			filename := p.CompiledGoFiles[i]
			if strings.HasSuffix(filename, "_test.go") || !strings.HasPrefix(filename, root) {
				continue
			}
			src, err := c.source(filename)
			if err != nil {
				continue
			}
			var edits []edit
			for _, d := range f.Decls {
				fd, ok := d.(*ast.FuncDecl)
				if !ok || fd.Body == nil || reference[declKey(root, filename, fd)] {
					continue
				}
				ast.Inspect(fd.Body, func(n ast.Node) bool {
					rs, ok := n.(*ast.RangeStmt)
					if !ok {
						return true
					}
					if e, ok := c.unrollOne(p, fd, rs, src); ok {
						edits = append(edits, e...)
						return false
					}
					return true
				})
			}
			if len(edits) == 0 {
				continue
			}
			out, ok := apply(src, edits)
			if !ok {
				continue
			}
			if overlay == nil {
				overlay = map[string][]byte{}
				for k, v := range cur {
					overlay[k] = v
				}
			}
			overlay[filename] = out
			c.notes = append(c.notes, fmt.Sprintf("constant-table loop(s) written out in %s", strings.TrimPrefix(filename, root+"/")))
		}
	}
	return overlay
}

func (c *ctxT) unrollOne(p *packages.Package, fd *ast.FuncDecl, rs *ast.RangeStmt, src []byte) ([]edit, bool) {
	info := p.TypesInfo
	if rs.Tok != token.DEFINE && (rs.Key != nil || rs.Value != nil) {
		return nil, false
	}
	var lit *ast.CompositeLit
	var defStmt ast.Stmt
	switch x := rs.X.(type) {
	case *ast.CompositeLit:
		lit = x
	case *ast.Ident:
		obj := info.Uses[x]
		if obj == nil {
			return nil, false
		}
		uses := 0
		for _, uo := range info.Uses {
			if uo == obj {
				uses++
			}
		}
		if uses != 1 {
			return nil, false
		}
		ast.Inspect(fd.Body, func(n ast.Node) bool {
			switch y := n.(type) {
			case *ast.AssignStmt:
				if y.Tok == token.DEFINE && len(y.Lhs) == 1 && len(y.Rhs) == 1 {
					if id, ok := y.Lhs[0].(*ast.Ident); ok && info.Defs[id] == obj {
						if cl, ok := y.Rhs[0].(*ast.CompositeLit); ok {
							lit, defStmt = cl, y
						}
					}
				}
			case *ast.DeclStmt:
				if gd, ok := y.Decl.(*ast.GenDecl); ok && gd.Tok == token.VAR && len(gd.Specs) == 1 {
					if vs, ok := gd.Specs[0].(*ast.ValueSpec); ok && len(vs.Names) == 1 && len(vs.Values) == 1 && info.Defs[vs.Names[0]] == obj {
						if cl, ok := vs.Values[0].(*ast.CompositeLit); ok {
							lit, defStmt = cl, y
						}
					}
				}
			}
			return true
		})
	}
	if lit == nil || len(lit.Elts) == 0 || len(lit.Elts) > 32 {
		return nil, false
	}
	at, ok := lit.Type.(*ast.ArrayType)
	if !ok {
		return nil, false
	}
	if _, isBasic := info.TypeOf(at.Elt).Underlying().(*types.Basic); !isBasic {
		return nil, false
	}
	for _, e := range lit.Elts {
		if _, isKV := e.(*ast.KeyValueExpr); isKV {
			return nil, false
		}
		if tv, ok := info.Types[e]; !ok || tv.Value == nil {
			return nil, false
		}
	}
	bad := false
	ast.Inspect(rs.Body, func(n ast.Node) bool {
		switch n.(type) {
		case *ast.FuncLit:
			bad = true // a closure may capture the iteration variable; leave alone
		case *ast.BranchStmt, *ast.LabeledStmt, *ast.DeferStmt, *ast.GoStmt:
			bad = true
		}
		return !bad
	})
	if bad {
		return nil, false
	}
	name := func(e ast.Expr) string {
		if id, ok := e.(*ast.Ident); ok {
			return id.Name
		}
		return "_"
	}
	kn, vn := "_", "_"
	if rs.Key != nil {
		kn = name(rs.Key)
	}
	if rs.Value != nil {
		vn = name(rs.Value)
	}
	elt := c.text(src, at.Elt)
	bpos := c.fset.Position(rs.Body.Lbrace)
	body := string(src[c.off(rs.Body.Lbrace)+1 : c.off(rs.Body.Rbrace)])
	var sb strings.Builder
	sb.WriteString("{ ")
	for j, e := range lit.Elts {
		sb.WriteString("{ ")
		if kn != "_" {
			fmt.Fprintf(&sb, "var %s int = %d; _ = %s; ", kn, j, kn)
		}
		if vn != "_" {
			fmt.Fprintf(&sb, "var %s %s = %s; _ = %s; ", vn, elt, strings.Join(strings.Fields(c.text(src, e)), " "), vn)
		}
		fmt.Fprintf(&sb, "\n//line %s:%d\n", bpos.Filename, bpos.Line)
		sb.WriteString(body)
		sb.WriteString("}\n")
	}
	epos := c.fset.Position(rs.End())
	fmt.Fprintf(&sb, "}\n//line %s:%d\n", epos.Filename, epos.Line)
	edits := []edit{{c.off(rs.Pos()), c.off(rs.End()), sb.String()}}
	if defStmt != nil {
		nl := strings.Repeat("\n", bytes.Count(src[c.off(defStmt.Pos()):c.off(defStmt.End())], []byte("\n")))
		edits = append(edits, edit{c.off(defStmt.Pos()), c.off(defStmt.End()), "/* table written out */" + nl})
	}
	return edits, true
}

// switchesToIfs rewrites "switch { case a, b: S1; case h(x): S2; default: S3 }" into
// "{ if false {} else if (a) || (b) { S1 } else if (h(x)) { S2 } else { S3 } }" when some case
// expression calls a function the reference decomposition does not have. Left alone: switches with
// a tag, a label, a fallthrough, a break that leaves the switch, or a default that is not last.
func (c *ctxT) switchesToIfs(mods []*packages.Package, root string, cur map[string][]byte) map[string][]byte {
	newFuncs := map[types.Object]bool{}
	for _, p := range mods {
		for i, f := range p.Syntax {
			filename := p.CompiledGoFiles[i]
			if strings.HasSuffix(filename, "_test.go") || !strings.HasPrefix(filename, root) {
				continue
			}
			for _, d := range f.Decls {
				if fd, ok := d.(*ast.FuncDecl); ok && !fd.Name.IsExported() && !reference[declKey(root, filename, fd)] {
					if obj := p.TypesInfo.Defs[fd.Name]; obj != nil {
						newFuncs[obj] = true
					}
				}
			}
		}
	}
	if len(newFuncs) == 0 {
		return nil
	}
	var overlay map[string][]byte
	for _, p := range mods {
		for i, f := range p.Syntax {
			filename := p.CompiledGoFiles[i]
			if strings.HasSuffix(filename, "_test.go") || !strings.HasPrefix(filename, root) {
				continue
			}
			src, err := c.source(filename)
			if err != nil {
				continue
			}
			var edits []edit
			labelled := map[ast.Stmt]bool{}
			ast.Inspect(f, func(n ast.Node) bool {
				if ls, ok := n.(*ast.LabeledStmt); ok {
					labelled[ls.Stmt] = true
				}
				return true
			})
			ast.Inspect(f, func(n ast.Node) bool {
				sw, ok := n.(*ast.SwitchStmt)
				if !ok || sw.Tag != nil || labelled[sw] || len(sw.Body.List) == 0 {
					return true
				}
				calls := false
				okShape := true
				for k, st := range sw.Body.List {
					cc := st.(*ast.CaseClause)
					if cc.List == nil && k != len(sw.Body.List)-1 {
						okShape = false
					}
					for _, e := range cc.List {
						ast.Inspect(e, func(m ast.Node) bool {
							if ce, ok := m.(*ast.CallExpr); ok {
								if obj, _ := calleeObj(p.TypesInfo, ce.Fun); obj != nil && newFuncs[obj] {
									calls = true
								}
							}
							return true
						})
					}
					// a break that leaves the switch, or a fallthrough
					var scan func(n ast.Node, depth int)
					scan = func(n ast.Node, depth int) {
						ast.Inspect(n, func(m ast.Node) bool {
							switch x := m.(type) {
							case *ast.FuncLit:
								return false
							case *ast.ForStmt, *ast.RangeStmt, *ast.SwitchStmt, *ast.TypeSwitchStmt, *ast.SelectStmt:
								if m != n {
									// an unlabelled break inside belongs to that statement
									ast.Inspect(m, func(q ast.Node) bool {
										if b, ok := q.(*ast.BranchStmt); ok && b.Tok == token.FALLTHROUGH {
											_ = b
										}
										return true
									})
									return false
								}
							case *ast.BranchStmt:
								if x.Tok == token.FALLTHROUGH || (x.Tok == token.BREAK && x.Label == nil) {
									okShape = false
								}
							}
							return true
						})
					}
					for _, bs := range cc.Body {
						scan(bs, 0)
					}
				}
				if !calls || !okShape {
					return true
				}
				head := "{ "
				if sw.Init != nil {
					head += c.text(src, sw.Init) + "; "
				}
				head += "if false {"
				edits = append(edits, edit{c.off(sw.Pos()), c.off(sw.Body.Lbrace) + 1, head})
				for _, st := range sw.Body.List {
					cc := st.(*ast.CaseClause)
					var t string
					if cc.List == nil {
						t = "} else {"
					} else {
						var es []string
						for _, e := range cc.List {
							if len(cc.List) == 1 {
								es = append(es, c.text(src, e))
							} else {
								es = append(es, "("+c.text(src, e)+")")
							}
						}
						t = "} else if " + strings.Join(es, " || ") + " {"
					}
					edits = append(edits, edit{c.off(cc.Pos()), c.off(cc.Colon) + 1, t})
				}
				edits = append(edits, edit{c.off(sw.Body.Rbrace), c.off(sw.Body.Rbrace) + 1, "} }"})
				return false // nested switches wait for the next round
			})
			if len(edits) == 0 {
				continue
			}
			out, ok := apply(src, edits)
			if !ok {
				continue
			}
			if overlay == nil {
				overlay = map[string][]byte{}
				for k, v := range cur {
					overlay[k] = v
				}
			}
			overlay[filename] = out
			c.notes = append(c.notes, fmt.Sprintf("tagless switch written as if/else chain in %s", strings.TrimPrefix(filename, root+"/")))
		}
	}
	return overlay
}

// leadingDefersOnly: every defer of the function is one of its first statements (before anything
// else), and defers either a function literal called without arguments or a call whose receiver and
// arguments are parameters the body never assigns. Such a function can be merged into a caller at
// any statement position: the deferred calls are made, last first, after the body - which is when
// they run on every return. (What differs is a panic inside the body, which the merged form does not
// clean up after; the notes in the evidence say that this form was used.)
func leadingDefersOnly(fd *ast.FuncDecl) bool {
	if fd.Body == nil {
		return false
	}
	lead := 0
	for _, st := range fd.Body.List {
		if _, ok := st.(*ast.DeferStmt); ok {
			lead++
			continue
		}
		break
	}
	if lead == 0 {
		return false
	}
	// no other defer anywhere (outside nested literals), no recover
	n := 0
	bad := false
	ast.Inspect(fd.Body, func(m ast.Node) bool {
		switch x := m.(type) {
		case *ast.FuncLit:
			// recover inside a deferred literal changes panic behaviour: leave such functions alone
			ast.Inspect(x, func(q ast.Node) bool {
				if id, ok := q.(*ast.Ident); ok && id.Name == "recover" {
					bad = true
				}
				return true
			})
			return false
		case *ast.DeferStmt:
			n++
		}
		return true
	})
	if bad || n != lead {
		return false
	}
	params := map[string]bool{}
	if fd.Recv != nil {
		for _, f := range fd.Recv.List {
			for _, nm := range f.Names {
				params[nm.Name] = true
			}
		}
	}
	if fd.Type.Params != nil {
		for _, f := range fd.Type.Params.List {
			for _, nm := range f.Names {
				params[nm.Name] = true
			}
		}
	}
	assigned := map[string]bool{}
	ast.Inspect(fd.Body, func(m ast.Node) bool {
		if as, ok := m.(*ast.AssignStmt); ok {
			for _, l := range as.Lhs {
				if id, ok := l.(*ast.Ident); ok {
					assigned[id.Name] = true
				}
			}
		}
		if u, ok := m.(*ast.UnaryExpr); ok && u.Op == token.AND {
			if id, ok := u.X.(*ast.Ident); ok {
				assigned[id.Name] = true
			}
		}
		return true
	})
	plain := func(e ast.Expr) bool {
		id, ok := e.(*ast.Ident)
		return ok && params[id.Name] && !assigned[id.Name]
	}
	for _, st := range fd.Body.List[:lead] {
		call := st.(*ast.DeferStmt).Call
		if _, isLit := call.Fun.(*ast.FuncLit); isLit {
			if len(call.Args) != 0 {
				return false
			}
			continue
		}
		switch fn := call.Fun.(type) {
		case *ast.SelectorExpr:
			if !plain(fn.X) {
				return false
			}
		case *ast.Ident:
		default:
			return false
		}
		for _, a := range call.Args {
			if !plain(a) {
				return false
			}
		}
	}
	return true
}
