// Package ssax holds the SSA-level engines: callee resolution, the no-return
// summary, control-flow graphs pruned at no-return calls with their dominator
// trees, edge facts (which branch conditions are known at a point), and
// must-pass-through searches.
package ssax

import (
	"fmt"
	"go/constant"
	"go/token"
	"go/types"
	"sort"
	"strings"

	"golang.org/x/tools/go/ssa"
)

// CalleeName names the function a call resolves to: "os.Open",
// "(*pkg.T).M" for static calls, "(pkg.I).M" for interface calls, "" otherwise.
func CalleeName(c *ssa.CallCommon) string {
	if c.IsInvoke() {
		return c.Method.FullName()
	}
	if f := c.StaticCallee(); f != nil {
		return FuncName(f)
	}
	if b, ok := c.Value.(*ssa.Builtin); ok {
		return "builtin." + b.Name()
	}
	return ""
}

// FuncName is the stable full name of a function; instantiations of generic
// functions are named after their origin.
func FuncName(f *ssa.Function) string {
	if o := f.Origin(); o != nil {
		return o.String()
	}
	return f.String()
}

// CallOf returns the CallCommon of an instruction that is a call/go/defer.
func CallOf(i ssa.Instruction) *ssa.CallCommon {
	if c, ok := i.(ssa.CallInstruction); ok {
		return c.Common()
	}
	return nil
}

// IsCallTo reports whether instr is a plain call (not go/defer) to one of names.
func IsCallTo(i ssa.Instruction, names ...string) bool {
	c, ok := i.(*ssa.Call)
	if !ok {
		return false
	}
	n := CalleeName(&c.Call)
	for _, w := range names {
		if n == w {
			return true
		}
	}
	return false
}

// ---------------------------------------------------------------------------
// No-return summary

type NoRet struct {
	Names map[string]bool // callee names that never return normally
}

var baseNoRet = []string{
	"os.Exit", "runtime.Goexit", "log.Fatal", "log.Fatalf", "log.Fatalln", "log.Panic", "log.Panicf", "log.Panicln",
	"(*log.Logger).Fatal", "(*log.Logger).Fatalf", "(*log.Logger).Fatalln",
	"(testing.TB).Fatal", "(testing.TB).Fatalf", "(testing.TB).FailNow", "(testing.TB).Skip", "(testing.TB).Skipf", "(testing.TB).SkipNow",
	"(*testing.common).Fatal", "(*testing.common).Fatalf", "(*testing.common).FailNow", "(*testing.common).Skip", "(*testing.common).Skipf", "(*testing.common).SkipNow",
	"(*testing.T).Fatal", "(*testing.T).Fatalf", "(*testing.T).FailNow", "(*testing.T).Skip", "(*testing.T).Skipf", "(*testing.T).SkipNow",
	// documented contract of the testscript.T interface (mirrors *testing.T)
	"(github.com/rogpeppe/go-internal/testscript.T).FailNow", "(github.com/rogpeppe/go-internal/testscript.T).Fatal", "(github.com/rogpeppe/go-internal/testscript.T).Skip",
}

// ComputeNoRet computes, to a fixpoint, which functions in fns never return
// normally: no Return instruction is reachable once every block is cut at its
// first no-return call or panic. Functions containing a defer are never
// classified (a deferred recover could resume normal return).
func ComputeNoRet(fns []*ssa.Function) *NoRet {
	nr := &NoRet{Names: map[string]bool{}}
	for _, n := range baseNoRet {
		nr.Names[n] = true
	}
	for changed := true; changed; {
		changed = false
		for _, f := range fns {
			name := FuncName(f)
			if nr.Names[name] || f.Blocks == nil {
				continue
			}
			hasDefer := false
			for _, b := range f.Blocks {
				for _, i := range b.Instrs {
					if _, ok := i.(*ssa.Defer); ok {
						hasDefer = true
					}
				}
			}
			if hasDefer {
				continue
			}
			g := NewGraph(f, nr)
			ret := false
			for _, b := range f.Blocks {
				if !g.Reach[b.Index] {
					continue
				}
				if g.Cut[b.Index] >= 0 {
					continue
				}
				if _, ok := b.Instrs[len(b.Instrs)-1].(*ssa.Return); ok {
					ret = true
				}
			}
			if !ret {
				nr.Names[name] = true
				changed = true
			}
		}
	}
	return nr
}

func (nr *NoRet) Is(i ssa.Instruction) bool {
	switch i := i.(type) {
	case *ssa.Panic:
		return true
	case *ssa.Call:
		return nr != nil && nr.Names[CalleeName(&i.Call)]
	}
	return false
}

// ---------------------------------------------------------------------------
// Pruned graph + dominators

// Graph is a function's CFG with every block cut at its first no-return
// instruction, restricted to blocks reachable from the entry, with dominators
// recomputed on that graph.
type Graph struct {
	Fn    *ssa.Function
	NR    *NoRet
	Cut   []int   // per block: index of the cutting instruction, or -1
	Succs [][]int // pruned successors
	Preds [][]int
	Reach []bool
	idom  []int
	order []int // reverse postorder numbering
	rpo   []int

	factMemo map[int][]Fact
	twinIdx  map[[3]any][]ssa.Value
	qcache   map[int][]Fact
	inProg   map[int]bool
	qdepth   int
	edgeMemo map[[2]int][]Fact
	edgeProg map[[2]int]bool
	edgeQ    map[[2]int][]Fact
	phiBr    int
}

func NewGraph(f *ssa.Function, nr *NoRet) *Graph {
	n := len(f.Blocks)
	g := &Graph{Fn: f, NR: nr, Cut: make([]int, n), Succs: make([][]int, n), Preds: make([][]int, n), Reach: make([]bool, n), idom: make([]int, n), order: make([]int, n)}
	for _, b := range f.Blocks {
		g.Cut[b.Index] = -1
		for k, i := range b.Instrs {
			if nr.Is(i) {
				g.Cut[b.Index] = k
				break
			}
		}
		if g.Cut[b.Index] < 0 {
			succs := b.Succs
			// a branch on a compile-time constant has one feasible successor
			if ifi, ok := b.Instrs[len(b.Instrs)-1].(*ssa.If); ok && len(succs) == 2 {
				if v, ok := foldBool(ifi.Cond); ok {
					if v {
						succs = succs[:1]
					} else {
						succs = succs[1:]
					}
				}
			}
			for _, s := range succs {
				g.Succs[b.Index] = append(g.Succs[b.Index], s.Index)
			}
		}
	}
	// reachability + postorder
	var post []int
	var dfs func(i int)
	dfs = func(i int) {
		g.Reach[i] = true
		for _, s := range g.Succs[i] {
			if !g.Reach[s] {
				dfs(s)
			}
		}
		post = append(post, i)
	}
	if n > 0 {
		dfs(0)
	}
	for i := range g.Succs {
		if !g.Reach[i] {
			g.Succs[i] = nil
			continue
		}
		for _, s := range g.Succs[i] {
			g.Preds[s] = append(g.Preds[s], i)
		}
	}
	for i := range g.order {
		g.order[i] = -1
		g.idom[i] = -1
	}
	for k := len(post) - 1; k >= 0; k-- {
		g.order[post[k]] = len(g.rpo)
		g.rpo = append(g.rpo, post[k])
	}
	// Cooper-Harvey-Kennedy
	if n > 0 {
		g.idom[0] = 0
		for changed := true; changed; {
			changed = false
			for _, b := range g.rpo[1:] {
				ni := -1
				for _, p := range g.Preds[b] {
					if g.idom[p] < 0 {
						continue
					}
					if ni < 0 {
						ni = p
					} else {
						ni = g.intersect(p, ni)
					}
				}
				if ni >= 0 && g.idom[b] != ni {
					g.idom[b] = ni
					changed = true
				}
			}
		}
	}
	return g
}

func (g *Graph) intersect(a, b int) int {
	for a != b {
		for g.order[a] > g.order[b] {
			a = g.idom[a]
		}
		for g.order[b] > g.order[a] {
			b = g.idom[b]
		}
	}
	return a
}

// Idom returns the immediate dominator of block b, or -1 for the entry.
func (g *Graph) Idom(b int) int {
	if b == 0 || !g.Reach[b] {
		return -1
	}
	return g.idom[b]
}

// DomBlock reports whether block a dominates block b (reflexive).
func (g *Graph) DomBlock(a, b int) bool {
	if !g.Reach[a] || !g.Reach[b] {
		return false
	}
	for {
		if a == b {
			return true
		}
		if b == 0 {
			return false
		}
		b = g.idom[b]
	}
}

// Live reports whether the instruction is executed on some path (its block is
// reachable and it is not behind the block's cut).
func (g *Graph) Live(i ssa.Instruction) bool {
	b := i.Block()
	if b == nil || !g.Reach[b.Index] {
		return false
	}
	if c := g.Cut[b.Index]; c >= 0 {
		return IndexIn(i) <= c
	}
	return true
}

func IndexIn(i ssa.Instruction) int {
	for k, x := range i.Block().Instrs {
		if x == i {
			return k
		}
	}
	return -1
}

// Dominates reports whether instruction a dominates instruction b.
func (g *Graph) Dominates(a, b ssa.Instruction) bool {
	if a.Block() == b.Block() {
		return IndexIn(a) < IndexIn(b)
	}
	if g.DomBlock(a.Block().Index, b.Block().Index) {
		return true
	}
	// a may still lie on every feasible path to b when the paths that avoid it
	// run through a branch on a phi that they decide the other way
	if !g.hasPhiBranch() || !g.Live(a) || !g.Live(b) {
		return false
	}
	hit, _ := g.ReachableWithout(Point{}, func(i ssa.Instruction) bool { return i == b }, func(i ssa.Instruction) bool { return i == a })
	return hit == nil
}

func (g *Graph) hasPhiBranch() bool {
	if g.phiBr == 0 {
		g.phiBr = -1
		for b := range g.Succs {
			if g.PhiBranch(b) {
				g.phiBr = 1
				break
			}
		}
	}
	return g.phiBr > 0
}

// Fact is a branch condition known to have a value at a program point.
type Fact struct {
	Cond ssa.Value
	Val  bool
	If   *ssa.If
	// NilOf, when set, makes this a derived fact about another value: NilOf is
	// nil (IsNil) or non-nil at this point. Cond/Val then repeat the fact it was
	// derived from (a nil test of a phi whose only compatible edge carries NilOf).
	NilOf ssa.Value
	IsNil bool
}

// FactsAt returns the branch conditions that hold whenever block b executes:
// for every ancestor pair (c, idom c) in the pruned dominator tree where c is a
// successor of idom(c) with no other predecessor, the condition of idom(c)'s If.
// Negations are unfolded, so Cond is never a '!' operation.
//
// Facts about a phi are then unfolded: when a fact says that a phi is nil,
// non-nil, true or false, the last entry into the phi's block came through an
// edge whose incoming value is compatible with that, so every fact common to
// those edges holds as well ("x, err := h(); if err != nil {...}" after h was
// merged into the caller, or a flag computed on several branches).
func (g *Graph) FactsAt(b int) []Fact {
	top := g.qdepth == 0
	g.qdepth++
	f, _ := g.factsAt(b, nil)
	g.qdepth--
	if top {
		g.qcache = nil
		g.edgeQ = nil
	}
	return append([]Fact(nil), f...)
}

func (g *Graph) baseFacts(b int) []Fact {
	var out []Fact
	for c := b; c != 0 && g.Reach[c]; c = g.idom[c] {
		d := g.idom[c]
		if len(g.Preds[c]) != 1 || g.Preds[c][0] != d {
			continue
		}
		if f, ok := g.edgeFact(d, c); ok {
			out = append(out, f)
		}
	}
	return out
}

// edgeFact is the branch condition on the edge d -> c, if d ends in a two-way branch.
func (g *Graph) edgeFact(d, c int) (Fact, bool) {
	blk := g.Fn.Blocks[d]
	ifi, ok := blk.Instrs[len(blk.Instrs)-1].(*ssa.If)
	if !ok || blk.Succs[0] == blk.Succs[1] || g.Cut[d] >= 0 {
		return Fact{}, false
	}
	val := blk.Succs[0].Index == c
	cond := ifi.Cond
	for {
		u, ok := cond.(*ssa.UnOp)
		if !ok || u.Op != token.NOT {
			break
		}
		cond, val = u.X, !val
	}
	return Fact{Cond: cond, Val: val, If: ifi}, true
}

// EdgeFact is the condition of the branch p -> s itself, if p ends in a two-way branch.
func (g *Graph) EdgeFact(p, s int) (Fact, bool) { return g.edgeFact(p, s) }

// EdgeFacts returns the facts that hold when control flows from block p to its successor s.
func (g *Graph) EdgeFacts(p, s int) []Fact {
	top := g.qdepth == 0
	g.qdepth++
	out, _ := g.edgeFactsT(p, s)
	g.qdepth--
	if top {
		g.qcache = nil
		g.edgeQ = nil
	}
	return append([]Fact(nil), out...)
}

// edgeFactsT is EdgeFacts for use inside a running query; the second result says that the
// computation ran into a block still in progress.
func (g *Graph) edgeFactsT(p, s int) ([]Fact, bool) {
	key := [2]int{p, s}
	if m, okM := g.edgeMemo[key]; okM {
		return m, false
	}
	if m, okM := g.edgeQ[key]; okM {
		return m, true
	}
	base, tainted := g.factsAt(p, nil)
	out := append([]Fact(nil), base...)
	if g.edgeProg == nil {
		g.edgeProg = map[[2]int]bool{}
	}
	if g.edgeProg[key] {
		// already being computed further up: the plain edge fact is all we add
		if f, ok := g.edgeFact(p, s); ok {
			out = append(out, f)
		}
		return out, true
	}
	g.edgeProg[key] = true
	defer delete(g.edgeProg, key)
	if f, ok := g.edgeFact(p, s); ok {
		if g.inProg == nil {
			g.inProg = map[int]bool{}
		}
		was := g.inProg[p]
		g.inProg[p] = true
		var t2 bool
		out, t2 = g.unfold(append(out, f), nil, p)
		tainted = tainted || t2
		if !was {
			delete(g.inProg, p)
		}
	}
	if !tainted {
		if g.edgeMemo == nil {
			g.edgeMemo = map[[2]int][]Fact{}
		}
		g.edgeMemo[key] = out
	} else {
		if g.edgeQ == nil {
			g.edgeQ = map[[2]int][]Fact{}
		}
		g.edgeQ[key] = out
	}
	return out, tainted
}

type valClass int

const (
	clsUnknown valClass = iota
	clsNil
	clsNonNil
	clsTrue
	clsFalse
)

// NonNil reports whether v is a value that is never nil: an address, a fresh
// object, a value boxed in an interface, or the result of errors.New / fmt.Errorf.
func NonNil(v ssa.Value) bool {
	switch x := v.(type) {
	case *ssa.MakeInterface, *ssa.Alloc, *ssa.MakeClosure, *ssa.MakeMap, *ssa.MakeChan, *ssa.MakeSlice, *ssa.FieldAddr, *ssa.IndexAddr, *ssa.Function, *ssa.Global:
		return true
	case *ssa.ChangeInterface:
		return NonNil(x.X)
	case *ssa.Call:
		switch CalleeName(&x.Call) {
		case "errors.New", "fmt.Errorf":
			return true
		}
	}
	return false
}

func classify(v ssa.Value, facts []Fact) valClass {
	if c, ok := v.(*ssa.Const); ok {
		if c.IsNil() {
			return clsNil
		}
		if bv, ok := ConstBool(c); ok {
			if bv {
				return clsTrue
			}
			return clsFalse
		}
		return clsUnknown
	}
	if NonNil(v) {
		return clsNonNil
	}
	if KnownNil(facts, v, false) {
		return clsNonNil
	}
	if KnownNil(facts, v, true) {
		return clsNil
	}
	for _, f := range facts {
		if f.Cond == v {
			if f.Val {
				return clsTrue
			}
			return clsFalse
		}
	}
	return clsUnknown
}

// phiTest recognises a fact about a phi: the phi itself (boolean) or a
// comparison of the phi with nil.
func phiTest(f Fact) (*ssa.Phi, valClass, bool) {
	if p, ok := f.Cond.(*ssa.Phi); ok {
		if f.Val {
			return p, clsTrue, true
		}
		return p, clsFalse, true
	}
	if x, eq, ok := NilCheck(f.Cond); ok {
		if p, ok := x.(*ssa.Phi); ok {
			if eq == f.Val {
				return p, clsNil, true
			}
			return p, clsNonNil, true
		}
	}
	return nil, clsUnknown, false
}

// factsAt computes the facts at b. Results that did not run into a block whose facts are
// still being computed (a cycle) are kept for good; the others - sound, but possibly short of
// what a fresh computation finds - are kept only for the duration of the outermost query.
func (g *Graph) factsAt(b int, _ map[int]bool) ([]Fact, bool) {
	if g.factMemo == nil {
		g.factMemo = map[int][]Fact{}
	}
	if f, ok := g.factMemo[b]; ok {
		return f, false
	}
	if f, ok := g.qcache[b]; ok {
		return f, true
	}
	if g.inProg == nil {
		g.inProg = map[int]bool{}
	}
	if g.inProg[b] {
		return g.baseFacts(b), true
	}
	g.inProg[b] = true
	out, tainted := g.unfold(g.baseFacts(b), nil, b)
	delete(g.inProg, b)
	if !tainted {
		g.factMemo[b] = out
	} else {
		if g.qcache == nil {
			g.qcache = map[int][]Fact{}
		}
		g.qcache[b] = out
	}
	return out, tainted
}

// unfold adds to a list of facts everything that follows from its facts about phis.
func (g *Graph) unfold(out []Fact, _ map[int]bool, at int) ([]Fact, bool) {
	tainted := false
	have := map[[2]any]bool{}
	for _, f := range out {
		have[[2]any{f.Cond, f.Val}] = true
	}
	// The same comparison of the same values written twice ("case c == q && !quoted: ... case c == q:")
	// is two instructions in SSA form but one truth value: what is known of one is known of the other.
	addTwins := func(from int) {
		for i := from; i < len(out); i++ {
			if out[i].NilOf != nil {
				continue
			}
			for _, tw := range g.twins(out[i].Cond) {
				if !have[[2]any{tw, out[i].Val}] {
					have[[2]any{tw, out[i].Val}] = true
					out = append(out, Fact{Cond: tw, Val: out[i].Val, If: out[i].If})
				}
			}
		}
	}
	addTwins(0)
	// Facts narrow merges too: a block with several predecessors on the dominator chain of `at`
	// was last entered over an edge whose own facts do not contradict what is known now about values
	// computed before the merge; what all such edges agree on holds as well.
	{
		n0 := len(out)
		for c := at; c > 0 && g.Reach[c]; c = g.idom[c] {
			if len(g.Preds[c]) < 2 {
				continue
			}
			var common []Fact
			first, pruned := true, false
			for _, pred := range g.Preds[c] {
				if !g.Reach[pred] || g.Cut[pred] >= 0 {
					continue
				}
				pf, t := g.edgeFactsT(pred, c)
				tainted = tainted || t
				if g.contradicts(pf, have, c) {
					pruned = true
					continue
				}
				if first {
					common, first = pf, false
					continue
				}
				var keep []Fact
				for _, a := range common {
					for _, q := range pf {
						if a.Cond == q.Cond && a.Val == q.Val && a.NilOf == q.NilOf && a.IsNil == q.IsNil {
							keep = append(keep, a)
							break
						}
					}
				}
				common = keep
			}
			_ = pruned
			// what every way in agrees on holds after the merge, provided it speaks of a value computed
			// before the merge (so that all ways in, and we, speak of the same evaluation)
			before := func(v ssa.Value) bool {
				ins, isI := v.(ssa.Instruction)
				if !isI {
					return true
				}
				return ins.Block() != nil && ins.Block().Index != c && g.DomBlock(ins.Block().Index, c)
			}
			for _, f := range common {
				if !before(f.Cond) || (f.NilOf != nil && !before(f.NilOf)) {
					continue
				}
				if f.NilOf != nil {
					if !have[[2]any{f.NilOf, f.IsNil}] {
						have[[2]any{f.NilOf, f.IsNil}] = true
						out = append(out, f)
					}
					continue
				}
				if !have[[2]any{f.Cond, f.Val}] {
					have[[2]any{f.Cond, f.Val}] = true
					out = append(out, f)
				}
			}
		}
		addTwins(n0)
	}
	for i := 0; i < len(out) && i < 64; i++ {
		// cmp.Or(a, b, ...) == nil means every operand is nil
		{
			var y ssa.Value
			if out[i].NilOf != nil {
				if out[i].IsNil {
					y = out[i].NilOf
				}
			} else if x, eq, isNC := NilCheck(out[i].Cond); isNC && eq == out[i].Val {
				y = x
			}
			if c, isC := y.(*ssa.Call); isC && strings.HasPrefix(CalleeName(&c.Call), "cmp.Or") && len(c.Call.Args) == 1 {
				for _, e := range VariadicElems(c.Call.Args[0]) {
					if e != nil && !have[[2]any{e, true}] {
						have[[2]any{e, true}] = true
						out = append(out, Fact{Cond: out[i].Cond, Val: out[i].Val, If: out[i].If, NilOf: e, IsNil: true})
					}
				}
			}
		}
		phi, want, ok := phiTest(out[i])
		if out[i].NilOf != nil {
			// a derived nil fact about a value that is itself a phi unfolds further
			ok = false
			if q, isPhi := out[i].NilOf.(*ssa.Phi); isPhi {
				phi, ok = q, true
				want = clsNonNil
				if out[i].IsNil {
					want = clsNil
				}
			}
		}
		if !ok {
			continue
		}
		pb := phi.Block().Index
		var common []Fact
		first := true
		var only ssa.Value
		nCompat := 0
		for k, e := range phi.Edges {
			pred := phi.Block().Preds[k].Index
			if !g.Reach[pred] || g.Cut[pred] >= 0 || !containsInt(g.Succs[pred], pb) {
				continue
			}
			pf, t := g.edgeFactsT(pred, pb)
			tainted = tainted || t
			if cls := classify(e, pf); cls != clsUnknown && cls != want {
				continue
			}
			if g.contradicts(pf, have, pb) {
				continue
			}
			nCompat++
			only = e
			if first {
				common, first = pf, false
				continue
			}
			var keep []Fact
			for _, a := range common {
				for _, c := range pf {
					if a.Cond == c.Cond && a.Val == c.Val && a.NilOf == c.NilOf && a.IsNil == c.IsNil {
						keep = append(keep, a)
						break
					}
				}
			}
			common = keep
		}
		// a single compatible edge also fixes the value that arrived through it
		if nCompat == 1 && (want == clsTrue || want == clsFalse) {
			if _, isConst := only.(*ssa.Const); !isConst {
				cond, val := only, want == clsTrue
				for {
					u, ok := cond.(*ssa.UnOp)
					if !ok || u.Op != token.NOT {
						break
					}
					cond, val = u.X, !val
				}
				common = append(common, Fact{Cond: cond, Val: val, If: out[i].If})
			}
		}
		for _, f := range common {
			if f.NilOf != nil {
				out = append(out, f)
				continue
			}
			if !have[[2]any{f.Cond, f.Val}] {
				have[[2]any{f.Cond, f.Val}] = true
				out = append(out, f)
			}
		}
		if nCompat == 1 && (want == clsNil || want == clsNonNil) {
			if _, isConst := only.(*ssa.Const); !isConst && !have[[2]any{only, want == clsNil}] {
				have[[2]any{only, want == clsNil}] = true
				out = append(out, Fact{Cond: out[i].Cond, Val: out[i].Val, If: out[i].If, NilOf: only, IsNil: want == clsNil})
			}
		}
	}
	return out, tainted
}

// Resolve follows v through phis whose incoming edge is fixed at instruction
// at: when the facts that hold at `at` say that some phi of the same block is
// nil, non-nil, true or false, only the edges compatible with that remain, and
// if exactly one remains the phi has that edge's value ("item, ok := next();
// if !ok { return }; use(item)" after next was merged into the caller).
func (g *Graph) Resolve(v ssa.Value, at ssa.Instruction) ssa.Value {
	for depth := 0; depth < 8; depth++ {
		phi, ok := v.(*ssa.Phi)
		if !ok {
			return v
		}
		blk := phi.Block()
		feasible := make([]bool, len(phi.Edges))
		any := false
		for k := range phi.Edges {
			pred := blk.Preds[k].Index
			feasible[k] = g.Reach[pred] && g.Cut[pred] < 0 && containsInt(g.Succs[pred], blk.Index)
		}
		for _, f := range g.FactsAtInstr(at) {
			q, want, ok := phiTest(f)
			if !ok || q.Block() != blk {
				continue
			}
			for k, e := range q.Edges {
				if !feasible[k] {
					continue
				}
				pred := blk.Preds[k].Index
				if cls := classify(e, g.EdgeFacts(pred, blk.Index)); cls != clsUnknown && cls != want {
					feasible[k] = false
					any = true
				}
			}
		}
		if !any {
			return v
		}
		var only ssa.Value
		n := 0
		for k, e := range phi.Edges {
			if feasible[k] {
				only = e
				n++
			}
		}
		if n != 1 {
			return v
		}
		v = only
	}
	return v
}

// ResolveAll is Resolve for callers that can deal with several values: it returns the
// values v can have at `at`, following phis and leaving out the edges that the facts
// holding at `at` rule out. Phis it cannot narrow are expanded into all their live edges.
func (g *Graph) ResolveAll(v ssa.Value, at ssa.Instruction) []ssa.Value {
	var out []ssa.Value
	seen := map[ssa.Value]bool{}
	var walk func(v ssa.Value, depth int)
	walk = func(v ssa.Value, depth int) {
		if seen[v] {
			return
		}
		seen[v] = true
		phi, ok := v.(*ssa.Phi)
		if !ok || depth > 8 {
			out = append(out, v)
			return
		}
		blk := phi.Block()
		feasible := make([]bool, len(phi.Edges))
		for k := range phi.Edges {
			pred := blk.Preds[k].Index
			feasible[k] = g.Reach[pred] && g.Cut[pred] < 0 && containsInt(g.Succs[pred], blk.Index)
		}
		// facts about phis of this block fix the edge only if `at` is reached from this
		// block without passing through it again: the block must dominate `at`
		if g.DomBlock(blk.Index, at.Block().Index) {
			for _, f := range g.FactsAtInstr(at) {
				q, want, ok := phiTest(f)
				if !ok || q.Block() != blk {
					continue
				}
				for k, e := range q.Edges {
					if !feasible[k] {
						continue
					}
					pred := blk.Preds[k].Index
					if cls := classify(e, g.EdgeFacts(pred, blk.Index)); cls != clsUnknown && cls != want {
						feasible[k] = false
					}
				}
			}
		}
		for k, e := range phi.Edges {
			if feasible[k] {
				walk(e, depth+1)
			}
		}
	}
	walk(v, 0)
	return out
}

func containsInt(s []int, x int) bool {
	for _, v := range s {
		if v == x {
			return true
		}
	}
	return false
}

// FactsAtInstr is FactsAt for the block of an instruction.
func (g *Graph) FactsAtInstr(i ssa.Instruction) []Fact { return g.FactsAt(i.Block().Index) }

// ---------------------------------------------------------------------------
// Path searches (path-insensitive, on the pruned graph)

type Point struct {
	Block int
	Index int // instruction index within block
}

func PointAfter(i ssa.Instruction) Point { return Point{i.Block().Index, IndexIn(i) + 1} }
func PointAt(i ssa.Instruction) Point    { return Point{i.Block().Index, IndexIn(i)} }

// Walk explores forward from start. visit is called for each instruction in
// execution order along every path; returning Stop ends that path, Continue
// goes on. When a path reaches the end of the function (a Return, or the cut of
// a block) atExit is called with the last instruction. Each block is expanded
// at most once (instructions before start.Index in the start block are visited
// only if the block is re-entered through a loop).
type Action int

const (
	Continue Action = iota
	Stop
)

func (g *Graph) Walk(start Point, visit func(i ssa.Instruction, trail []int) Action, atExit func(last ssa.Instruction, trail []int)) {
	seen := map[int]bool{}
	seenFrom := map[[2]int]bool{}
	var run func(b, from int, trail []int)
	// phiRun continues into phi-branch block s from predecessor p: the branch
	// is followed only in the direction the value arriving from p decides.
	var phiRun func(s, p int, trail []int)
	phiRun = func(s, p int, trail []int) {
		if seenFrom[[2]int{p, s}] {
			return
		}
		seenFrom[[2]int{p, s}] = true
		phi, _ := g.phiBranch(s)
		blk := g.Fn.Blocks[s]
		var incoming ssa.Value
		for k, pr := range blk.Preds {
			if pr.Index == p {
				incoming = phi.Edges[k]
			}
		}
		allowed := g.Succs[s]
		if f0, ok := g.edgeFact(s, g.Succs[s][0]); ok && incoming != nil {
			// a comparison of the phi with a constant, entered with a constant: the
			// first test of "for i := 0; i < 256; i++" cannot fail
			if _, op, k, isCmp := phiConstCmp(f0.Cond); isCmp {
				if a, isK := ConstInt(incoming); isK {
					taken := g.Succs[s][0]
					if evalCmp(a, op, k) != f0.Val {
						taken = g.Succs[s][1]
					}
					allowed = []int{taken}
					incoming = nil
				}
			}
		}
		if incoming != nil {
			if cls := classify(incoming, g.EdgeFacts(p, s)); cls != clsUnknown {
				var keep []int
				for _, t := range g.Succs[s] {
					f, _ := g.edgeFact(s, t)
					if _, want, _ := phiTest(f); want == cls {
						keep = append(keep, t)
					}
				}
				allowed = keep
			}
		}
		trail = append(append([]int{}, trail...), s)
		for _, i := range blk.Instrs {
			if visit(i, trail) == Stop {
				return
			}
		}
		for _, t := range allowed {
			if g.PhiBranch(t) {
				phiRun(t, s, trail)
				continue
			}
			if !seen[t] {
				seen[t] = true
				run(t, 0, trail)
			}
		}
	}
	run = func(b, from int, trail []int) {
		trail = append(append([]int{}, trail...), b)
		blk := g.Fn.Blocks[b]
		end := len(blk.Instrs)
		if c := g.Cut[b]; c >= 0 {
			end = c + 1
		}
		for k := from; k < end; k++ {
			if visit(blk.Instrs[k], trail) == Stop {
				return
			}
		}
		if len(g.Succs[b]) == 0 {
			if atExit != nil && end > 0 {
				atExit(blk.Instrs[end-1], trail)
			}
			return
		}
		for _, s := range g.Succs[b] {
			// a block branching on one of its own phis is entered once per
			// predecessor, and left only through the branch that predecessor decides
			if g.PhiBranch(s) {
				phiRun(s, b, trail)
				continue
			}
			if !seen[s] {
				seen[s] = true
				run(s, 0, trail)
			}
		}
	}
	if !g.Reach[start.Block] {
		return
	}
	run(start.Block, start.Index, nil)
}

// PhiBranch reports whether block b consists of phis and pure value
// computations only and ends in a branch that tests one of those phis (directly
// or against nil).
func (g *Graph) PhiBranch(b int) bool {
	_, ok := g.phiBranch(b)
	return ok
}

func (g *Graph) phiBranch(b int) (*ssa.Phi, bool) {
	if !g.Reach[b] || g.Cut[b] >= 0 || len(g.Succs[b]) != 2 {
		return nil, false
	}
	blk := g.Fn.Blocks[b]
	if _, ok := blk.Instrs[len(blk.Instrs)-1].(*ssa.If); !ok {
		return nil, false
	}
	for _, i := range blk.Instrs[:len(blk.Instrs)-1] {
		switch i.(type) {
		case *ssa.Phi, *ssa.BinOp, *ssa.UnOp, *ssa.DebugRef, *ssa.Extract:
			if u, isU := i.(*ssa.UnOp); isU && u.Op != token.NOT {
				return nil, false
			}
		default:
			return nil, false
		}
	}
	f, ok := g.edgeFact(b, g.Succs[b][0])
	if !ok {
		return nil, false
	}
	phi, _, ok := phiTest(f)
	if !ok {
		phi, _, _, ok = phiConstCmp(f.Cond)
	}
	if !ok || phi.Block() != blk {
		return nil, false
	}
	return phi, true
}

// phiConstCmp recognises "phi OP constant" (or the mirrored form) on integers.
func phiConstCmp(cond ssa.Value) (phi *ssa.Phi, op token.Token, k int64, ok bool) {
	b, isB := cond.(*ssa.BinOp)
	if !isB {
		return nil, 0, 0, false
	}
	switch b.Op {
	case token.LSS, token.LEQ, token.GTR, token.GEQ, token.EQL, token.NEQ:
	default:
		return nil, 0, 0, false
	}
	if p, isP := b.X.(*ssa.Phi); isP {
		if c, isK := ConstInt(b.Y); isK {
			return p, b.Op, c, true
		}
	}
	if p, isP := b.Y.(*ssa.Phi); isP {
		if c, isK := ConstInt(b.X); isK {
			mirror := map[token.Token]token.Token{token.LSS: token.GTR, token.LEQ: token.GEQ, token.GTR: token.LSS, token.GEQ: token.LEQ, token.EQL: token.EQL, token.NEQ: token.NEQ}
			return p, mirror[b.Op], c, true
		}
	}
	return nil, 0, 0, false
}

func evalCmp(a int64, op token.Token, b int64) bool {
	switch op {
	case token.LSS:
		return a < b
	case token.LEQ:
		return a <= b
	case token.GTR:
		return a > b
	case token.GEQ:
		return a >= b
	case token.EQL:
		return a == b
	}
	return a != b
}

// Exit describes how a path left the function.
type Exit struct {
	Last  ssa.Instruction
	Trail []int
}

// MustPass reports the exits (Returns; no-return cuts too when includeCuts)
// reachable from start without passing an instruction for which pass is true.
func (g *Graph) MustPass(start Point, pass func(ssa.Instruction) bool, includeCuts bool) []Exit {
	var bad []Exit
	g.Walk(start, func(i ssa.Instruction, _ []int) Action {
		if pass(i) {
			return Stop
		}
		return Continue
	}, func(last ssa.Instruction, trail []int) {
		if _, ok := last.(*ssa.Return); ok || includeCuts {
			bad = append(bad, Exit{last, trail})
		}
	})
	return bad
}

// ReachableWithout reports whether target can be reached from start without
// passing an instruction for which block is true.
func (g *Graph) ReachableWithout(start Point, target func(ssa.Instruction) bool, block func(ssa.Instruction) bool) (ssa.Instruction, []int) {
	var hit ssa.Instruction
	var tr []int
	g.Walk(start, func(i ssa.Instruction, trail []int) Action {
		if hit != nil {
			return Stop
		}
		if block != nil && block(i) {
			return Stop
		}
		if target(i) {
			hit, tr = i, trail
			return Stop
		}
		return Continue
	}, nil)
	return hit, tr
}

// Instrs calls f for every live instruction of the function.
func (g *Graph) Instrs(f func(ssa.Instruction)) {
	for _, b := range g.Fn.Blocks {
		if !g.Reach[b.Index] {
			continue
		}
		end := len(b.Instrs)
		if c := g.Cut[b.Index]; c >= 0 {
			end = c + 1
		}
		for _, i := range b.Instrs[:end] {
			f(i)
		}
	}
}

// Calls returns the live plain calls to any of names, in block order.
func (g *Graph) Calls(names ...string) []*ssa.Call {
	var out []*ssa.Call
	g.Instrs(func(i ssa.Instruction) {
		if IsCallTo(i, names...) {
			out = append(out, i.(*ssa.Call))
		}
	})
	return out
}

// Returns lists the live Return instructions.
func (g *Graph) Returns() []*ssa.Return {
	var out []*ssa.Return
	g.Instrs(func(i ssa.Instruction) {
		if r, ok := i.(*ssa.Return); ok {
			out = append(out, r)
		}
	})
	return out
}

func TrailString(tr []int) string {
	var s []string
	for _, b := range tr {
		s = append(s, fmt.Sprintf("b%d", b))
	}
	return strings.Join(s, ">")
}

// ---------------------------------------------------------------------------
// Value helpers

// Strip peels conversions that do not change identity.
func Strip(v ssa.Value) ssa.Value {
	for {
		switch x := v.(type) {
		case *ssa.ChangeType:
			v = x.X
		case *ssa.MakeInterface:
			v = x.X
		case *ssa.ChangeInterface:
			v = x.X
		default:
			return v
		}
	}
}

func IsNil(v ssa.Value) bool {
	c, ok := v.(*ssa.Const)
	return ok && c.Value == nil && !isBasic(c.Type())
}

func isBasic(t types.Type) bool {
	_, ok := t.Underlying().(*types.Basic)
	return ok
}

// ConstInt returns the integer value of a constant.
func ConstInt(v ssa.Value) (int64, bool) {
	for {
		cv, ok := v.(*ssa.Convert)
		if !ok {
			break
		}
		v = cv.X
	}
	c, ok := v.(*ssa.Const)
	if !ok || c.Value == nil || c.Value.Kind() != constant.Int {
		return 0, false
	}
	return constant.Int64Val(c.Value)
}

func ConstString(v ssa.Value) (string, bool) {
	c, ok := v.(*ssa.Const)
	if !ok || c.Value == nil || c.Value.Kind() != constant.String {
		return "", false
	}
	return constant.StringVal(c.Value), true
}

func ConstBool(v ssa.Value) (bool, bool) {
	c, ok := v.(*ssa.Const)
	if !ok || c.Value == nil || c.Value.Kind() != constant.Bool {
		return false, false
	}
	return constant.BoolVal(c.Value), true
}

// NilCheck recognises "x == nil" / "x != nil"; eq reports the operator.
func NilCheck(v ssa.Value) (x ssa.Value, eq bool, ok bool) {
	b, isb := v.(*ssa.BinOp)
	if !isb || (b.Op != token.EQL && b.Op != token.NEQ) {
		return nil, false, false
	}
	switch {
	case IsNil(b.Y):
		return b.X, b.Op == token.EQL, true
	case IsNil(b.X):
		return b.Y, b.Op == token.EQL, true
	}
	return nil, false, false
}

// KnownNil reports whether facts establish x == nil (want=true) or x != nil.
func KnownNil(facts []Fact, x ssa.Value, want bool) bool {
	if x == nil {
		return false
	}
	rx := ResolveLoad(x)
	for _, f := range facts {
		if f.NilOf != nil {
			if f.IsNil == want && (f.NilOf == x || ResolveLoad(f.NilOf) == rx) {
				return true
			}
			continue
		}
		if y, eq, ok := NilCheck(f.Cond); ok && (eq == f.Val) == want {
			if y == x || ResolveLoad(y) == rx {
				return true
			}
		}
	}
	return false
}

// ClosureWrites reports whether the closure stores through its binding of al.
func ClosureWrites(mc *ssa.MakeClosure, al ssa.Value) bool {
	fn, ok := mc.Fn.(*ssa.Function)
	if !ok {
		return true
	}
	for i, b := range mc.Bindings {
		if b != al || i >= len(fn.FreeVars) {
			continue
		}
		fv := fn.FreeVars[i]
		for _, r := range Referrers(fv) {
			switch y := r.(type) {
			case *ssa.Store:
				if y.Addr == ssa.Value(fv) {
					return true
				}
			case *ssa.UnOp, *ssa.DebugRef:
			case *ssa.MakeClosure:
				if ClosureWrites(y, fv) {
					return true
				}
			default:
				return true
			}
		}
	}
	return false
}

// ResolveLoad maps a load of a local cell to the value stored into that cell
// by the nearest preceding store in the same block (go/ssa keeps variables
// captured by closures in memory, so `err = f(); if err != nil` tests a fresh
// load). Calls between the store and the load invalidate only cells that a
// closure able to write them may reach (deferred closures run at rundefers).
func ResolveLoad(v ssa.Value) ssa.Value {
	for depth := 0; depth < 6; depth++ {
		u, ok := v.(*ssa.UnOp)
		if !ok || u.Op != token.MUL {
			return v
		}
		al, ok := u.X.(*ssa.Alloc)
		if !ok {
			return v
		}
		blk := u.Block()
		idx := IndexIn(u)
		var found ssa.Value
		for k := idx - 1; k >= 0; k-- {
			switch y := blk.Instrs[k].(type) {
			case *ssa.Store:
				if y.Addr == ssa.Value(al) {
					found = y.Val
				}
			case *ssa.RunDefers:
				return v
			case *ssa.Call:
				// a direct call of a closure that writes the cell
				if mc, ok := y.Call.Value.(*ssa.MakeClosure); ok && ClosureWrites(mc, al) {
					return v
				}
			}
			if found != nil {
				break
			}
		}
		if found == nil {
			// single-store cell: the stored value, wherever it was stored
			o := Origin(v)
			if o == v {
				return v
			}
			v = o
			continue
		}
		v = found
	}
	return v
}

// Path describes an access path rooted at a parameter, free variable, global
// or other value: root + sequence of field names / derefs.
func AccessPath(v ssa.Value) string {
	switch x := v.(type) {
	case *ssa.Parameter:
		return x.Name()
	case *ssa.FreeVar:
		return x.Name()
	case *ssa.Global:
		return x.Pkg.Pkg.Name() + "." + x.Name()
	case *ssa.FieldAddr:
		return AccessPath(x.X) + "." + fieldName(x.X.Type(), x.Field)
	case *ssa.Field:
		return AccessPath(x.X) + "." + fieldName(x.X.Type(), x.Field)
	case *ssa.UnOp:
		if x.Op == token.MUL {
			return AccessPath(x.X)
		}
	case *ssa.Alloc:
		if x.Comment != "" {
			return x.Comment
		}
	case *ssa.ChangeType:
		return AccessPath(x.X)
	case *ssa.MakeInterface:
		return AccessPath(x.X)
	}
	return "?" + v.Name()
}

func fieldName(t types.Type, idx int) string {
	if p, ok := t.Underlying().(*types.Pointer); ok {
		t = p.Elem()
	}
	if s, ok := t.Underlying().(*types.Struct); ok && idx < s.NumFields() {
		return s.Field(idx).Name()
	}
	return fmt.Sprint(idx)
}

// FieldOf returns the struct field object addressed by a FieldAddr/Field.
func FieldOf(v ssa.Value) *types.Var {
	var t types.Type
	var idx int
	switch x := v.(type) {
	case *ssa.FieldAddr:
		t, idx = x.X.Type(), x.Field
	case *ssa.Field:
		t, idx = x.X.Type(), x.Field
	default:
		return nil
	}
	if p, ok := t.Underlying().(*types.Pointer); ok {
		t = p.Elem()
	}
	if s, ok := t.Underlying().(*types.Struct); ok && idx < s.NumFields() {
		return s.Field(idx)
	}
	return nil
}

// Referrers returns the referrers of v sorted by position (nil-safe).
func Referrers(v ssa.Value) []ssa.Instruction {
	r := v.Referrers()
	if r == nil {
		return nil
	}
	out := append([]ssa.Instruction{}, (*r)...)
	sort.SliceStable(out, func(i, j int) bool { return out[i].Pos() < out[j].Pos() })
	return out
}

// Extracted returns the Extract of tuple-valued call v at index idx, if any.
func Extracted(v ssa.Value, idx int) ssa.Value {
	for _, r := range Referrers(v) {
		if e, ok := r.(*ssa.Extract); ok && e.Index == idx {
			return e
		}
	}
	return nil
}

// DerivedFrom reports whether v's backward slice (through phis, slices,
// conversions, string concatenation, field reads of non-escaping values,
// append and the arguments of calls accepted by through) reaches a value for
// which src is true.
func DerivedFrom(v ssa.Value, src func(ssa.Value) bool, through func(*ssa.Call) bool) bool {
	seen := map[ssa.Value]bool{}
	var rec func(v ssa.Value) bool
	rec = func(v ssa.Value) bool {
		if v == nil || seen[v] {
			return false
		}
		seen[v] = true
		if src(v) {
			return true
		}
		switch x := v.(type) {
		case *ssa.Phi:
			for _, e := range x.Edges {
				if rec(e) {
					return true
				}
			}
		case *ssa.Slice:
			return rec(x.X)
		case *ssa.Convert:
			return rec(x.X)
		case *ssa.ChangeType:
			return rec(x.X)
		case *ssa.MakeInterface:
			return rec(x.X)
		case *ssa.BinOp:
			return rec(x.X) || rec(x.Y)
		case *ssa.UnOp:
			return rec(x.X)
		case *ssa.Extract:
			return rec(x.Tuple)
		case *ssa.FieldAddr:
			return rec(x.X)
		case *ssa.Field:
			return rec(x.X)
		case *ssa.IndexAddr:
			return rec(x.X)
		case *ssa.Index:
			return rec(x.X)
		case *ssa.Lookup:
			return rec(x.X)
		case *ssa.TypeAssert:
			return rec(x.X)
		case *ssa.Alloc:
			// a local: follow what is stored into it
			for _, r := range Referrers(x) {
				if st, ok := r.(*ssa.Store); ok && st.Addr == x && rec(st.Val) {
					return true
				}
				// a local struct or array built field by field
				switch fa := r.(type) {
				case *ssa.FieldAddr, *ssa.IndexAddr:
					for _, rr := range Referrers(fa.(ssa.Value)) {
						if st, ok := rr.(*ssa.Store); ok && st.Addr == fa.(ssa.Value) && rec(st.Val) {
							return true
						}
					}
				}
			}
		case *ssa.Call:
			if b, ok := x.Call.Value.(*ssa.Builtin); ok && (b.Name() == "append" || b.Name() == "min" || b.Name() == "max" || b.Name() == "len" || b.Name() == "cap") {
				for _, a := range x.Call.Args {
					if rec(a) {
						return true
					}
				}
				return false
			}
			if through != nil && through(x) {
				for _, a := range x.Call.Args {
					if rec(a) {
						return true
					}
				}
				if x.Call.IsInvoke() && rec(x.Call.Value) {
					return true
				}
			}
		}
		return false
	}
	return rec(v)
}

// ReturnValues resolves the operands of a Return. In functions with defers,
// go/ssa spills results to locals and reloads them after `rundefers`; the
// value stored last before the reload in the same block is returned instead.
// (A deferred closure that assigns a named result would be missed; callers
// that care must check DeferredWrites.)
func ReturnValues(r *ssa.Return) []ssa.Value {
	out := make([]ssa.Value, len(r.Results))
	blk := r.Block()
	for k, v := range r.Results {
		out[k] = v
		u, ok := v.(*ssa.UnOp)
		if !ok || u.Op != token.MUL || u.Block() != blk {
			continue
		}
		al, ok := u.X.(*ssa.Alloc)
		if !ok {
			continue
		}
		// last store to al in this block before the load
		var last ssa.Value
		for _, i := range blk.Instrs {
			if i == ssa.Instruction(u) {
				break
			}
			if st, ok := i.(*ssa.Store); ok && st.Addr == ssa.Value(al) {
				last = st.Val
			}
		}
		if last != nil {
			out[k] = last
		}
	}
	return out
}

// Origin looks through conversions and through loads of a local that is
// stored exactly once (go/ssa spills a parameter whose address is taken):
// the value it names is the stored value.
func Origin(v ssa.Value) ssa.Value {
	for depth := 0; depth < 8; depth++ {
		switch x := v.(type) {
		case *ssa.ChangeType:
			v = x.X
			continue
		case *ssa.UnOp:
			if x.Op != token.MUL {
				return v
			}
			al, ok := x.X.(*ssa.Alloc)
			if !ok {
				return v
			}
			var stored ssa.Value
			n := 0
			for _, r := range Referrers(al) {
				switch y := r.(type) {
				case *ssa.Store:
					if y.Addr == ssa.Value(al) {
						n++
						stored = y.Val
					}
				case *ssa.UnOp, *ssa.Slice, *ssa.DebugRef, *ssa.IndexAddr:
					// reads / sub-slices for reading
				case *ssa.MakeClosure:
					if ClosureWrites(y, al) {
						n += 2 // captured and written by the closure
					}
				default:
					n += 2
				}
			}
			if n != 1 {
				return v
			}
			v = stored
			continue
		}
		return v
	}
	return v
}

// PossibleInts evaluates an integer value to the finite set of constants it
// may take (through phis and constant arithmetic); ok=false if unbounded.
func PossibleInts(v ssa.Value) (vals []int64, ok bool) {
	seen := map[ssa.Value]bool{}
	var rec func(v ssa.Value) ([]int64, bool)
	rec = func(v ssa.Value) ([]int64, bool) {
		if k, ok := ConstInt(v); ok {
			return []int64{k}, true
		}
		if seen[v] {
			return nil, true
		}
		seen[v] = true
		switch x := v.(type) {
		case *ssa.Phi:
			var out []int64
			for _, e := range x.Edges {
				r, ok := rec(e)
				if !ok {
					return nil, false
				}
				out = append(out, r...)
			}
			return out, true
		case *ssa.Convert:
			return rec(x.X)
		case *ssa.BinOp:
			a, ok1 := rec(x.X)
			b, ok2 := rec(x.Y)
			if !ok1 || !ok2 {
				return nil, false
			}
			var out []int64
			for _, p := range a {
				for _, q := range b {
					switch x.Op {
					case token.OR:
						out = append(out, p|q)
					case token.AND:
						out = append(out, p&q)
					case token.AND_NOT:
						out = append(out, p&^q)
					case token.ADD:
						out = append(out, p+q)
					case token.SUB:
						out = append(out, p-q)
					case token.XOR:
						out = append(out, p^q)
					default:
						return nil, false
					}
				}
			}
			return out, true
		}
		return nil, false
	}
	vals, ok = rec(v)
	if ok && len(vals) == 0 {
		ok = false
	}
	return
}

// foldBool evaluates a condition built from constants only.
func foldBool(v ssa.Value) (bool, bool) {
	if k, ok := ConstBool(v); ok {
		return k, true
	}
	switch x := v.(type) {
	case *ssa.UnOp:
		if x.Op == token.NOT {
			k, ok := foldBool(x.X)
			return !k, ok
		}
	case *ssa.BinOp:
		a, ok1 := ConstInt(x.X)
		b, ok2 := ConstInt(x.Y)
		if !ok1 || !ok2 {
			return false, false
		}
		switch x.Op {
		case token.LSS:
			return a < b, true
		case token.LEQ:
			return a <= b, true
		case token.GTR:
			return a > b, true
		case token.GEQ:
			return a >= b, true
		case token.EQL:
			return a == b, true
		case token.NEQ:
			return a != b, true
		}
	}
	return false, false
}

// Instrs2Calls returns the live plain calls accepted by the filter.
func (g *Graph) Instrs2Calls(filter func(*ssa.Call) bool) []*ssa.Call {
	var out []*ssa.Call
	g.Instrs(func(i ssa.Instruction) {
		if c, ok := i.(*ssa.Call); ok && filter(c) {
			out = append(out, c)
		}
	})
	return out
}

// VariadicElems returns the values stored into the backing array of a variadic argument slice.
func VariadicElems(v ssa.Value) []ssa.Value {
	sl, ok := v.(*ssa.Slice)
	if !ok {
		return nil
	}
	al, ok := sl.X.(*ssa.Alloc)
	if !ok {
		return nil
	}
	elems := map[int64]ssa.Value{}
	max := int64(-1)
	for _, r := range Referrers(al) {
		ia, ok := r.(*ssa.IndexAddr)
		if !ok {
			continue
		}
		idx, ok := ConstInt(ia.Index)
		if !ok {
			return nil
		}
		for _, rr := range Referrers(ia) {
			if st, ok := rr.(*ssa.Store); ok && st.Addr == ia {
				elems[idx] = st.Val
				if idx > max {
					max = idx
				}
			}
		}
	}
	var out []ssa.Value
	for i := int64(0); i <= max; i++ {
		out = append(out, elems[i])
	}
	return out
}

// contradicts reports whether the facts pf of an edge into merge block c are at odds with the
// facts in have, on a value that was computed before c was entered (so that both speak of the
// same evaluation of it).
func (g *Graph) contradicts(pf []Fact, have map[[2]any]bool, c int) bool {
	for _, f := range pf {
		if f.NilOf != nil {
			continue
		}
		ins, isI := f.Cond.(ssa.Instruction)
		if isI && (ins.Block() == nil || ins.Block().Index == c || !g.DomBlock(ins.Block().Index, c)) {
			continue
		}
		if _, isPhi := f.Cond.(*ssa.Phi); isPhi {
			continue
		}
		if have[[2]any{f.Cond, !f.Val}] {
			return true
		}
		for _, tw := range g.twins(f.Cond) {
			if have[[2]any{tw, !f.Val}] {
				return true
			}
		}
	}
	return false
}

// twins returns the other instructions of the function that compute the same pure
// comparison or boolean operation on the very same operands as v.
func (g *Graph) twins(v ssa.Value) []ssa.Value {
	b, ok := v.(*ssa.BinOp)
	if !ok {
		return nil
	}
	if g.twinIdx == nil {
		g.twinIdx = map[[3]any][]ssa.Value{}
		for _, blk := range g.Fn.Blocks {
			for _, ins := range blk.Instrs {
				if q, isB := ins.(*ssa.BinOp); isB {
					switch q.Op {
					case token.EQL, token.NEQ, token.LSS, token.LEQ, token.GTR, token.GEQ:
						k := [3]any{q.Op, twinKey(q.X), twinKey(q.Y)}
						g.twinIdx[k] = append(g.twinIdx[k], q)
					}
				}
			}
		}
	}
	all := g.twinIdx[[3]any{b.Op, twinKey(b.X), twinKey(b.Y)}]
	if len(all) < 2 {
		return nil
	}
	var out []ssa.Value
	for _, q := range all {
		if q != v {
			out = append(out, q)
		}
	}
	return out
}

// twinKey identifies an operand: constants by value and type, everything else by identity.
func twinKey(v ssa.Value) any {
	if c, ok := v.(*ssa.Const); ok {
		if c.Value == nil {
			return "nil:" + c.Type().String()
		}
		return c.Value.ExactString() + ":" + c.Type().String()
	}
	return v
}
