package ssax

import (
	"fmt"
	"go/token"
	"go/types"
	"sort"
	"strings"

	"golang.org/x/tools/go/ssa"
)

// Path-sensitive exploration (finite predicate abstraction over SSA).
//
// A path state assigns {true,false} (for booleans) or {nil,non-nil} (for
// pointers, interfaces, errors) to some SSA values and to boolean local cells
// (variables go/ssa keeps in memory because a closure captures them). Branch
// conditions are evaluated in the state; a condition that cannot be evaluated
// forks the path and the choice is remembered for that value. The state space
// is finite and small (a handful of atoms per function); exploration is
// exhaustive and memoised on (block, state).

type Abs int8

const (
	Unknown Abs = iota
	True        // also: nil
	False       // also: non-nil
)

func (a Abs) Not() Abs {
	switch a {
	case True:
		return False
	case False:
		return True
	}
	return Unknown
}

func AbsOf(b bool) Abs {
	if b {
		return True
	}
	return False
}

type ExitKind int

const (
	ExitReturn  ExitKind = iota // a Return instruction (normal exit)
	ExitCut                     // a no-return call or panic
	ExitRevisit                 // came back to the start point (loops)
)

type PathExit struct {
	Kind  ExitKind
	Last  ssa.Instruction
	Trail []string
	// Nil evaluates, in the abstract state at the exit, whether a value is
	// nil (True), non-nil (False) or not known.
	Nil func(ssa.Value) Abs
}

type Explorer struct {
	G *Graph
	// Assume gives a fixed interpretation to a value (parameter, call result,
	// field load); as a boolean, or as nil(True)/non-nil(False) when asked
	// about nilness. Return Unknown to leave it free.
	Assume func(v ssa.Value, nilness bool) Abs
	// Visit is called for every instruction on every path; returning Stop ends
	// the path there (it is then not reported as an exit).
	Visit func(i ssa.Instruction) Action
	// StopAtStart reports paths that reach the start point again.
	StopAtStart bool
	MaxStates   int
	Overflow    bool

	untracked map[*ssa.Alloc]bool
	fieldOK   map[cellKey]bool
}

// cellKey names a tracked memory cell: a local variable (its Alloc) or one field of a local
// struct (the struct's Alloc and the field index).
type cellKey struct {
	root ssa.Value
	path string
}

// cell resolves an address to the cell it denotes, if the explorer tracks it: a local
// variable not written by closures, or a field of a local struct (value or fresh heap object)
// that nothing outside the explored function can write.
func (e *Explorer) cell(addr ssa.Value) (ck cellKey, isBool bool, ok bool) {
	switch x := addr.(type) {
	case *ssa.Alloc:
		if e.untracked[x] {
			return cellKey{}, false, false
		}
		return cellKey{x, ""}, isBoolCell(x), true
	case *ssa.FieldAddr:
		base := x.X
		if r := ResolveLoad(base); r != nil {
			base = r
		}
		root, isAl := base.(*ssa.Alloc)
		if !isAl || root.Parent() != e.G.Fn {
			return cellKey{}, false, false
		}
		ck = cellKey{root, fmt.Sprintf(".%d", x.Field)}
		okF, seen := e.fieldOK[ck]
		if !seen {
			okF = !fieldEscapes(root, x.Field, e.G.Fn, 0, map[ssa.Value]bool{})
			if e.fieldOK != nil {
				e.fieldOK[ck] = okF
			}
		}
		if !okF {
			return cellKey{}, false, false
		}
		pt, isP := x.Type().Underlying().(*types.Pointer)
		return ck, isP && pt.Elem().String() == "bool", true
	}
	return cellKey{}, false, false
}

// fieldEscapes reports whether field fld of the struct that v points to can be written by
// anything but plain stores in function home: through a call, a closure, an address taken of
// the field, a whole-struct store, or a copy of the pointer that cannot be followed.
func fieldEscapes(v ssa.Value, fld int, home *ssa.Function, depth int, seen map[ssa.Value]bool) bool {
	if seen[v] {
		return false
	}
	seen[v] = true
	if depth > 4 {
		return true
	}
	refs := v.Referrers()
	if refs == nil {
		return true
	}
	for _, r := range *refs {
		switch x := r.(type) {
		case *ssa.DebugRef:
		case *ssa.FieldAddr:
			if x.X != v || x.Field != fld {
				continue
			}
			if fr := x.Referrers(); fr != nil {
				for _, q := range *fr {
					switch y := q.(type) {
					case *ssa.DebugRef:
					case *ssa.UnOp:
						if y.Op != token.MUL {
							return true
						}
					case *ssa.Store:
						if y.Addr != ssa.Value(x) || y.Parent() != home {
							return true
						}
					default:
						return true
					}
				}
			}
		case *ssa.UnOp:
			if x.Op != token.MUL {
				return true
			}
			// a load: of the struct value (fine) or, when v is a variable holding the pointer, of the pointer
			if _, isPtr := x.Type().Underlying().(*types.Pointer); isPtr {
				if fieldEscapes(x, fld, home, depth, seen) {
					return true
				}
			}
		case *ssa.Store:
			if x.Addr == v {
				// the whole struct is overwritten, or (v a pointer variable) a pointer is put in: only the
				// latter, once, is followed by ResolveLoad; treat an overwritten struct as lost
				if _, isStruct := x.Val.Type().Underlying().(*types.Struct); isStruct {
					return true
				}
				continue
			}
			// the pointer is stored somewhere: a local variable we can follow, or lost
			al, isAl := x.Addr.(*ssa.Alloc)
			if !isAl {
				return true
			}
			if fieldEscapes(al, fld, home, depth+1, seen) {
				return true
			}
		case *ssa.MakeClosure:
			fn, _ := x.Fn.(*ssa.Function)
			if fn == nil {
				return true
			}
			for k, b := range x.Bindings {
				if b == v && k < len(fn.FreeVars) {
					if fieldEscapes(fn.FreeVars[k], fld, nil, depth+1, seen) {
						return true
					}
				}
			}
		case ssa.CallInstruction:
			cc := x.Common()
			if cc.IsInvoke() {
				return true
			}
			var fn *ssa.Function
			switch f := cc.Value.(type) {
			case *ssa.Function:
				fn = f
			case *ssa.MakeClosure:
				fn, _ = f.Fn.(*ssa.Function)
			}
			if fn == nil || len(fn.Blocks) == 0 {
				return true
			}
			for k, a := range cc.Args {
				if a == v {
					if k >= len(fn.Params) || fieldEscapes(fn.Params[k], fld, nil, depth+1, seen) {
						return true
					}
				}
			}
		default:
			return true
		}
	}
	return false
}

type pstate struct {
	vals  map[ssa.Value]Abs
	cells map[cellKey]Abs
	// alias: a phi whose value on this path is the given incoming value, about which nothing was
	// known when the merge was entered; what is learnt about the phi later is learnt about that value
	alias map[ssa.Value]ssa.Value
}

func (s *pstate) clone() *pstate {
	n := &pstate{vals: make(map[ssa.Value]Abs, len(s.vals)), cells: make(map[cellKey]Abs, len(s.cells)), alias: make(map[ssa.Value]ssa.Value, len(s.alias))}
	for k, v := range s.alias {
		n.alias[k] = v
	}
	for k, v := range s.vals {
		n.vals[k] = v
	}
	for k, v := range s.cells {
		n.cells[k] = v
	}
	return n
}

func (s *pstate) key() string {
	var ks []string
	for k, v := range s.vals {
		if v != Unknown {
			ks = append(ks, fmt.Sprintf("%s=%d", k.Name(), v))
		}
	}
	for k, v := range s.cells {
		if v != Unknown {
			ks = append(ks, fmt.Sprintf("*%s%s=%d", k.root.Name(), k.path, v))
		}
	}
	for k, v := range s.alias {
		ks = append(ks, fmt.Sprintf("%s~%s", k.Name(), v.Name()))
	}
	sort.Strings(ks)
	return strings.Join(ks, ",")
}

func isBoolCell(a *ssa.Alloc) bool {
	return a.Type().String() == "*bool"
}

// eval evaluates v as a boolean in state s.
func (e *Explorer) eval(v ssa.Value, s *pstate) Abs {
	if k, ok := ConstBool(v); ok {
		return AbsOf(k)
	}
	if a, ok := s.vals[v]; ok && a != Unknown {
		return a
	}
	switch x := v.(type) {
	case *ssa.UnOp:
		if x.Op == token.NOT {
			return e.eval(x.X, s).Not()
		}
		if x.Op == token.MUL {
			if ck, isBool, ok := e.cell(x.X); ok && isBool {
				if a, ok := s.cells[ck]; ok && a != Unknown {
					return a
				}
			}
		}
	case *ssa.BinOp:
		if y, eq, ok := NilCheck(x); ok {
			n := e.nilness(y, s)
			if n == Unknown {
				return Unknown
			}
			if eq {
				return n
			}
			return n.Not()
		}
		if (x.Op == token.EQL || x.Op == token.NEQ) && x.X.Type().String() == "bool" {
			a, b := e.eval(x.X, s), e.eval(x.Y, s)
			if a != Unknown && b != Unknown {
				r := AbsOf(a == b)
				if x.Op == token.NEQ {
					r = r.Not()
				}
				return r
			}
		}
	}
	if e.Assume != nil {
		if a := e.Assume(v, false); a != Unknown {
			return a
		}
	}
	return Unknown
}

// nilness evaluates whether v is nil (True) or non-nil (False).
func (e *Explorer) nilness(v ssa.Value, s *pstate) Abs {
	if IsNil(v) {
		return True
	}
	if a, ok := s.vals[v]; ok && a != Unknown {
		return a
	}
	switch x := v.(type) {
	case *ssa.MakeInterface, *ssa.Alloc, *ssa.MakeClosure, *ssa.MakeMap, *ssa.MakeSlice, *ssa.MakeChan, *ssa.FieldAddr, *ssa.IndexAddr:
		_ = x
		return False
	case *ssa.ChangeInterface:
		return e.nilness(x.X, s)
	case *ssa.ChangeType:
		return e.nilness(x.X, s)
	}
	if u, ok := v.(*ssa.UnOp); ok && u.Op == token.MUL {
		if ck, isBool, ok := e.cell(u.X); ok && !isBool {
			if a, ok := s.cells[ck]; ok && a != Unknown {
				return a
			}
		}
	}
	if r := ResolveLoad(v); r != v {
		if a := e.nilness(r, s); a != Unknown {
			return a
		}
	}
	if e.Assume != nil {
		if a := e.Assume(v, true); a != Unknown {
			return a
		}
	}
	return Unknown
}

// Run explores all paths from start.
func (e *Explorer) Run(start Point) []PathExit {
	if e.MaxStates == 0 {
		e.MaxStates = 50000
	}
	var exits []PathExit
	seen := map[string]bool{}
	fn := e.G.Fn
	// cells written by closures are never tracked
	untracked := map[*ssa.Alloc]bool{}
	e.untracked = untracked
	e.fieldOK = map[cellKey]bool{}
	for _, b := range fn.Blocks {
		for _, i := range b.Instrs {
			if mc, ok := i.(*ssa.MakeClosure); ok {
				for _, bd := range mc.Bindings {
					if al, ok := bd.(*ssa.Alloc); ok && ClosureWrites(mc, al) {
						untracked[al] = true
					}
				}
			}
		}
	}
	var walk func(b, from int, s *pstate, trail []string, first bool)
	walk = func(b, from int, s *pstate, trail []string, first bool) {
		if len(seen) > e.MaxStates {
			e.Overflow = true
			return
		}
		if !first {
			if e.StopAtStart && b == start.Block && from <= start.Index {
				// will pass the start point again
				if from == 0 && start.Index == 0 {
					exits = append(exits, PathExit{Kind: ExitRevisit, Last: fn.Blocks[b].Instrs[0], Trail: trail})
					return
				}
			}
			k := fmt.Sprintf("%d/%d/%s", b, from, s.key())
			if seen[k] {
				return
			}
			seen[k] = true
		}
		blk := fn.Blocks[b]
		end := len(blk.Instrs)
		cut := e.G.Cut[b]
		if cut >= 0 {
			end = cut + 1
		}
		for k := from; k < end; k++ {
			ins := blk.Instrs[k]
			if e.StopAtStart && !first && b == start.Block && k == start.Index {
				exits = append(exits, PathExit{Kind: ExitRevisit, Last: ins, Trail: trail})
				return
			}
			first = false
			if e.Visit != nil && e.Visit(ins) == Stop {
				return
			}
			switch x := ins.(type) {
			case *ssa.Store:
				if ck, isBool, ok := e.cell(x.Addr); ok {
					if isBool {
						s.cells[ck] = e.eval(x.Val, s)
					} else {
						s.cells[ck] = e.nilness(x.Val, s)
					}
				}
			case *ssa.Return:
				st := s.clone()
				exits = append(exits, PathExit{Kind: ExitReturn, Last: ins, Trail: trail, Nil: func(v ssa.Value) Abs { return e.nilness(v, st) }})
				return
			}
			if cut == k {
				exits = append(exits, PathExit{Kind: ExitCut, Last: ins, Trail: trail})
				return
			}
		}
		succs := e.G.Succs[b]
		if len(succs) == 0 {
			if end > 0 {
				exits = append(exits, PathExit{Kind: ExitReturn, Last: blk.Instrs[end-1], Trail: trail})
			}
			return
		}
		goTo := func(sb int, st *pstate, note string) {
			// phis of the successor take their incoming value's abstraction
			nb := fn.Blocks[sb]
			var predIdx = -1
			for pi, p := range nb.Preds {
				if p == blk {
					predIdx = pi
				}
			}
			// clear knowledge about values (re)defined in the successor
			for _, i := range nb.Instrs {
				if v, ok := i.(ssa.Value); ok {
					delete(st.vals, v)
					for k, tgt := range st.alias {
						if tgt == v || k == v {
							delete(st.alias, k)
						}
					}
				}
			}
			pre := st.clone()
			for _, i := range nb.Instrs {
				ph, ok := i.(*ssa.Phi)
				if !ok {
					break
				}
				if predIdx >= 0 {
					ev := ph.Edges[predIdx]
					a := Unknown
					if ph.Type().String() == "bool" {
						a = e.eval(ev, pre)
					} else {
						a = e.nilness(ev, pre)
					}
					if a != Unknown {
						st.vals[ph] = a
						delete(st.alias, ph)
					} else if st.alias != nil {
						if _, isConst := ev.(*ssa.Const); !isConst {
							st.alias[ph] = ev
						}
					}
				}
			}
			t := trail
			if note != "" {
				t = append(append([]string{}, trail...), note)
			}
			walk(sb, 0, st, t, false)
		}
		if len(succs) == 1 {
			goTo(succs[0], s, "")
			return
		}
		ifi, ok := blk.Instrs[len(blk.Instrs)-1].(*ssa.If)
		if !ok || len(succs) != 2 {
			for _, sb := range succs {
				goTo(sb, s.clone(), "")
			}
			return
		}
		c := e.eval(ifi.Cond, s)
		desc := func(v bool) string { return fmt.Sprintf("b%d:%s=%v", b, condString(ifi.Cond), v) }
		switch c {
		case True:
			goTo(blk.Succs[0].Index, s, desc(true))
		case False:
			goTo(blk.Succs[1].Index, s, desc(false))
		default:
			for _, v := range []bool{true, false} {
				st := s.clone()
				e.learn(ifi.Cond, AbsOf(v), st)
				sb := blk.Succs[1].Index
				if v {
					sb = blk.Succs[0].Index
				}
				goTo(sb, st, desc(v))
			}
		}
	}
	walk(start.Block, start.Index, &pstate{vals: map[ssa.Value]Abs{}, cells: map[cellKey]Abs{}, alias: map[ssa.Value]ssa.Value{}}, nil, true)
	return exits
}

// learn records the outcome of an unevaluable condition in the state.
func (e *Explorer) learn(cond ssa.Value, a Abs, s *pstate) {
	switch x := cond.(type) {
	case *ssa.UnOp:
		if x.Op == token.NOT {
			e.learn(x.X, a.Not(), s)
			return
		}
		if x.Op == token.MUL {
			if ck, isBool, ok := e.cell(x.X); ok && isBool {
				s.cells[ck] = a
				return
			}
		}
	case *ssa.BinOp:
		if y, eq, ok := NilCheck(x); ok {
			n := a
			if !eq {
				n = a.Not()
			}
			s.vals[y] = n
			if r := ResolveLoad(y); r != y {
				s.vals[r] = n
			}
			for depth, q := 0, y; depth < 4; depth++ {
				al, ok := s.alias[q]
				if !ok {
					break
				}
				s.vals[al] = n
				q = al
			}
			if u, ok := y.(*ssa.UnOp); ok && u.Op == token.MUL {
				if ck, isBool, ok := e.cell(u.X); ok && !isBool {
					s.cells[ck] = n
				}
			}
			return
		}
	}
	s.vals[cond] = a
	for depth, q := 0, cond; depth < 4; depth++ {
		al, ok := s.alias[q]
		if !ok {
			break
		}
		s.vals[al] = a
		q = al
	}
}

func condString(v ssa.Value) string {
	s := v.String()
	if len(s) > 40 {
		s = s[:40]
	}
	return v.Name() + "(" + s + ")"
}
