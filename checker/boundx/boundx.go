// Package boundx is the bounds engine (E7): every index and slice expression
// of a function yields an obligation 0 <= lo <= hi <= len that is discharged
// from affine facts over integer values and len() symbols. Facts come from
// branch conditions that dominate the site on the CFG pruned at no-return
// calls, from resolved library predicates, and from Houdini-style invariants
// for phis. Entailment is decided by Fourier-Motzkin elimination.
package boundx

import (
	"fmt"
	"go/constant"
	"go/token"
	"go/types"
	"math/big"
	"sort"
	"strings"

	"golang.org/x/tools/go/ssa"

	"verif/checker/ssax"
)

// ---- affine forms: sum coef*sym + c ; as a constraint it means ">= 0".
type Aff struct {
	t map[string]*big.Rat
	c *big.Rat
}

func K(n int64) Aff    { return Aff{map[string]*big.Rat{}, big.NewRat(n, 1)} }
func Sym(s string) Aff { return Aff{map[string]*big.Rat{s: big.NewRat(1, 1)}, big.NewRat(0, 1)} }
func (a Aff) Scale(k *big.Rat) Aff {
	r := K(0)
	r.c.Mul(a.c, k)
	for s, v := range a.t {
		r.t[s] = new(big.Rat).Mul(v, k)
	}
	return r
}
func (a Aff) Add(b Aff) Aff {
	r := K(0)
	r.c.Add(a.c, b.c)
	for s, v := range a.t {
		r.t[s] = new(big.Rat).Set(v)
	}
	for s, v := range b.t {
		if o, ok := r.t[s]; ok {
			o.Add(o, v)
			if o.Sign() == 0 {
				delete(r.t, s)
			}
		} else {
			r.t[s] = new(big.Rat).Set(v)
		}
	}
	return r
}
func (a Aff) Neg() Aff      { return a.Scale(big.NewRat(-1, 1)) }
func (a Aff) Sub(b Aff) Aff { return a.Add(b.Neg()) }
func (a Aff) IsConst() (int64, bool) {
	if len(a.t) != 0 || !a.c.IsInt() {
		return 0, false
	}
	return a.c.Num().Int64(), true
}
func (a Aff) String() string {
	var ks []string
	for s := range a.t {
		ks = append(ks, s)
	}
	sort.Strings(ks)
	var sb strings.Builder
	for _, s := range ks {
		c := a.t[s]
		switch {
		case c.Cmp(big.NewRat(1, 1)) == 0:
			fmt.Fprintf(&sb, "+%s ", s)
		case c.Cmp(big.NewRat(-1, 1)) == 0:
			fmt.Fprintf(&sb, "-%s ", s)
		default:
			fmt.Fprintf(&sb, "%+s*%s ", c.RatString(), s)
		}
	}
	if a.c.Sign() != 0 || len(ks) == 0 {
		if a.c.Sign() >= 0 {
			sb.WriteString("+")
		}
		sb.WriteString(a.c.RatString())
	}
	return strings.TrimSpace(sb.String())
}

// unsat reports whether {c >= 0} has no rational solution.
func unsat(cs []Aff) bool {
	for iter := 0; iter < 64; iter++ {
		// choose the variable with the fewest pos*neg products
		counts := map[string][2]int{}
		for _, c := range cs {
			for s, k := range c.t {
				x := counts[s]
				if k.Sign() > 0 {
					x[0]++
				} else {
					x[1]++
				}
				counts[s] = x
			}
		}
		if len(counts) == 0 {
			for _, c := range cs {
				if c.c.Sign() < 0 {
					return true
				}
			}
			return false
		}
		var names []string
		for s := range counts {
			names = append(names, s)
		}
		sort.Strings(names)
		v, best := "", -1
		for _, s := range names {
			x := counts[s]
			if p := x[0] * x[1]; best < 0 || p < best {
				v, best = s, p
			}
		}
		var pos, neg, rest []Aff
		for _, c := range cs {
			k, ok := c.t[v]
			switch {
			case !ok:
				rest = append(rest, c)
			case k.Sign() > 0:
				pos = append(pos, c.Scale(new(big.Rat).Inv(k)))
			default:
				neg = append(neg, c.Scale(new(big.Rat).Inv(new(big.Rat).Neg(k))))
			}
		}
		for _, p := range pos {
			for _, n := range neg {
				r := p.Add(n)
				delete(r.t, v)
				if len(r.t) == 0 && r.c.Sign() < 0 {
					return true
				}
				rest = append(rest, r)
			}
		}
		if len(rest) > 6000 {
			return false
		}
		cs = rest
	}
	return false
}

// Entails: facts |- goal >= 0 over the integers (refutes goal <= -1).
func Entails(facts []Aff, goal Aff) bool {
	neg := goal.Neg().Add(K(-1))
	all := append(append([]Aff{}, facts...), neg)
	for s := range goal.t {
		if strings.HasPrefix(s, "len(") {
			all = append(all, Sym(s))
		}
	}
	return unsat(all)
}

// ---------------------------------------------------------------------------

// Env is shared context: constant byte-slice globals and trusted facts.
type Env struct {
	GBytes map[*ssa.Global]string // package-level []byte vars with one constant initialiser
}

// NewEnv scans package initialisers for `var x = []byte("const")`.
func NewEnv(pkgs []*ssa.Package) *Env {
	e := &Env{GBytes: map[*ssa.Global]string{}}
	for _, sp := range pkgs {
		init := sp.Func("init")
		if init == nil {
			continue
		}
		writes := map[*ssa.Global]int{}
		for _, m := range sp.Members {
			if f, ok := m.(*ssa.Function); ok {
				countGlobalStores(f, writes)
			}
		}
		for _, b := range init.Blocks {
			for _, ins := range b.Instrs {
				st, ok := ins.(*ssa.Store)
				if !ok {
					continue
				}
				g, ok := st.Addr.(*ssa.Global)
				if !ok || writes[g] != 1 {
					continue
				}
				if cv, ok := st.Val.(*ssa.Convert); ok {
					if s, ok := ssax.ConstString(cv.X); ok {
						e.GBytes[g] = s
					}
				}
				// []byte{c0, c1, ...} composite literal
				if sl, ok := st.Val.(*ssa.Slice); ok && sl.Low == nil && sl.High == nil {
					if al, ok := sl.X.(*ssa.Alloc); ok {
						bytes := map[int64]byte{}
						max := int64(-1)
						good := true
						for _, r := range ssax.Referrers(al) {
							ia, ok := r.(*ssa.IndexAddr)
							if !ok {
								continue
							}
							idx, ok := ssax.ConstInt(ia.Index)
							if !ok {
								good = false
								continue
							}
							for _, rr := range ssax.Referrers(ia) {
								if s2, ok := rr.(*ssa.Store); ok && s2.Addr == ssa.Value(ia) {
									k, ok := ssax.ConstInt(s2.Val)
									if !ok {
										good = false
										continue
									}
									bytes[idx] = byte(k)
									if idx > max {
										max = idx
									}
								}
							}
						}
						if n, ok := constArrayLen(al.Type()); ok && good && n == max+1 && n > 0 {
							b := make([]byte, n)
							for i, v := range bytes {
								b[i] = v
							}
							e.GBytes[g] = string(b)
						}
					}
				}
			}
		}
	}
	return e
}

func countGlobalStores(f *ssa.Function, w map[*ssa.Global]int) {
	for _, b := range f.Blocks {
		for _, ins := range b.Instrs {
			if st, ok := ins.(*ssa.Store); ok {
				if g, ok := st.Addr.(*ssa.Global); ok {
					w[g]++
				}
			}
			// address escaping counts as an unknown writer
			for _, op := range ins.Operands(nil) {
				if g, ok := (*op).(*ssa.Global); ok {
					switch x := ins.(type) {
					case *ssa.Store:
						if x.Addr == g {
							continue
						}
						w[g] += 2
					case *ssa.UnOp:
					default:
						w[g] += 2
					}
				}
			}
		}
	}
	for _, a := range f.AnonFuncs {
		countGlobalStores(a, w)
	}
}

// Analysis of one function.
type Analysis struct {
	G      *ssax.Graph
	Env    *Env
	Pre    []Aff // assumed facts about parameters (established at every call site)
	inv    map[ssa.Value][]Aff
	InvDoc []string
	canonC map[ssa.Value]ssa.Value
	memOps []memOp
	cond   []condFact
}

// CalleeWrites, when set, reports whether a call may write the memory named by key
// (a field name for field keys). nil means: any call to a function with a body in
// the module may.
var CalleeWrites func(c *ssa.CallCommon, field string) bool

func New(g *ssax.Graph, env *Env, pre []Aff) *Analysis {
	a := &Analysis{G: g, Env: env, Pre: pre, inv: map[ssa.Value][]Aff{}, canonC: map[ssa.Value]ssa.Value{}}
	a.indexMemory()
	a.indexCondPhis()
	a.houdini()
	return a
}

func name(v ssa.Value) string { return v.Name() }

// ---- memory-equivalent loads -------------------------------------------------
//
// go/ssa has no CSE and keeps closure-captured variables and struct fields in
// memory, so `len(ts.background)` and `ts.background[i]` read two different
// values. canon maps a load to the earliest dominating load of the same
// location with no write to that location on any path in between; both then
// share one symbol.

type memOp struct {
	instr ssa.Instruction
	key   string // location key of a store, or "" for a call
	field string
	call  *ssa.CallCommon
}

func (a *Analysis) addrKey(addr ssa.Value) (key, field string) {
	switch x := addr.(type) {
	case *ssa.Alloc:
		return "A:" + x.Name(), ""
	case *ssa.FieldAddr:
		f := ssax.FieldOf(x)
		if f == nil {
			return "", ""
		}
		b := a.canon(x.X)
		return "F:" + b.Name() + "." + f.Name(), f.Name()
	case *ssa.IndexAddr:
		if k, ok := ssax.ConstInt(x.Index); ok {
			b := a.canon(x.X)
			return fmt.Sprintf("I:%s[%d]", b.Name(), k), "[]"
		}
	}
	return "", ""
}

func (a *Analysis) indexMemory() {
	a.G.Instrs(func(i ssa.Instruction) {
		switch x := i.(type) {
		case *ssa.Store:
			switch ad := x.Addr.(type) {
			case *ssa.Alloc:
				a.memOps = append(a.memOps, memOp{instr: i, key: "A:" + ad.Name()})
			case *ssa.FieldAddr:
				if f := ssax.FieldOf(ad); f != nil {
					a.memOps = append(a.memOps, memOp{instr: i, key: "F", field: f.Name()})
				}
			case *ssa.IndexAddr:
				a.memOps = append(a.memOps, memOp{instr: i, key: "I", field: "[]"})
			default:
				a.memOps = append(a.memOps, memOp{instr: i, key: "?"})
			}
		case *ssa.Call:
			if _, isBuiltin := x.Call.Value.(*ssa.Builtin); !isBuiltin {
				a.memOps = append(a.memOps, memOp{instr: i, call: &x.Call})
			}
		case *ssa.MapUpdate, *ssa.Send:
		}
	})
}

// mayClobber: can op change the location (key, field)?
func (a *Analysis) mayClobber(op memOp, key, field string) bool {
	if op.call != nil {
		if strings.HasPrefix(key, "A:") {
			// a local cell: only a closure that binds and writes it
			if mc, ok := op.call.Value.(*ssa.MakeClosure); ok {
				for _, b := range mc.Bindings {
					if al, ok := b.(*ssa.Alloc); ok && "A:"+al.Name() == key && ssax.ClosureWrites(mc, al) {
						return true
					}
				}
				return false
			}
			// a call through a function value held in a cell could be such a closure
			if op.call.StaticCallee() == nil && !op.call.IsInvoke() {
				for _, b := range a.G.Fn.Blocks {
					for _, ins := range b.Instrs {
						if mc, ok := ins.(*ssa.MakeClosure); ok {
							for _, bd := range mc.Bindings {
								if al, ok := bd.(*ssa.Alloc); ok && "A:"+al.Name() == key && ssax.ClosureWrites(mc, al) {
									return true
								}
							}
						}
					}
				}
			}
			return false
		}
		if strings.HasPrefix(key, "I:") {
			return false // callees do not write the caller's argument slices here (trusted: no element stores through parameters in the analysed set)
		}
		if CalleeWrites != nil {
			return CalleeWrites(op.call, field)
		}
		cal := op.call.StaticCallee()
		return cal == nil || cal.Blocks != nil
	}
	switch {
	case op.key == "?":
		return true
	case strings.HasPrefix(key, "A:"):
		return op.key == key
	case strings.HasPrefix(key, "F:"):
		return op.key == "F" && op.field == field
	case strings.HasPrefix(key, "I:"):
		return op.key == "I"
	}
	return true
}

func (a *Analysis) canon(v ssa.Value) ssa.Value {
	if c, ok := a.canonC[v]; ok {
		return c
	}
	a.canonC[v] = v
	u, ok := v.(*ssa.UnOp)
	if !ok || u.Op != token.MUL {
		return v
	}
	key, field := a.addrKey(u.X)
	if key == "" {
		return v
	}
	// earlier loads of the same location, and stores to it (whose stored value is then the value)
	var best ssa.Value
	a.G.Instrs(func(i ssa.Instruction) {
		if best != nil {
			return
		}
		var cand ssa.Value
		switch x := i.(type) {
		case *ssa.UnOp:
			if x == u || x.Op != token.MUL {
				return
			}
			k2, _ := a.addrKey(x.X)
			if k2 != key {
				return
			}
			cand = x
		case *ssa.Store:
			k2, _ := a.addrKey(x.Addr)
			if k2 != key {
				return
			}
			cand = nil
			if !a.G.Dominates(x, u) {
				return
			}
			if a.clobberedBetween(x, u, key, field) {
				return
			}
			best = a.canon(x.Val)
			return
		default:
			return
		}
		ci := cand.(ssa.Instruction)
		if !a.G.Dominates(ci, u) {
			return
		}
		if a.clobberedBetween(ci, u, key, field) {
			return
		}
		best = a.canon(cand)
	})
	if best != nil {
		a.canonC[v] = best
		return best
	}
	return v
}

// clobberedBetween: some write to the location lies on a path from `from` to `to`
// that does not pass `from` again.
func (a *Analysis) clobberedBetween(from, to ssa.Instruction, key, field string) bool {
	for _, op := range a.memOps {
		if op.instr == from || !a.mayClobber(op, key, field) {
			continue
		}
		isFrom := func(i ssa.Instruction) bool { return i == from }
		hit1, _ := a.G.ReachableWithout(ssax.PointAfter(from), func(i ssa.Instruction) bool { return i == op.instr }, isFrom)
		if hit1 == nil {
			continue
		}
		if op.instr == to {
			continue
		}
		hit2, _ := a.G.ReachableWithout(ssax.PointAfter(op.instr), func(i ssa.Instruction) bool { return i == to }, isFrom)
		if hit2 != nil {
			return true
		}
	}
	return false
}

// ---- conditional facts from two-way merges -------------------------------------
//
// x := 1; if c { x = 2 }   gives   c => x == 2  and  !c => x == 1.
// When a structurally equal condition is known at a site, the matching equality
// is added to the facts (scriptMatch: want is 2 exactly when name == "grep").

type condFact struct {
	cond ssa.Value
	val  bool
	phi  *ssa.Phi
	edge ssa.Value
}

func (a *Analysis) indexCondPhis() {
	a.G.Instrs(func(i ssa.Instruction) {
		phi, ok := i.(*ssa.Phi)
		if !ok || len(phi.Edges) != 2 || !isInt(phi.Type()) {
			return
		}
		blk := phi.Block()
		d := a.G.Idom(blk.Index)
		if d < 0 {
			return
		}
		db := a.G.Fn.Blocks[d]
		ifi, ok := db.Instrs[len(db.Instrs)-1].(*ssa.If)
		if !ok {
			return
		}
		for k, pred := range blk.Preds {
			// which side of the If does this pred lie on?
			var side *bool
			for si, sb := range db.Succs {
				v := si == 0
				if sb == pred && len(a.G.Preds[pred.Index]) == 1 {
					side = &v
				} else if sb == blk && pred == db {
					side = &v
				}
			}
			if side == nil {
				return
			}
			a.cond = append(a.cond, condFact{ifi.Cond, *side, phi, phi.Edges[k]})
		}
	})
}

func condEquiv(x, y ssa.Value) bool {
	if x == y {
		return true
	}
	bx, ok1 := x.(*ssa.BinOp)
	by, ok2 := y.(*ssa.BinOp)
	if !ok1 || !ok2 || bx.Op != by.Op {
		return false
	}
	same := func(p, q ssa.Value) bool {
		if p == q {
			return true
		}
		cp, ok1 := p.(*ssa.Const)
		cq, ok2 := q.(*ssa.Const)
		return ok1 && ok2 && cp.Value != nil && cq.Value != nil && cp.Value.ExactString() == cq.Value.ExactString()
	}
	// operands must be immutable values (parameters, constants)
	imm := func(p ssa.Value) bool {
		switch p.(type) {
		case *ssa.Parameter, *ssa.Const:
			return true
		}
		return false
	}
	return imm(bx.X) && imm(bx.Y) && same(bx.X, by.X) && same(bx.Y, by.Y)
}

func constArrayLen(t types.Type) (int64, bool) {
	if p, ok := t.Underlying().(*types.Pointer); ok {
		t = p.Elem()
	}
	if a, ok := t.Underlying().(*types.Array); ok {
		return a.Len(), true
	}
	return 0, false
}

// L is the length of a slice/string/array value as an affine form.
func (a *Analysis) L(v ssa.Value) Aff {
	v = a.canon(v)
	if n, ok := constArrayLen(v.Type()); ok {
		return K(n)
	}
	switch v := v.(type) {
	case *ssa.Slice:
		hi := a.L(v.X)
		if v.High != nil {
			hi = a.I(v.High)
		}
		lo := K(0)
		if v.Low != nil {
			lo = a.I(v.Low)
		}
		return hi.Sub(lo)
	case *ssa.MakeSlice:
		return a.I(v.Len)
	case *ssa.Const:
		if v.Value == nil {
			return K(0)
		}
		if v.Value.Kind() == constant.String {
			return K(int64(len(constant.StringVal(v.Value))))
		}
	case *ssa.UnOp:
		if g, ok := v.X.(*ssa.Global); ok && v.Op == token.MUL {
			if s, ok := a.Env.GBytes[g]; ok {
				return K(int64(len(s)))
			}
		}
	case *ssa.Convert:
		// string <-> []byte conversions preserve length
		if isByteSliceOrString(v.X.Type()) && isByteSliceOrString(v.Type()) {
			return a.L(v.X)
		}
	case *ssa.ChangeType:
		return a.L(v.X)
	}
	return Sym("len(" + name(v) + ")")
}

// I is an integer value as an affine form.
func (a *Analysis) I(v ssa.Value) Aff {
	v = a.canon(v)
	switch v := v.(type) {
	case *ssa.Const:
		if v.Value != nil && v.Value.Kind() == constant.Int {
			if n, ok := constant.Int64Val(v.Value); ok {
				return K(n)
			}
		}
	case *ssa.BinOp:
		switch v.Op {
		case token.ADD:
			return a.I(v.X).Add(a.I(v.Y))
		case token.SUB:
			return a.I(v.X).Sub(a.I(v.Y))
		case token.MUL:
			if k, ok := a.I(v.X).IsConst(); ok {
				return a.I(v.Y).Scale(big.NewRat(k, 1))
			}
			if k, ok := a.I(v.Y).IsConst(); ok {
				return a.I(v.X).Scale(big.NewRat(k, 1))
			}
		}
	case *ssa.Call:
		if b, ok := v.Call.Value.(*ssa.Builtin); ok && b.Name() == "len" {
			return a.L(v.Call.Args[0])
		}
	case *ssa.Convert:
		if isInt(v.X.Type()) && isInt(v.Type()) && widthOK(v.X.Type(), v.Type()) {
			return a.I(v.X)
		}
	}
	return Sym(name(v))
}

func widthOK(from, to types.Type) bool {
	// int -> int64 and same-size conversions keep the value; narrowing does not.
	size := func(t types.Type) int {
		switch t.Underlying().(*types.Basic).Kind() {
		case types.Int8, types.Uint8:
			return 8
		case types.Int16, types.Uint16:
			return 16
		case types.Int32, types.Uint32:
			return 32
		}
		return 64
	}
	signed := func(t types.Type) bool { return t.Underlying().(*types.Basic).Info()&types.IsUnsigned == 0 }
	return size(to) >= size(from) && signed(from) == signed(to)
}

func isInt(t types.Type) bool {
	b, ok := t.Underlying().(*types.Basic)
	return ok && b.Info()&types.IsInteger != 0
}
func isString(t types.Type) bool {
	b, ok := t.Underlying().(*types.Basic)
	return ok && b.Info()&types.IsString != 0
}
func isByteSliceOrString(t types.Type) bool {
	if isString(t) {
		return true
	}
	s, ok := t.Underlying().(*types.Slice)
	if !ok {
		return false
	}
	b, ok := s.Elem().Underlying().(*types.Basic)
	return ok && (b.Kind() == types.Byte || b.Kind() == types.Uint8)
}
func isSeq(t types.Type) bool {
	if isString(t) {
		return true
	}
	_, ok := t.Underlying().(*types.Slice)
	return ok
}

func calleeOf(v ssa.Value) string {
	if c, ok := v.(*ssa.Call); ok {
		return ssax.CalleeName(&c.Call)
	}
	return ""
}

// defFacts: facts that hold once the instruction has executed.
func (a *Analysis) defFacts(instr ssa.Instruction) []Aff {
	switch c := instr.(type) {
	case *ssa.Call:
		args := c.Call.Args
		switch ssax.CalleeName(&c.Call) {
		case "bytes.IndexByte", "strings.IndexByte", "strings.IndexRune", "bytes.LastIndexByte", "strings.LastIndexByte",
			"slices.Index", "slices.IndexFunc", "bytes.IndexFunc", "strings.IndexFunc", "bytes.LastIndexFunc", "strings.LastIndexFunc":
			r := a.I(c)
			return []Aff{r.Add(K(1)), a.L(args[0]).Sub(K(1)).Sub(r)}
		case "bytes.Index", "strings.Index", "strings.LastIndex", "bytes.LastIndex", "strings.IndexAny", "bytes.IndexAny":
			r := a.I(c)
			// r >= -1 and r <= len(x) (the latter also when r == -1)
			return []Aff{r.Add(K(1)), a.L(args[0]).Sub(r)}
		case "bytes.TrimSpace", "strings.TrimSpace", "bytes.TrimPrefix", "strings.TrimPrefix", "bytes.TrimSuffix", "strings.TrimSuffix",
			"strings.TrimLeft", "strings.TrimRight", "strings.Trim", "bytes.Trim", "bytes.TrimLeft", "bytes.TrimRight":
			return []Aff{a.L(args[0]).Sub(a.L(c))}
		case "strings.Split", "strings.SplitAfter", "bytes.Split", "bytes.SplitAfter":
			// a non-empty separator yields at least one element
			if a.L(args[1]).c.Sign() > 0 && len(a.L(args[1]).t) == 0 {
				return []Aff{a.L(c).Sub(K(1))}
			}
		case "strings.SplitN":
			if n, ok := a.I(args[2]).IsConst(); ok && n > 0 {
				if k, ok := a.L(args[1]).IsConst(); ok && k > 0 {
					return []Aff{a.L(c).Sub(K(1)), K(n).Sub(a.L(c))}
				}
			}
		case "builtin.append":
			if len(args) > 0 {
				return []Aff{a.L(c).Sub(a.L(args[0]))}
			}
		case "builtin.copy":
			r := a.I(c)
			return []Aff{r, a.L(args[0]).Sub(r), a.L(args[1]).Sub(r)}
		case "builtin.min":
			r := a.I(c)
			var out []Aff
			for _, x := range args {
				out = append(out, a.I(x).Sub(r))
			}
			return out
		case "builtin.max":
			r := a.I(c)
			var out []Aff
			for _, x := range args {
				out = append(out, r.Sub(a.I(x)))
			}
			return out
		case "math/rand.Intn", "math/rand/v2.IntN", "(*math/rand.Rand).Intn":
			r := a.I(c)
			n := a.I(args[len(args)-1])
			return []Aff{r, n.Sub(K(1)).Sub(r)}
		case "sort.Search":
			r := a.I(c)
			return []Aff{r, a.I(args[0]).Sub(r)}
		}
	case *ssa.Extract:
		if call, ok := c.Tuple.(*ssa.Call); ok {
			switch ssax.CalleeName(&call.Call) {
			case "bytes.Cut", "strings.Cut":
				// before and after are parts of the argument
				if c.Index == 0 || c.Index == 1 {
					return []Aff{a.L(call.Call.Args[0]).Sub(a.L(c))}
				}
			case "bytes.CutPrefix", "strings.CutPrefix", "bytes.CutSuffix", "strings.CutSuffix":
				if c.Index == 0 {
					return []Aff{a.L(call.Call.Args[0]).Sub(a.L(c))}
				}
			}
		}
		if call, ok := c.Tuple.(*ssa.Call); ok && c.Index == 0 {
			switch ssax.CalleeName(&call.Call) {
			case "io.ReadFull", "(*os.File).Read", "(io.Reader).Read", "(*bufio.Reader).Read":
				r := a.I(c)
				buf := call.Call.Args[len(call.Call.Args)-1]
				return []Aff{r, a.L(buf).Sub(r)}
			}
		}
	case *ssa.Range, *ssa.Next:
	}
	return nil
}

var cmpNeg = map[token.Token]token.Token{token.LSS: token.GEQ, token.GEQ: token.LSS, token.GTR: token.LEQ, token.LEQ: token.GTR, token.EQL: token.NEQ, token.NEQ: token.EQL}

// edgeFacts: facts implied by cond == val, given the facts already known.
func (a *Analysis) edgeFacts(cond ssa.Value, val bool, known []Aff, at int) []Aff {
	switch c := cond.(type) {
	case *ssa.UnOp:
		if c.Op == token.NOT {
			return a.edgeFacts(c.X, !val, known, at)
		}
	case *ssa.Call:
		args := c.Call.Args
		switch ssax.CalleeName(&c.Call) {
		case "bytes.HasPrefix", "bytes.HasSuffix", "strings.HasPrefix", "strings.HasSuffix":
			if val {
				out := []Aff{a.L(args[0]).Sub(a.L(args[1]))}
				// HasPrefix(x,P) and HasSuffix(x,S) with single, different bytes => len(x) >= 2
				if o, ok := a.otherAffix(c, at); ok {
					out = append(out, a.L(args[0]).Sub(K(o)))
				}
				return out
			}
		case "bytes.Equal":
			if val {
				d := a.L(args[0]).Sub(a.L(args[1]))
				return []Aff{d, d.Neg()}
			}
		}
	case *ssa.BinOp:
		x, y := c.X, c.Y
		op := c.Op
		if !val {
			op = cmpNeg[op]
		}
		if isString(x.Type()) && (op == token.EQL || op == token.NEQ) {
			// comparisons with a constant string fix or bound the length
			var other ssa.Value
			var k string
			if s, ok := ssax.ConstString(y); ok {
				other, k = x, s
			} else if s, ok := ssax.ConstString(x); ok {
				other, k = y, s
			} else {
				return nil
			}
			d := a.L(other).Sub(K(int64(len(k))))
			if op == token.EQL {
				return []Aff{d, d.Neg()}
			}
			if k == "" {
				return []Aff{a.L(other).Sub(K(1))}
			}
			return nil
		}
		if !isInt(x.Type()) {
			return nil
		}
		d := a.I(x).Sub(a.I(y)) // x - y
		var out []Aff
		switch op {
		case token.GEQ:
			out = []Aff{d}
		case token.GTR:
			out = []Aff{d.Sub(K(1))}
		case token.LEQ:
			out = []Aff{d.Neg()}
		case token.LSS:
			out = []Aff{d.Neg().Sub(K(1))}
		case token.EQL:
			out = []Aff{d, d.Neg()}
		case token.NEQ:
			if Entails(known, d) {
				out = []Aff{d.Sub(K(1))}
			} else if Entails(known, d.Neg()) {
				out = []Aff{d.Neg().Sub(K(1))}
			}
		default:
			return nil
		}
		// A search result now known to be >= 0 gets its upper bound; and the
		// prefix-content rule.
		for _, side := range []ssa.Value{x, y} {
			call, ok := side.(*ssa.Call)
			if !ok || !Entails(append(append([]Aff{}, known...), out...), a.I(side)) {
				continue
			}
			args := call.Call.Args
			switch ssax.CalleeName(&call.Call) {
			case "bytes.Index", "strings.Index", "strings.LastIndex", "bytes.LastIndex":
				out = append(out, a.L(args[0]).Sub(a.L(args[1])).Sub(a.I(side)))
			case "strings.IndexAny", "bytes.IndexAny":
				out = append(out, a.L(args[0]).Sub(K(1)).Sub(a.I(side)))
			case "bytes.IndexByte", "strings.IndexByte":
				if k, ok := a.prefixOf(args[0], at); ok {
					if b, ok := ssax.ConstInt(args[1]); ok && !strings.ContainsRune(k, rune(b)) {
						out = append(out, a.I(side).Sub(K(int64(len(k)))))
					}
				}
			}
		}
		return out
	}
	return nil
}

// affixConst returns the constant bytes of a HasPrefix/HasSuffix pattern.
func (a *Analysis) affixConst(v ssa.Value) (string, bool) {
	if s, ok := ssax.ConstString(v); ok {
		return s, true
	}
	if u, ok := v.(*ssa.UnOp); ok && u.Op == token.MUL {
		if g, ok := u.X.(*ssa.Global); ok {
			s, ok := a.Env.GBytes[g]
			return s, ok
		}
	}
	if cv, ok := v.(*ssa.Convert); ok {
		return a.affixConst(cv.X)
	}
	return "", false
}

// otherAffix: c is HasPrefix/HasSuffix(x, A) known true at block `at`; if the
// opposite affix test on the same x with a constant that cannot overlap A is
// also known true, x is at least len(A)+len(B) long.
func (a *Analysis) otherAffix(c *ssa.Call, at int) (int64, bool) {
	me, ok := a.affixConst(c.Call.Args[1])
	if !ok {
		return 0, false
	}
	myName := ssax.CalleeName(&c.Call)
	for _, f := range a.G.FactsAt(at) {
		o, ok := f.Cond.(*ssa.Call)
		if !ok || !f.Val || o == c || o.Call.Args == nil || len(o.Call.Args) != 2 || o.Call.Args[0] != c.Call.Args[0] {
			continue
		}
		on := ssax.CalleeName(&o.Call)
		if !(strings.HasSuffix(on, "HasPrefix") && strings.HasSuffix(myName, "HasSuffix") || strings.HasSuffix(on, "HasSuffix") && strings.HasSuffix(myName, "HasPrefix")) {
			continue
		}
		other, ok := a.affixConst(o.Call.Args[1])
		if !ok {
			continue
		}
		// one-byte affixes that differ cannot be the same byte of x
		if len(me) == 1 && len(other) == 1 && me != other {
			return 2, true
		}
	}
	return 0, false
}

// prefixOf: a dominating HasPrefix(x, K)==true with constant K.
func (a *Analysis) prefixOf(x ssa.Value, at int) (string, bool) {
	for _, f := range a.G.FactsAt(at) {
		c, ok := f.Cond.(*ssa.Call)
		if !ok || !f.Val {
			continue
		}
		n := ssax.CalleeName(&c.Call)
		if (n == "bytes.HasPrefix" || n == "strings.HasPrefix") && c.Call.Args[0] == x {
			if s, ok := a.affixConst(c.Call.Args[1]); ok {
				return s, true
			}
		}
	}
	return "", false
}

// factsAt: facts valid just before instruction upto (nil = at the end) of block b.
func (a *Analysis) factsAt(b int, upto ssa.Instruction) []Aff {
	facts := append([]Aff{}, a.Pre...)
	var chain []int
	for x := b; ; x = a.G.Idom(x) {
		chain = append([]int{x}, chain...)
		if x == 0 || a.G.Idom(x) < 0 {
			break
		}
	}
	usedIf := map[*ssa.If]bool{}
	for i, bi := range chain {
		blk := a.G.Fn.Blocks[bi]
		if i > 0 {
			p := chain[i-1]
			if len(a.G.Preds[bi]) == 1 && a.G.Preds[bi][0] == p {
				pb := a.G.Fn.Blocks[p]
				if ifi, ok := pb.Instrs[len(pb.Instrs)-1].(*ssa.If); ok && pb.Succs[0] != pb.Succs[1] {
					usedIf[ifi] = true
					facts = append(facts, a.edgeFacts(ifi.Cond, pb.Succs[0].Index == bi, withLenNonneg(facts), bi)...)
				}
			}
		}
		end := len(blk.Instrs)
		if c := a.G.Cut[bi]; c >= 0 {
			end = c
		}
		for _, ins := range blk.Instrs[:end] {
			if bi == b && ins == upto {
				break
			}
			facts = append(facts, a.defFacts(ins)...)
			if v, ok := ins.(ssa.Value); ok {
				facts = append(facts, a.inv[v]...)
			}
		}
	}
	// branch outcomes that hold here without lying on the dominator chain
	// (unfolded from facts about phis, see ssax.Graph.FactsAt)
	for _, f := range a.G.FactsAt(b) {
		if f.If != nil && usedIf[f.If] && f.Cond == stripNot(f.If.Cond) {
			continue
		}
		facts = append(facts, a.edgeFacts(f.Cond, f.Val, withLenNonneg(facts), b)...)
	}
	// conditional merge facts whose condition is known here
	if len(a.cond) > 0 {
		for _, f := range a.G.FactsAt(b) {
			for _, c := range a.cond {
				if c.val == f.Val && condEquiv(c.cond, f.Cond) && a.G.DomBlock(c.phi.Block().Index, b) {
					d := a.I(c.phi).Sub(a.I(c.edge))
					facts = append(facts, d, d.Neg())
				}
			}
		}
	}
	return withLenNonneg(facts)
}

func stripNot(v ssa.Value) ssa.Value {
	for {
		u, ok := v.(*ssa.UnOp)
		if !ok || u.Op != token.NOT {
			return v
		}
		v = u.X
	}
}

func withLenNonneg(f []Aff) []Aff {
	seen := map[string]bool{}
	out := append([]Aff{}, f...)
	for _, c := range f {
		for s := range c.t {
			if strings.HasPrefix(s, "len(") && !seen[s] {
				seen[s] = true
				out = append(out, Sym(s))
			}
		}
	}
	return out
}

// factsOnEdge: facts at the end of pred p when control flows p -> s.
func (a *Analysis) factsOnEdge(p, s int) []Aff {
	f := a.factsAt(p, nil)
	pb := a.G.Fn.Blocks[p]
	if ifi, ok := pb.Instrs[len(pb.Instrs)-1].(*ssa.If); ok && pb.Succs[0] != pb.Succs[1] && a.G.Cut[p] < 0 {
		f = append(f, a.edgeFacts(ifi.Cond, pb.Succs[0].Index == s, f, p)...)
	}
	return withLenNonneg(f)
}

func (a *Analysis) houdini() {
	fn := a.G.Fn
	var seqParams []ssa.Value
	for _, p := range fn.Params {
		if isSeq(p.Type()) {
			seqParams = append(seqParams, p)
		}
	}
	// other sequence values that bound loop counters: any non-phi sequence value
	// used in a len() call
	var seqVals []ssa.Value
	seenSeq := map[ssa.Value]bool{}
	for _, p := range seqParams {
		seenSeq[p] = true
		seqVals = append(seqVals, p)
	}
	a.G.Instrs(func(i ssa.Instruction) {
		if c, ok := i.(*ssa.Call); ok {
			if b, ok := c.Call.Value.(*ssa.Builtin); ok && b.Name() == "len" {
				v := c.Call.Args[0]
				if _, isPhi := v.(*ssa.Phi); !isPhi && isSeq(v.Type()) && !seenSeq[v] {
					seenSeq[v] = true
					seqVals = append(seqVals, v)
				}
			}
		}
	})
	type cand struct {
		phi  *ssa.Phi
		mk   func(v ssa.Value) Aff
		desc string
	}
	var cands []cand
	a.G.Instrs(func(ins ssa.Instruction) {
		phi, ok := ins.(*ssa.Phi)
		if !ok {
			return
		}
		if isInt(phi.Type()) {
			cands = append(cands, cand{phi, func(v ssa.Value) Aff { return a.I(v) }, "phi>=0"})
			cands = append(cands, cand{phi, func(v ssa.Value) Aff { return a.I(v).Add(K(1)) }, "phi>=-1"})
			cands = append(cands, cand{phi, func(v ssa.Value) Aff { return a.I(v).Sub(K(1)) }, "phi>=1"})
			cands = append(cands, cand{phi, func(v ssa.Value) Aff { return a.I(v).Sub(K(2)) }, "phi>=2"})
			for _, s := range seqVals {
				for c := int64(0); c <= 2; c++ {
					s, c := s, c
					cands = append(cands, cand{phi, func(v ssa.Value) Aff { return a.L(s).Sub(K(c)).Sub(a.I(v)) }, fmt.Sprintf("phi<=len(%s)-%d", name(s), c)})
				}
			}
		} else if isSeq(phi.Type()) {
			for c := int64(1); c <= 4; c++ {
				c := c
				cands = append(cands, cand{phi, func(v ssa.Value) Aff { return a.L(v).Sub(K(c)) }, fmt.Sprintf("len(phi)>=%d", c)})
			}
			for _, s := range seqParams {
				s := s
				cands = append(cands, cand{phi, func(v ssa.Value) Aff { return a.L(s).Sub(a.L(v)) }, fmt.Sprintf("len(phi)<=len(%s)", name(s))})
			}
		}
	})
	if len(cands) == 0 {
		return
	}
	alive := make([]bool, len(cands))
	for i := range alive {
		alive[i] = true
	}
	for changed := true; changed; {
		changed = false
		a.inv = map[ssa.Value][]Aff{}
		for i, c := range cands {
			if alive[i] {
				a.inv[c.phi] = append(a.inv[c.phi], c.mk(c.phi))
			}
		}
		for i, c := range cands {
			if !alive[i] {
				continue
			}
			blk := c.phi.Block()
			for k, e := range c.phi.Edges {
				pred := blk.Preds[k].Index
				if !a.G.Reach[pred] || !contains(a.G.Succs[pred], blk.Index) {
					continue // edge pruned away
				}
				if !Entails(a.factsOnEdge(pred, blk.Index), c.mk(e)) {
					alive[i] = false
					changed = true
					break
				}
			}
		}
	}
	a.inv = map[ssa.Value][]Aff{}
	for i, c := range cands {
		if alive[i] {
			a.inv[c.phi] = append(a.inv[c.phi], c.mk(c.phi))
			a.InvDoc = append(a.InvDoc, name(c.phi)+": "+strings.Replace(c.desc, "phi", name(c.phi), 1))
		}
	}
}

func contains(s []int, x int) bool {
	for _, y := range s {
		if y == x {
			return true
		}
	}
	return false
}

// Site is one panic-capable index/slice expression and its verdict.
type Site struct {
	Instr  ssa.Instruction
	Kind   string // index | slice | lookup
	Expr   string
	OK     bool
	Failed []string // goals that could not be established
	Known  string   // strongest relevant facts, for the report
}

// Entailed reports whether goal >= 0 holds just before instr.
func (a *Analysis) Entailed(instr ssa.Instruction, goal Aff) bool {
	return Entails(a.factsAt(instr.Block().Index, instr), goal)
}

// FactsBefore exposes the fact set before instr (for call-site precondition checks).
func (a *Analysis) FactsBefore(instr ssa.Instruction) []Aff {
	return a.factsAt(instr.Block().Index, instr)
}

// Sites evaluates every live index/slice site of the function.
func (a *Analysis) Sites() []Site {
	var out []Site
	a.G.Instrs(func(ins ssa.Instruction) {
		var goals []Aff
		var names []string
		var kind string
		var seq ssa.Value
		switch v := ins.(type) {
		case *ssa.Slice:
			lo, hi := K(0), a.L(v.X)
			if v.Low != nil {
				lo = a.I(v.Low)
			}
			if v.High != nil {
				hi = a.I(v.High)
			}
			capOrLen := a.L(v.X)
			if v.Low == nil && v.High == nil {
				return // x[:] cannot fail
			}
			goals = []Aff{lo, hi.Sub(lo), capOrLen.Sub(hi)}
			names = []string{"low >= 0", "low <= high", "high <= len"}
			if v.High != nil && !isString(v.X.Type()) {
				// slicing up to cap is legal; only len is tracked, which is
				// stricter, except for the append idiom x[:0] handled by lo=hi=0.
				if k, ok := hi.IsConst(); ok && k == 0 {
					goals, names = goals[:1], names[:1]
				}
			}
			kind, seq = "slice", v.X
		case *ssa.IndexAddr:
			goals = []Aff{a.I(v.Index), a.L(v.X).Sub(K(1)).Sub(a.I(v.Index))}
			names = []string{"index >= 0", "index < len"}
			kind, seq = "index", v.X
		case *ssa.Index:
			goals = []Aff{a.I(v.Index), a.L(v.X).Sub(K(1)).Sub(a.I(v.Index))}
			names = []string{"index >= 0", "index < len"}
			kind, seq = "index", v.X
		case *ssa.Lookup:
			if !isString(v.X.Type()) {
				return
			}
			goals = []Aff{a.I(v.Index), a.L(v.X).Sub(K(1)).Sub(a.I(v.Index))}
			names = []string{"index >= 0", "index < len"}
			kind, seq = "index", v.X
		default:
			return
		}
		facts := a.factsAt(ins.Block().Index, ins)
		s := Site{Instr: ins, Kind: kind, OK: true, Expr: fmt.Sprint(ins)}
		for i, g := range goals {
			if !Entails(facts, g) {
				s.OK = false
				s.Failed = append(s.Failed, fmt.Sprintf("%s  (i.e. %s >= 0)", names[i], g))
			}
		}
		if !s.OK {
			s.Known = a.describeKnown(facts, seq, goals)
		}
		out = append(out, s)
	})
	return out
}

func (a *Analysis) describeKnown(facts []Aff, seq ssa.Value, goals []Aff) string {
	l := a.L(seq)
	known := int64(-1)
	for k := int64(16); k >= 0; k-- {
		if Entails(facts, l.Sub(K(k))) {
			known = k
			break
		}
	}
	need := int64(-1)
	for k := int64(0); k <= 16; k++ {
		f := append(append([]Aff{}, facts...), l.Sub(K(k)))
		all := true
		for _, g := range goals {
			if !Entails(f, g) {
				all = false
			}
		}
		if all {
			need = k
			break
		}
	}
	s := fmt.Sprintf("known: %s >= %d", l, known)
	if need >= 0 {
		s += fmt.Sprintf("; would hold if %s >= %d", l, need)
	}
	return s
}

// LenAtLeast returns the largest k <= max with facts |- len(v) >= k before instr.
func (a *Analysis) LenAtLeast(instr ssa.Instruction, v ssa.Value, max int64) int64 {
	facts := a.factsAt(instr.Block().Index, instr)
	for k := max; k > 0; k-- {
		if Entails(facts, a.L(v).Sub(K(k))) {
			return k
		}
	}
	return 0
}

// LenExactly reports whether len(v) == k is known before instr.
func (a *Analysis) LenExactly(instr ssa.Instruction, v ssa.Value, k int64) bool {
	facts := a.factsAt(instr.Block().Index, instr)
	return Entails(facts, a.L(v).Sub(K(k))) && Entails(facts, K(k).Sub(a.L(v)))
}

// ParamLen builds the fact len(param) >= k.
func (a *Analysis) ParamLen(p *ssa.Parameter, k int64) Aff {
	return Sym("len(" + name(p) + ")").Sub(K(k))
}
