// Command gicheck decides the go-internal properties by static analysis of
// /repo's current source.
package main

import (
	"encoding/json"
	"flag"
	"fmt"
	"os"
	"os/exec"
	"path/filepath"
	"runtime/debug"
	"sort"
	"strconv"
	"strings"
	"sync"
	"time"

	"verif/checker/core"
	"verif/checker/rules"
)

var thoroughConfigs = []core.Config{
	{"linux", "amd64"}, {"linux", "386"}, {"darwin", "arm64"}, {"freebsd", "amd64"},
	{"windows", "amd64"}, {"solaris", "amd64"}, {"aix", "ppc64"}, {"js", "wasm"}, {"plan9", "amd64"},
}

type childOut struct {
	Ctx      *core.Ctx
	LoadErr  string
	Controls []string
	Panic    string
}

func main() {
	prop := flag.String("property", "", "property id (C01..C20) or 'all'")
	tier := flag.String("tier", "quick", "quick|thorough")
	repo := flag.String("repo", "/repo", "repository to analyse")
	verif := flag.String("verif", "", "verif directory (default: parent of the binary's directory)")
	child := flag.String("child", "", "internal: run one configuration (os/arch) and print JSON")
	list := flag.Bool("list", false, "list obligations")
	flag.Parse()
	if t := os.Getenv("VERIF_TIER"); t != "" && !isFlagSet("tier") {
		*tier = t
	}
	if *verif == "" {
		exe, _ := os.Executable()
		*verif = filepath.Dir(filepath.Dir(exe))
	}
	seed, _ := strconv.Atoi(os.Getenv("VERIF_SEED"))
	if *child != "" {
		runChild(*prop, *tier, *repo, *child)
		return
	}
	if *prop == "all" {
		status := 0
		for _, id := range rules.IDs() {
			if s := runProperty(id, *tier, *repo, *verif, seed, *list); s > status {
				status = s
			}
		}
		os.Exit(status)
	}
	if _, ok := rules.Registry[*prop]; !ok {
		fmt.Fprintf(os.Stderr, "unknown property %q; have %v\n", *prop, rules.IDs())
		os.Exit(2)
	}
	os.Exit(runProperty(*prop, *tier, *repo, *verif, seed, *list))
}

func isFlagSet(name string) bool {
	set := false
	flag.Visit(func(f *flag.Flag) {
		if f.Name == name {
			set = true
		}
	})
	return set
}

func analyse(prop, tier, repo string, cfg core.Config) (out childOut) {
	defer func() {
		if r := recover(); r != nil {
			out.Panic = fmt.Sprintf("%v\n%s", r, debug.Stack())
		}
	}()
	p, err := core.Load(repo, cfg)
	if err != nil {
		if p == nil || p.SSA == nil {
			out.LoadErr = err.Error()
			return out
		}
		// type errors matter only in the packages the property is anchored in
		spec := rules.Registry[prop]
		if spec.Packages == nil {
			out.LoadErr = err.Error()
		} else if broken := p.BrokenIn(spec.Packages); len(broken) > 0 {
			out.LoadErr = "type errors in anchored packages: " + strings.Join(broken, "; ")
		} else {
			fmt.Fprintf(os.Stderr, "note: %s: module has type errors outside the packages this property is anchored in (%v): %s\n", cfg, spec.Packages, firstLine(err.Error()))
		}
		if out.LoadErr != "" {
			return out
		}
	}
	ctx := core.NewCtx(prop, tier, p)
	out.Ctx = ctx
	rules.Registry[prop].Run(ctx)
	rules.NoNewSharedState(ctx, rules.Registry[prop].Packages)
	ctx.Finish()
	return out
}

func runChild(prop, tier, repo, cfgs string) {
	parts := strings.SplitN(cfgs, "/", 2)
	out := analyse(prop, tier, repo, core.Config{GOOS: parts[0], GOARCH: parts[1]})
	if out.Ctx != nil {
		out.Ctx.P = nil
	}
	json.NewEncoder(os.Stdout).Encode(out)
}

func runProperty(prop, tier, repo, verif string, seed int, list bool) int {
	res := &core.Result{Property: prop, Tier: tier, Start: time.Now()}
	ff, err := core.LoadFindings(filepath.Join(verif, "known_findings.json"))
	if err != nil {
		fmt.Fprintln(os.Stderr, "cannot read known_findings.json:", err)
		return 2
	}
	// engine controls: the primitives must fire on the fixture package.
	ctl, err := rules.RunControls(filepath.Join(verif, "checker"))
	if err != nil {
		fmt.Fprintln(os.Stderr, "engine control failed (checker broken, not a verdict on /repo):", err)
		return 2
	}
	res.Controls = ctl
	spec := rules.Registry[prop]
	cfgs := []core.Config{{"linux", "amd64"}}
	if tier == "thorough" {
		cfgs = nil
		for _, c := range thoroughConfigs {
			if spec.Configs == nil || spec.Configs(c) {
				cfgs = append(cfgs, c)
			}
		}
	}
	outs := make([]childOut, len(cfgs))
	if len(cfgs) == 1 {
		outs[0] = analyse(prop, tier, repo, cfgs[0])
	} else {
		exe, _ := os.Executable()
		var wg sync.WaitGroup
		sem := make(chan bool, 4)
		for i, c := range cfgs {
			wg.Add(1)
			go func() {
				defer wg.Done()
				sem <- true
				defer func() { <-sem }()
				cmd := exec.Command(exe, "-property", prop, "-tier", tier, "-repo", repo, "-child", c.String())
				cmd.Stderr = os.Stderr
				b, err := cmd.Output()
				if err != nil {
					outs[i].Panic = fmt.Sprintf("child %s: %v", c, err)
					return
				}
				if err := json.Unmarshal(b, &outs[i]); err != nil {
					outs[i].Panic = fmt.Sprintf("child %s: bad output: %v", c, err)
				}
			}()
		}
		wg.Wait()
	}
	infra := false
	for i, o := range outs {
		if o.Panic != "" {
			fmt.Fprintf(os.Stderr, "checker panicked on %s: %s\n", cfgs[i], o.Panic)
			c := core.NewCtx(prop, tier, nil)
			c.Unknown("engine", "panic-"+cfgs[i].String(), 0, "checker panicked: %s", firstLine(o.Panic))
			res.Merge(c)
			continue
		}
		if o.LoadErr != "" {
			// A configuration in which the module does not type-check cannot be analysed.
			if spec.MayFailToLoad != nil && spec.MayFailToLoad(cfgs[i], o.LoadErr) {
				fmt.Printf("note: %s: not analysed (%s)\n", cfgs[i], firstLine(o.LoadErr))
				continue
			}
			if o.Ctx == nil {
				fmt.Fprintf(os.Stderr, "cannot load %s for %s: %s\n", repo, cfgs[i], o.LoadErr)
				if i == 0 {
					infra = true
				}
				c := core.NewCtx(prop, tier, nil)
				c.Unknown("engine", "load-"+cfgs[i].String(), 0, "cannot load/type-check the module: %s", firstLine(o.LoadErr))
				res.Merge(c)
				continue
			}
		}
		if o.Ctx != nil {
			if len(cfgs) > 1 {
				for _, ob := range o.Ctx.Obls {
					if cfgs[i] != (core.Config{"linux", "amd64"}) {
						ob.Key += "%" + cfgs[i].String()
					}
					ob.Config = cfgs[i].String()
				}
			}
			res.Merge(o.Ctx)
		}
	}
	_ = infra
	if list {
		sort.SliceStable(res.Obls, func(i, j int) bool { return res.Obls[i].Key < res.Obls[j].Key })
		for _, o := range res.Obls {
			fmt.Printf("%-10s %-70s %s  %s\n", o.Status, o.Key, o.Pos, o.Detail)
		}
	}
	res.Quiet = list
	return res.Report(verif, ff, seed)
}

func firstLine(s string) string {
	if i := strings.IndexByte(s, '\n'); i >= 0 {
		return s[:i]
	}
	return s
}
