#!/usr/bin/env python3
"""verify_seed.py <src seed dir> <property id> <name>
Confirms a seeded change in a scratch worktree of /repo (outside /repo and /verif):
builds, existing tests of the whole module pass (minus the two tests that fail offline
on the pristine tree), the demonstration fails with the change and passes without.
On success copies it to /verif/seeded/<name>/ with meta.json."""
import json, os, shutil, subprocess, sys, tempfile, glob
src, prop, name = sys.argv[1], sys.argv[2], sys.argv[3]
env = dict(os.environ, GOFLAGS="-mod=mod", GOPROXY="off", GOSUMDB="off", GOTOOLCHAIN="local")
def sh(cmd, cwd, timeout=1500):
    p = subprocess.run(cmd, shell=True, cwd=cwd, env=env, capture_output=True, text=True, errors="replace", timeout=timeout)
    return p.returncode, (p.stdout + p.stderr)
wt = tempfile.mkdtemp(prefix="seedverify-", dir="/tmp")
os.rmdir(wt)
rc, out = sh(f"git -C /repo worktree add -q --detach {wt} HEAD", "/")
assert rc == 0, out
log = {}
try:
    patch = os.path.join(src, "patch.diff")
    rc, out = sh(f"git apply --check {patch}", wt)
    if rc != 0:
        print("PATCH DOES NOT APPLY", out); sys.exit(3)
    demo_rel = open(os.path.join(src, "demo_path.txt")).read().split()
    demos = []
    for rel in demo_rel:
        cand = [os.path.join(src, rel), os.path.join(src, os.path.basename(rel))]
        f = next((c for c in cand if os.path.exists(c)), None)
        assert f, ("demo missing", rel)
        demos.append((rel, f))
    pkgs = sorted(set("./" + os.path.dirname(r) for r, _ in demos))
    def put_demo():
        for rel, f in demos:
            shutil.copy(f, os.path.join(wt, rel))
    def rm_demo():
        for rel, f in demos:
            try: os.remove(os.path.join(wt, rel))
            except FileNotFoundError: pass
    # pristine: demo passes
    put_demo()
    rc, out = sh("go test -count=1 -run 'Seed' " + " ".join(pkgs), wt)
    log["demo_pristine"] = "PASS" if rc == 0 else "FAIL"
    log["demo_pristine_tail"] = out[-600:]
    rm_demo()
    # with change
    sh(f"git apply {patch}", wt)
    rc, out = sh("go build ./...", wt)
    log["build_with_change"] = "PASS" if rc == 0 else "FAIL: " + out[-400:]
    rc, out = sh("go test -count=1 ./... 2>&1 | grep -v '^ok\\|no test files'", wt)
    fails = [l for l in out.splitlines() if l.startswith("FAIL\t") or l.startswith("--- FAIL")]
    allowed = ("TestSimple", "TestScripts/env_var_with_go", "gotooltest", "cmd/testscript")
    bad = [l for l in fails if not any(a in l for a in allowed) and not l.strip() == "--- FAIL: TestScripts (0.00s)"]
    # '--- FAIL: TestScripts' parent line belongs to cmd/testscript env_var_with_go
    bad = [l for l in bad if not l.startswith("--- FAIL: TestScripts (")]
    log["existing_tests_with_change"] = "PASS" if not bad else "FAIL: " + "; ".join(bad)
    put_demo()
    rc, out = sh("go test -count=1 -run 'Seed' " + " ".join(pkgs), wt)
    log["demo_with_change"] = "FAIL" if rc != 0 else "PASS"
    log["demo_with_change_tail"] = out[-800:]
    rm_demo()
finally:
    sh(f"git -C /repo worktree remove --force {wt}", "/")
ok = log.get("demo_pristine") == "PASS" and log.get("build_with_change") == "PASS" and log.get("existing_tests_with_change") == "PASS" and log.get("demo_with_change") == "FAIL"
print(name, "VALID" if ok else "INVALID", {k: v for k, v in log.items() if not k.endswith("_tail")})
if not ok:
    print(log.get("demo_pristine_tail", "")[-300:]); print(log.get("demo_with_change_tail", "")[-300:])
    sys.exit(1)
dst = os.path.join("/verif/seeded", name)
os.makedirs(dst, exist_ok=True)
shutil.copy(patch, os.path.join(dst, "patch.diff"))
for rel, f in demos:
    d = os.path.join(dst, "demo", rel); os.makedirs(os.path.dirname(d), exist_ok=True); shutil.copy(f, d)
notes = open(os.path.join(src, "notes.md")).read() if os.path.exists(os.path.join(src, "notes.md")) else ""
shutil.copy(os.path.join(src, "notes.md"), os.path.join(dst, "notes.md")) if notes else None
base = subprocess.run("git -C /repo rev-parse --short HEAD", shell=True, capture_output=True, text=True).stdout.strip()
meta = {"property": prop, "name": name, "origin": "independent sub-agent given only the property text and a scratch worktree",
        "needs_to_manifest": "see notes.md", "verified_at_repo_commit": base,
        "what_i_ran": {"pristine": "go test -count=1 -run Seed " + " ".join(pkgs) + " -> PASS",
                       "with_change": ["go build ./... -> " + log["build_with_change"], "go test -count=1 ./... (existing suite, minus the two offline-failing tests) -> " + log["existing_tests_with_change"], "go test -count=1 -run Seed " + " ".join(pkgs) + " -> FAIL"]},
        "demo_files": [r for r, _ in demos], "demo_failure_tail": log["demo_with_change_tail"][-500:]}
json.dump(meta, open(os.path.join(dst, "meta.json"), "w"), indent=1)
