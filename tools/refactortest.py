#!/usr/bin/env python3
"""refactortest.py <dir with r*/patch.diff> [props...] — applies each behaviour-preserving refactoring in a scratch
worktree and runs the given checks (default: all claimed); any VIOLATION is a false alarm to investigate."""
import json, os, subprocess, sys, tempfile, glob
GICHECK = os.environ.get("GICHECK", "/verif/bin/gicheck")
src = sys.argv[1]
props = sys.argv[2:] or [c["property_id"] for c in json.load(open("/verif/MANIFEST.json"))["checks"]]
for d in sorted(glob.glob(os.path.join(src, "r*"))):
    patch = os.path.join(d, "patch.diff")
    if not os.path.exists(patch): continue
    wt = tempfile.mkdtemp(prefix="rft-", dir="/tmp"); os.rmdir(wt)
    subprocess.run(f"git -C /repo worktree add -q --detach {wt} HEAD", shell=True, check=True)
    try:
        r = subprocess.run(f"git apply {patch}", shell=True, cwd=wt, capture_output=True, text=True)
        if r.returncode != 0:
            print(os.path.basename(d), "PATCH-DOES-NOT-APPLY"); continue
        alarms = []
        def one(p):
            out = []
            r = subprocess.run(f"{GICHECK} -property {p} -repo {wt} -verif /tmp/seedtest-verif", shell=True, capture_output=True, text=True)
            for l in r.stdout.splitlines():
                if l.startswith(("VIOLATED", "UNDECIDED")):
                    out.append(p + " " + l[:260])
            if r.returncode not in (0, 1):
                out.append(f"{p} exit {r.returncode}: {r.stderr[-200:]}")
            return out
        from concurrent.futures import ThreadPoolExecutor
        with ThreadPoolExecutor(int(os.environ.get("JOBS", "6"))) as ex:
            for res in ex.map(one, props):
                alarms += res
        print(os.path.basename(d), "SILENT" if not alarms else "ALARMS(%d)" % len(alarms))
        for a in alarms[:8]: print("    ", a)
    finally:
        subprocess.run(f"git -C /repo worktree remove --force {wt}", shell=True)
