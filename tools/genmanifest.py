#!/usr/bin/env python3
"""Regenerates /verif/MANIFEST.json from the table below (run from /verif)."""
import json, sys
props = [json.loads(l) for l in open('properties.jsonl')]
ENV = "GOFLAGS=-mod=mod GOPROXY=off GOSUMDB=off GOTOOLCHAIN=local GOWORK=off"
SETUP = "cd checker && %s go build -o ../bin/gicheck ./cmd/gicheck" % ENV
TRUST = "Trusted: go/packages+go/types+go/ssa (x/tools v0.29.0) lowering of /repo's source; the checker's library-fact tables; standard-library and OS semantics where a rule reduces to them. Decides only the structural clauses listed; see DESIGN.md for the clauses left undecided."
claimed = json.load(open('tools/claims.json'))
checks = []
for p in props:
    c = claimed.get(p['id'])
    if not c: continue
    checks.append({
        "property_id": p['id'],
        "quick_cmd": "bin/gicheck -property %s -tier quick" % p['id'],
        "thorough_cmd": "bin/gicheck -property %s -tier thorough" % p['id'],
        "evidence_file": "evidence/%s.json" % p['id'],
        "replay_cmd_template": "cat {path}; bin/gicheck -property %s -tier quick -list" % p['id'],
        "engine": "gicheck",
        "level_claimed": {"category": "other", "text": c['text'], "design_ref": c.get('ref', 'DESIGN.md section 4, ' + p['id'])},
        "level_note": c.get('note', TRUST),
        "technique": c['technique'],
    })
na = [{"property_id": p['id'], "reason": claimed.get('_na', {}).get(p['id'], "check not built yet (construction in progress, see DESIGN.md section 8)")} for p in props if p['id'] not in claimed]
m = {"version": 1, "setup_cmd": SETUP,
     "hooks": {"guard": "verif", "enable": "none needed: the checks are static analyses of /repo's source; no hook is compiled into /repo and no build tag is used", "baseline_off_cmd": "cd /repo && go test -vet=off -count=1 -timeout 25m ./...", "source_commits": [], "add_only": True},
     "engines": [{"name": "gicheck", "path": "checker/", "serves_properties": sorted(k for k in claimed if not k.startswith('_')), "kind_free_text": "custom static analyser over go/packages + go/ssa: dominance/edge-fact gates on CFGs pruned at no-return calls, path searches, provenance slices, lockset, ownership indexes, table agreement, affine bounds engine with Fourier-Motzkin entailment"}],
     "checks": checks,
     "notes": "All claims are at level 'other': each check decides named structural necessary conditions of its property by static analysis of /repo's current source on every run (nothing from /repo is executed). quick = linux/amd64; thorough = the build-configuration matrix plus deeper settings. Genuine defects found are listed in known_findings.json (all repaired by 'fix:' commits so far).",
     "not_applicable": na}
json.dump(m, open('MANIFEST.json', 'w'), indent=1)
print("claimed:", len(checks), "not_applicable:", len(na))
