#!/usr/bin/env python3
"""claimsync.py — makes sure every rule the checker applied (as recorded in evidence/<id>.json)
is named in that property's claim text in tools/claims.json. Rules whose id the text does not
mention are appended, with the checker's own one-line statement, before the 'Does NOT decide'
sentence. Run after all checks, before genmanifest.py."""
import json, re, glob
claims = json.load(open('/verif/tools/claims.json'))
added = 0
for f in sorted(glob.glob('/verif/evidence/C*.json')):
    d = json.load(open(f))
    pid = d['property_id']
    if pid not in claims: continue
    exp = d['coverage'].get('explanation', '')
    body = exp.split('Rules applied: ', 1)[1] if 'Rules applied: ' in exp else ''
    text = claims[pid]['text']
    extra = []
    for part in body.split(' | '):
        rid, _, desc = part.strip().partition(': ')
        if not rid or not desc: continue
        if re.search(r'(?<![A-Za-z0-9])' + re.escape(rid) + r'(?![A-Za-z0-9])', text): continue
        first = re.split(r'(?<=[a-z\)])[;:] ', desc, 1)[0].rstrip('.')
        if len(first) > 260: first = first[:257].rsplit(' ', 1)[0] + '...'
        extra.append(f"({rid}) {first}")
    if not extra: continue
    added += len(extra)
    add = " Also decides: " + "; ".join(extra) + "."
    i = text.find('Does NOT decide')
    if i < 0: i = text.find('Does not decide')
    claims[pid]['text'] = (text[:i].rstrip() + add + " " + text[i:]) if i >= 0 else text + add
json.dump(claims, open('/verif/tools/claims.json', 'w'), indent=1, ensure_ascii=False)
print("rule mentions added:", added)
