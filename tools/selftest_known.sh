#!/bin/sh
# selftest_known.sh — exercises the known-findings mechanism on a seeded change, in scratch copies only:
# (1) with the seed's obligation key listed as "known", the check prints KNOWN-FINDING and exits 0;
# (2) a second, unlisted violation of the same rule family still gives VIOLATION and exit 1.
set -e
V=/tmp/kf-verif; W=/tmp/kfwt
rm -rf $V; mkdir -p $V; ln -s /verif/checker $V/checker
python3 - <<'PY'
import json
d=json.load(open('/verif/known_findings.json'))
d['findings'].append({"property":"C13","key":"C13.T8@cache.Trim#all-subdirs","status":"known","what":"self-test entry: the sweep stops at 0xfe"})
json.dump(d,open('/tmp/kf-verif/known_findings.json','w'),indent=1)
PY
git -C /repo worktree add -q --detach $W HEAD
trap 'git -C /repo worktree remove --force $W; rm -rf $V' EXIT
cd $W; git apply /verif/seeded/C13-r2m2/patch.diff
out=$(/verif/bin/gicheck -property C13 -repo $W -verif $V) && rc=0 || rc=$?
echo "$out" | grep -q "^KNOWN-FINDING: property=C13" && [ $rc -eq 0 ] && ! echo "$out" | grep -q "^VIOLATION" && echo "ok 1: known finding reported, exit 0" || { echo "FAIL 1 (rc=$rc)"; exit 1; }
git apply /verif/seeded/C13-r2m3/patch.diff
out=$(/verif/bin/gicheck -property C13 -repo $W -verif $V) && rc=0 || rc=$?
echo "$out" | grep -q "^KNOWN-FINDING: property=C13" && echo "$out" | grep -q "^VIOLATION property=C13" && [ $rc -eq 1 ] && echo "ok 2: an unlisted violation is still reported, exit 1" || { echo "FAIL 2 (rc=$rc)"; exit 1; }
