#!/usr/bin/env python3
"""seedtable.py <cross-matrix log> <own-property log> - generates the markdown table of section 7 of
DESIGN.md: for every seeded change, the first rule of the property's own check that reports it (from
the output of `tools/seedtest.py`, which prints the first VIOLATED/UNDECIDED lines under each seed) and
the other properties whose checks also fire (from the output of `ALLPROPS=1 tools/seedtest.py`)."""
import json, os, re, sys
def parse(path):
    res, cur = {}, None
    for l in open(path):
        m = re.match(r'(\S+) \[(\S+)\] (CAUGHT by (\S+)|MISSED)', l)
        if m:
            cur = m.group(1)
            res[cur] = {'props': (m.group(4) or '').split(',') if m.group(4) else [], 'keys': []}
            continue
        k = re.match(r'\s+(?:VIOLATED|UNDECIDED): \S+ \[([^\]]+)\]', l)
        if k and cur:
            res[cur]['keys'].append(k.group(1))
    return res
matrix = parse(sys.argv[1]) if len(sys.argv) > 1 and os.path.exists(sys.argv[1]) else {}
own = parse(sys.argv[2]) if len(sys.argv) > 2 and os.path.exists(sys.argv[2]) else {}
print('| seed | file changed | first rule reporting (own property) | also reported by |')
print('|---|---|---|---|')
def order(s):
    m = re.match(r'(C\d+)-(?:r(\d))?m(\d)', s)
    return (m.group(1), int(m.group(2) or 1), int(m.group(3)))
for s in sorted(os.listdir('/verif/seeded'), key=order):
    meta = json.load(open(f'/verif/seeded/{s}/meta.json'))
    prop = meta['property']
    patch = open(f'/verif/seeded/{s}/patch.diff').read()
    files = sorted(set(re.findall(r'^\+\+\+ b/(\S+)', patch, re.M)))
    keys = [k for k in own.get(s, {}).get('keys', []) if k.startswith(prop + '.')]
    first = keys[0] if keys else '- (not by its own property)'
    others = [p for p in matrix.get(s, {}).get('props', []) if p != prop]
    print('| %s | %s | `%s` | %s |' % (s, ', '.join(files), first, ', '.join(others)))
