#!/usr/bin/env python3
"""Generates the markdown table of section 7 of DESIGN.md: for every seeded change, the first
rule of the property's own check that reports it, and the other properties whose checks also fire
(from a cross-matrix file produced by `ALLPROPS=1 tools/seedtest.py <seed>`)."""
import json, os, re, subprocess, sys, tempfile
matrix = {}
if len(sys.argv) > 1 and os.path.exists(sys.argv[1]):
    for l in open(sys.argv[1]):
        m = re.match(r'(\S+) \[(\S+)\] (CAUGHT by (\S+)|MISSED)', l)
        if m: matrix[m.group(1)] = (m.group(4) or '').split(',') if m.group(4) else []
rows = []
for s in sorted(os.listdir('/verif/seeded')):
    meta = json.load(open(f'/verif/seeded/{s}/meta.json'))
    prop = meta['property']
    notes = open(f'/verif/seeded/{s}/notes.md').read() if os.path.exists(f'/verif/seeded/{s}/notes.md') else ''
    patch = open(f'/verif/seeded/{s}/patch.diff').read()
    files = sorted(set(re.findall(r'^\+\+\+ b/(\S+)', patch, re.M)))
    wt = tempfile.mkdtemp(prefix='seedtab-', dir='/tmp'); os.rmdir(wt)
    subprocess.run(f'git -C /repo worktree add -q --detach {wt} HEAD', shell=True, check=True)
    try:
        subprocess.run(f'git apply /verif/seeded/{s}/patch.diff', shell=True, cwd=wt, check=True)
        r = subprocess.run(f'/verif/bin/gicheck -property {prop} -repo {wt} -verif /tmp/seedtest-verif', shell=True, capture_output=True, text=True)
        keys = re.findall(r'^(?:VIOLATED|UNDECIDED): \S+ \[([^\]]+)\]', r.stdout, re.M)
    finally:
        subprocess.run(f'git -C /repo worktree remove --force {wt}', shell=True)
    first = keys[0] if keys else '— (missed)'
    others = [p for p in matrix.get(s, []) if p != prop]
    rows.append((s, ', '.join(files), first, ', '.join(others)))
print('| seed | file changed | first rule reporting (own property) | also reported by |')
print('|---|---|---|---|')
for r in rows:
    print('| %s | %s | `%s` | %s |' % r)
