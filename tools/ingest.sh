#!/bin/sh
# ingest.sh <out-dir-prefix e.g. /tmp/seed/r2-C05> <property> <name-infix e.g. r2>
# verifies each m1..m3 under <prefix>_out and imports valid ones as seeded/<prop>-<infix>mK, then runs the property's check on them.
src=$1; prop=$2; infix=$3
for m in m1 m2 m3; do
  [ -d ${src}_out/$m ] || continue
  python3 /verif/tools/verify_seed.py ${src}_out/$m $prop $prop-$infix$m 2>&1 | tail -3 | cut -c1-220
done
python3 /verif/tools/seedtest.py "$prop-$infix*" | cut -c1-260
