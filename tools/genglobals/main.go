// genglobals prints the reference list of package-level variables of a source tree:
// go run ../tools/genglobals/main.go /repo > inl/reference_globals.json   (from checker/)
package main

import (
	"encoding/json"
	"go/ast"
	"go/parser"
	"go/token"
	"os"
	"path/filepath"
	"sort"
	"strings"
)

func main() {
	root := os.Args[1]
	out := map[string]bool{}
	filepath.Walk(root, func(path string, info os.FileInfo, err error) error {
		if err != nil {
			return nil
		}
		if info.IsDir() && (info.Name() == "testdata" || strings.HasPrefix(info.Name(), ".")) && path != root {
			return filepath.SkipDir
		}
		if !strings.HasSuffix(path, ".go") || strings.HasSuffix(path, "_test.go") {
			return nil
		}
		f, err := parser.ParseFile(token.NewFileSet(), path, nil, parser.SkipObjectResolution)
		if err != nil {
			return nil
		}
		rel, _ := filepath.Rel(root, filepath.Dir(path))
		for _, d := range f.Decls {
			gd, ok := d.(*ast.GenDecl)
			if !ok || gd.Tok != token.VAR {
				continue
			}
			for _, sp := range gd.Specs {
				for _, nm := range sp.(*ast.ValueSpec).Names {
					out[rel+":"+nm.Name] = true
				}
			}
		}
		return nil
	})
	var keys []string
	for k := range out {
		keys = append(keys, k)
	}
	sort.Strings(keys)
	b, _ := json.MarshalIndent(keys, "", " ")
	os.Stdout.Write(append(b, '\n'))
}
