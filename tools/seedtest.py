#!/usr/bin/env python3
"""seedtest.py [name-glob ...]  — runs the registered quick checks against each seeded change.
Each patch is applied in a scratch worktree of /repo (outside /repo and /verif); gicheck is
pointed at it with -repo. Prints which properties report a VIOLATION."""
GICHECK = __import__("os").environ.get("GICHECK", "/verif/bin/gicheck")
import fnmatch, json, os, subprocess, sys, tempfile, glob
pats = sys.argv[1:] or ["*"]
only = os.environ.get("PROPS")
seeds = sorted(d for d in os.listdir("/verif/seeded") if any(fnmatch.fnmatch(d, p) for p in pats))
claimed = [c["property_id"] for c in json.load(open("/verif/MANIFEST.json"))["checks"]]
if only: claimed = only.split(",")
res = {}
for s in seeds:
    meta = json.load(open(f"/verif/seeded/{s}/meta.json"))
    wt = tempfile.mkdtemp(prefix="seedtest-", dir="/tmp"); os.rmdir(wt)
    subprocess.run(f"git -C /repo worktree add -q --detach {wt} HEAD", shell=True, check=True)
    try:
        r = subprocess.run(f"git apply /verif/seeded/{s}/patch.diff", shell=True, cwd=wt, capture_output=True, text=True)
        if r.returncode != 0:
            print(s, "PATCH-DOES-NOT-APPLY"); continue
        props = claimed if os.environ.get("ALLPROPS") else [p for p in claimed if p == meta["property"]]
        hit = []
        detail = []
        def one(p):
            r = subprocess.run(f"{GICHECK} -property {p} -repo {wt} -verif /tmp/seedtest-verif", shell=True, capture_output=True, text=True)
            if "VIOLATION property=" in r.stdout:
                return p, [l for l in r.stdout.splitlines() if l.startswith(("VIOLATED", "UNDECIDED"))][:3]
            elif r.returncode != 0:
                return p + "(exit %d)" % r.returncode, []
            return None, []
        from concurrent.futures import ThreadPoolExecutor
        with ThreadPoolExecutor(int(os.environ.get("JOBS", "4"))) as ex:
            for h, d in ex.map(one, props):
                if h:
                    hit.append(h); detail += d
        print(s, "[%s]" % meta["property"], "CAUGHT by " + ",".join(hit) if hit else "MISSED")
        for d in detail[:4]: print("     ", d[:220])
        res[s] = hit
    finally:
        subprocess.run(f"git -C /repo worktree remove --force {wt}", shell=True)
json.dump(res, open("/tmp/seedtest-last.json", "w"), indent=1)
