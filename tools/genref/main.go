// genref prints the reference list of functions (and of local variables bound to function
// literals) of a source tree: go run ./tools/genref /repo > checker/inl/reference_funcs.json
package main

import (
	"encoding/json"
	"fmt"
	"go/ast"
	"go/parser"
	"go/token"
	"os"
	"path/filepath"
	"sort"
	"strings"
)

func main() {
	root := os.Args[1]
	out := map[string]bool{}
	filepath.Walk(root, func(path string, info os.FileInfo, err error) error {
		if err != nil {
			return nil
		}
		if info.IsDir() && (info.Name() == "testdata" || strings.HasPrefix(info.Name(), ".")) && path != root {
			return filepath.SkipDir
		}
		if !strings.HasSuffix(path, ".go") || strings.HasSuffix(path, "_test.go") {
			return nil
		}
		fset := token.NewFileSet()
		f, err := parser.ParseFile(fset, path, nil, parser.SkipObjectResolution)
		if err != nil {
			return nil
		}
		rel, _ := filepath.Rel(root, filepath.Dir(path))
		for _, d := range f.Decls {
			fd, ok := d.(*ast.FuncDecl)
			if !ok {
				continue
			}
			recv := ""
			if fd.Recv != nil && len(fd.Recv.List) > 0 {
				t := fd.Recv.List[0].Type
				if s, ok := t.(*ast.StarExpr); ok {
					t = s.X
				}
				if ix, ok := t.(*ast.IndexExpr); ok {
					t = ix.X
				}
				if id, ok := t.(*ast.Ident); ok {
					recv = id.Name + "."
				}
			}
			key := fmt.Sprintf("%s:%s%s", rel, recv, fd.Name.Name)
			out[key] = true
			// local variables bound to function literals: "<key>/<var>"
			if fd.Body != nil {
				ast.Inspect(fd.Body, func(n ast.Node) bool {
					switch x := n.(type) {
					case *ast.AssignStmt:
						if len(x.Lhs) == len(x.Rhs) {
							for i, r := range x.Rhs {
								if _, isLit := r.(*ast.FuncLit); isLit {
									if id, ok := x.Lhs[i].(*ast.Ident); ok {
										out[key+"/"+id.Name] = true
									}
								}
							}
						}
					case *ast.ValueSpec:
						if len(x.Names) == len(x.Values) {
							for i, r := range x.Values {
								if _, isLit := r.(*ast.FuncLit); isLit {
									out[key+"/"+x.Names[i].Name] = true
								}
							}
						}
					}
					return true
				})
			}
		}
		return nil
	})
	var l []string
	for k := range out {
		l = append(l, k)
	}
	sort.Strings(l)
	b, _ := json.MarshalIndent(l, "", " ")
	fmt.Println(string(b))
}
